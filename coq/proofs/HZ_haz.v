(* HZ_haz.v -- what _chk_hazards computes: labels (lab_ok) and the list of clears, described as the
   erasure of a list of TYPED clears (register, (kind, owner)) read off the relabelled record;
   apply_clears seen register by register (deqs). *)
From Coq Require Import Lia.
From PS Require Import Base Bag RegAccess Sim Diag Lists C03_lists C03_step HZ_queue HZ_plan HZ_diag.

(* ---------- all_access / regs_avail ---------- *)
Lemma all_access_true qs ty i : forall regs, all_access qs ty i regs = Ok true ->
  forall r, In r regs -> can_access (assoc [] qs r) ty i = Ok true.
Proof. induction regs as [|r0 regs IH]; intros H r Hr; [destruct Hr|]. cbn [all_access] in H.
  destruct (can_access (assoc [] qs r0) ty i) as [[|]|] eqn:E; try discriminate.
  destruct Hr as [<-|Hr]; auto. Qed.
Lemma all_access_eval qs ty i (g : string -> bool) : forall regs,
  (forall r, In r regs -> can_access (assoc [] qs r) ty i = Ok (negb (g r))) ->
  all_access qs ty i regs = Ok (negb (existsb g regs)).
Proof. induction regs as [|r0 regs IH]; intros H; cbn [all_access existsb]; auto.
  rewrite (H r0) by (left; auto). destruct (g r0); cbn [negb orb]; auto. apply IH. intros r Hr. apply H. right; auto. Qed.

Lemma regs_avail_some u i ins qs regs : regs_avail u i ins qs = Ok (Some regs) ->
  regs = (if u_rl u then i_srcs ins else []) ++ (if u_wl u then [i_dst ins] else []) /\
  (u_rl u = true -> forall r, In r (i_srcs ins) -> can_access (assoc [] qs r) RD i = Ok true) /\
  (u_wl u = true -> can_access (assoc [] qs (i_dst ins)) WR i = Ok true).
Proof. unfold regs_avail. intros H.
  destruct (if u_rl u then all_access qs RD i (i_srcs ins) else Ok true) as [[|]|] eqn:E1; try discriminate.
  destruct (if u_wl u then all_access qs WR i [i_dst ins] else Ok true) as [[|]|] eqn:E2; try discriminate.
  inversion H; subst. split; auto. split.
  - intros Hr. rewrite Hr in E1. apply all_access_true; auto.
  - intros Hw. rewrite Hw in E2. apply (all_access_true _ _ _ _ E2). left; auto. Qed.

(* ---------- typed clears ---------- *)
Definition tclear := (string * acc)%type.
Definition erase (c : tclear) : string * nat := (fst c, snd (snd c)).
Definition tregs (prog : list instr) (u : unit) (i : nat) : list tclear :=
  (if u_rl u then map (fun r => (r, (RD, i))) (srcs_of prog i) else [])
  ++ (if u_wl u then [(dst_of prog i, (WR, i))] else []).
Definition tc_entry (prog : list instr) (u : unit) (e : entry) : list tclear :=
  match snd e with LU => tregs prog u (fst e) | _ => [] end.
Definition tc_unit (prog : list instr) (u : unit) (es : list entry) : list tclear := flat_map (tc_entry prog u) es.
Definition tc_kv (P : proc) (prog : list instr) (kv : string * list entry) : list tclear :=
  match find_unit P (fst kv) with Some u => tc_unit prog u (snd kv) | None => [] end.
Definition tc_rec (P : proc) (prog : list instr) (r : record) : list tclear := flat_map (tc_kv P prog) r.

(* the label given to one entry *)
Definition lab_ok (u : unit) (oldn : list entry) (prog : list instr) (qs : queues) (e : entry) : Prop :=
  (regs_loaded oldn (fst e) = true /\ snd e = LS) \/
  (regs_loaded oldn (fst e) = false /\ exists ins, nth_error prog (fst e) = Some ins /\
     ((regs_avail u (fst e) ins qs = Ok None /\ snd e = LD) \/
      (exists regs, regs_avail u (fst e) ins qs = Ok (Some regs) /\ snd e = LU))).

Lemma tregs_erase prog u i ins regs qs : nth_error prog i = Some ins -> regs_avail u i ins qs = Ok (Some regs) ->
  map erase (tregs prog u i) = map (fun r => (r, i)) regs.
Proof. intros Hn Hr. apply regs_avail_some in Hr. destruct Hr as [-> _]. unfold tregs, srcs_of, dst_of. rewrite Hn.
  rewrite !map_app. f_equal.
  - destruct (u_rl u); auto. rewrite map_map. reflexivity.
  - destruct (u_wl u); reflexivity. Qed.

Lemma stall_unit_lab u oldn prog qs : forall es cl es' cl',
  stall_unit u oldn prog qs es cl = Ok (es', cl') ->
  map fst es' = map fst es /\ Forall (lab_ok u oldn prog qs) es' /\ cl' = cl ++ map erase (tc_unit prog u es').
Proof. induction es as [|[i l] t IH]; intros cl es' cl' H; cbn [stall_unit] in H.
  - inversion H; subst. cbn. rewrite app_nil_r. auto.
  - destruct (regs_loaded oldn i) eqn:El.
    + destruct (stall_unit u oldn prog qs t cl) as [[t' c']|] eqn:E; [|discriminate].
      inversion H; subst. destruct (IH _ _ _ E) as (A1 & A2 & A3). split; [cbn; f_equal; auto|]. split.
      * constructor; auto. left. cbn [fst snd]. auto.
      * unfold tc_unit. cbn [flat_map tc_entry snd app]. exact A3.
    + destruct (nth_error prog i) as [ins|] eqn:En; [|discriminate].
      destruct (regs_avail u i ins qs) as [[regs|]|] eqn:Er; [| |discriminate].
      * destruct (stall_unit u oldn prog qs t _) as [[t' c']|] eqn:E; [|discriminate].
        inversion H; subst. destruct (IH _ _ _ E) as (A1 & A2 & A3). split; [cbn; f_equal; auto|]. split.
        -- constructor; auto. right. cbn [fst snd]. split; auto. exists ins. split; auto. right. eauto.
        -- unfold tc_unit. cbn [flat_map tc_entry snd fst]. rewrite map_app, (tregs_erase _ _ _ _ _ _ En Er).
           fold (tc_unit prog u t'). rewrite A3, app_assoc. reflexivity.
      * destruct (stall_unit u oldn prog qs t cl) as [[t' c']|] eqn:E; [|discriminate].
        inversion H; subst. destruct (IH _ _ _ E) as (A1 & A2 & A3). split; [cbn; f_equal; auto|]. split.
        -- constructor; auto. right. cbn [fst snd]. split; auto. exists ins. split; auto.
        -- unfold tc_unit. cbn [flat_map tc_entry snd app]. exact A3. Qed.

Lemma hazards_lab P old prog qs : forall r cl r' cl',
  chk_hazards_units P old prog qs r cl = Ok (r', cl') ->
  map fst r' = map fst r /\
  (forall n es', In (n, es') r' -> es' <> [] ->
     exists u, find_unit P n = Some u /\ Forall (lab_ok u (get old n) prog qs) es') /\
  cl' = cl ++ map erase (tc_rec P prog r').
Proof. induction r as [|[n es] t IH]; intros cl r' cl' H; cbn [chk_hazards_units] in H.
  - inversion H; subst. cbn. rewrite app_nil_r. split; auto. split; auto. intros n es' [].
  - destruct es as [|e es].
    + destruct (chk_hazards_units P old prog qs t cl) as [[t' c']|] eqn:E2; [|discriminate].
      inversion H; subst. destruct (IH _ _ _ E2) as (A1 & A2 & A3). split; [cbn; f_equal; auto|]. split.
      * intros n' es' [Hin|Hin] Hne; [inversion Hin; subst; congruence|eauto].
      * unfold tc_rec. cbn [flat_map]. unfold tc_kv at 1. cbn [fst snd]. unfold tc_unit at 1. cbn [flat_map].
        destruct (find_unit P n); cbn [app]; exact A3.
    + destruct (find_unit P n) as [u|] eqn:Ef; [|discriminate].
      destruct (stall_unit u (get old n) prog qs (e :: es) cl) as [[es' c']|] eqn:E; [|discriminate].
      destruct (chk_hazards_units P old prog qs t c') as [[t' c'']|] eqn:E2; [|discriminate].
      inversion H; subst. destruct (IH _ _ _ E2) as (A1 & A2 & A3).
      destruct (stall_unit_lab _ _ _ _ _ _ _ _ E) as (B1 & B2 & B3).
      split; [cbn; f_equal; auto|]. split.
      * intros n' es'' [Hin|Hin] Hne; [inversion Hin; subst; eauto|eauto].
      * unfold tc_rec. cbn [flat_map]. unfold tc_kv at 1. cbn [fst snd]. rewrite Ef.
        fold (tc_rec P prog t'). rewrite map_app, A3, B3, <- app_assoc. reflexivity. Qed.

(* ---------- membership in the typed clears ---------- *)
Lemma tregs_In prog u i reg k j : In (reg, (k, j)) (tregs prog u i) <->
  j = i /\ ((k = RD /\ u_rl u = true /\ In reg (srcs_of prog i)) \/ (k = WR /\ u_wl u = true /\ reg = dst_of prog i)).
Proof. unfold tregs. rewrite in_app_iff. split.
  - intros [H|H].
    + destruct (u_rl u); [|destruct H]. apply in_map_iff in H. destruct H as [r [H1 H2]]. inversion H1; subst. auto.
    + destruct (u_wl u); [|destruct H]. destruct H as [H|[]]. inversion H; subst. auto 6.
  - intros [-> [(-> & H1 & H2)|(-> & H1 & H2)]].
    + left. rewrite H1. apply in_map_iff. exists reg. auto.
    + right. rewrite H1. left. congruence. Qed.
Lemma tc_unit_In prog u es reg k j : In (reg, (k, j)) (tc_unit prog u es) <->
  In (j, LU) es /\ In (reg, (k, j)) (tregs prog u j).
Proof. unfold tc_unit. rewrite in_flat_map. split.
  - intros [[i l] [H1 H2]]. unfold tc_entry in H2. cbn [fst snd] in H2. destruct l; try destruct H2.
    assert (j = i) by (apply tregs_In in H2; tauto). subst. auto.
  - intros [H1 H2]. exists (j, LU). split; auto. Qed.
Lemma tc_rec_In P prog r reg k j : In (reg, (k, j)) (tc_rec P prog r) <->
  exists n es u, In (n, es) r /\ find_unit P n = Some u /\ In (j, LU) es /\ In (reg, (k, j)) (tregs prog u j).
Proof. unfold tc_rec. rewrite in_flat_map. split.
  - intros [[n es] [H1 H2]]. unfold tc_kv in H2. cbn [fst snd] in H2. destruct (find_unit P n) as [u|] eqn:E; [|destruct H2].
    apply tc_unit_In in H2. exists n, es, u. tauto.
  - intros (n & es & u & H1 & H2 & H3 & H4). exists (n, es). split; auto. unfold tc_kv. cbn [fst snd]. rewrite H2.
    apply tc_unit_In. auto. Qed.

(* ---------- NoDup of the typed clears ---------- *)
Lemma NoDup_flat_map {A B} (f : A -> list B) : forall l, NoDup l -> (forall x, In x l -> NoDup (f x)) ->
  (forall x y z, In x l -> In y l -> In z (f x) -> In z (f y) -> x = y) -> NoDup (flat_map f l).
Proof. induction l as [|a l IH]; intros H1 H2 H3; cbn [flat_map]; [constructor|]. inversion H1; subst.
  apply NoDup_app_intro.
  - apply H2. left; auto.
  - apply IH; auto. + intros x Hx. apply H2. right; auto.
    + intros x y z Hx Hy. apply H3; right; auto.
  - intros z Hz1 Hz2. apply in_flat_map in Hz2. destruct Hz2 as [y [Hy Hz2]].
    assert (a = y) by (apply (H3 a y z); [left; auto|right; auto|auto|auto]). subst. contradiction. Qed.

Lemma tregs_NoDup prog u i : NoDup (srcs_of prog i) -> NoDup (tregs prog u i).
Proof. intros H. unfold tregs. apply NoDup_app_intro.
  - destruct (u_rl u); [|constructor]. apply NoDup_map_in; auto. intros x y _ _ E. inversion E; auto.
  - destruct (u_wl u); repeat constructor. intros [].
  - intros [reg [k j]] H1 H2. destruct (u_wl u); [|destruct H2]. destruct H2 as [H2|[]]. inversion H2; subst.
    destruct (u_rl u); [|destruct H1]. apply in_map_iff in H1. destruct H1 as [r [H1 _]]. discriminate. Qed.

Lemma srcs_of_NoDup prog i : wf_progb prog = true -> NoDup (srcs_of prog i).
Proof. intros H. unfold srcs_of. destruct (nth_error prog i) as [x|] eqn:E; [|constructor].
  unfold wf_progb in H. rewrite forallb_forall in H. apply nodupb_NoDup. apply H. eapply nth_error_In; eauto. Qed.

Lemma tc_unit_NoDup prog u es : wf_progb prog = true -> NoDup (map fst es) -> NoDup (tc_unit prog u es).
Proof. intros Hw Hn. unfold tc_unit. apply NoDup_flat_map.
  - eapply NoDup_map_inv; eauto.
  - intros [i l] _. unfold tc_entry. cbn [fst snd]. destruct l; try constructor. apply tregs_NoDup, srcs_of_NoDup; auto.
  - intros [i l] [i' l'] [reg [k j]] Hx Hy H1 H2. unfold tc_entry in H1, H2. cbn [fst snd] in H1, H2.
    destruct l; try destruct H1. destruct l'; try destruct H2. apply tregs_In in H1, H2.
    destruct H1 as [-> _]. destruct H2 as [-> _]. reflexivity. Qed.

Lemma tc_rec_NoDup P prog r : wf_progb prog = true -> Kq r -> Uq r -> NoDup (tc_rec P prog r).
Proof. intros Hw HK HU. unfold tc_rec. apply NoDup_flat_map.
  - eapply NoDup_map_inv; exact HK.
  - intros [n es] Hin. unfold tc_kv. cbn [fst snd]. destruct (find_unit P n); [|constructor].
    apply tc_unit_NoDup; auto. rewrite <- (get_in r n es HK Hin). apply HU.
  - intros [n es] [n' es'] [reg [k j]] Hx Hy H1 H2. unfold tc_kv in H1, H2. cbn [fst snd] in H1, H2.
    destruct (find_unit P n); [|destruct H1]. destruct (find_unit P n'); [|destruct H2].
    apply tc_unit_In in H1, H2. destruct H1 as [H1 _]. destruct H2 as [H2 _].
    rewrite <- (get_in r n es HK Hx) in H1. rewrite <- (get_in r n' es' HK Hy) in H2.
    destruct (Uq_same _ _ _ _ _ _ HU H1 H2) as [-> _]. f_equal.
    rewrite <- (get_in r n' es HK Hx), <- (get_in r n' es' HK Hy). reflexivity. Qed.

(* ---------- register by register ---------- *)
Definition tacc (reg : string) (TC : list tclear) : list acc :=
  flat_map (fun c => if String.eqb (fst c) reg then [snd c] else []) TC.
Definition owners (reg : string) (cl : list (string * nat)) : list nat :=
  flat_map (fun c => if String.eqb (fst c) reg then [snd c] else []) cl.

Lemma tacc_In reg TC a : In a (tacc reg TC) <-> In (reg, a) TC.
Proof. unfold tacc. rewrite in_flat_map. split.
  - intros [[r b] [H1 H2]]. cbn [fst snd] in H2. destruct (String.eqb_spec r reg); [|destruct H2].
    destruct H2 as [<-|[]]. subst. auto.
  - intros H. exists (reg, a). split; auto. cbn [fst snd]. rewrite String.eqb_refl. left; auto. Qed.
Lemma tacc_app reg A B : tacc reg (A ++ B) = tacc reg A ++ tacc reg B.
Proof. apply flat_map_app. Qed.
Lemma owners_erase reg TC : owners reg (map erase TC) = map snd (tacc reg TC).
Proof. unfold owners, tacc. induction TC as [|[r a] TC IH]; cbn [map flat_map]; auto.
  unfold erase at 1. cbn [fst snd]. destruct (String.eqb r reg); cbn [app map]; rewrite IH; reflexivity. Qed.
Lemma tacc_NoDup reg TC : NoDup TC -> NoDup (tacc reg TC).
Proof. induction TC as [|[r a] TC IH]; intros H; cbn; [constructor|]. inversion H; subst.
  destruct (String.eqb_spec r reg) as [->|Hne]; cbn [app]; auto. constructor; auto.
  fold (tacc reg TC). rewrite tacc_In. auto. Qed.

Lemma apply_clears_deqs reg : forall cl qs qs', apply_clears qs cl = Ok qs' ->
  deqs (assoc [] qs reg) (owners reg cl) = Ok (assoc [] qs' reg).
Proof. induction cl as [|[r o] cl IH]; intros qs qs' H; cbn [apply_clears] in H.
  - inversion H; subst. reflexivity.
  - cbn [fst snd] in H. destruct (dequeue (assoc [] qs r) o) as [q'|] eqn:E; [|discriminate].
    apply IH in H. unfold owners. cbn [flat_map fst snd]. fold (owners reg cl).
    rewrite assoc_set in H. destruct (String.eqb_spec r reg) as [->|Hne].
    + rewrite String.eqb_refl in H. cbn [app deqs]. rewrite E. exact H.
    + destruct (String.eqb_spec reg r); [congruence|]. exact H. Qed.

(* x's own READ clear precedes its WRITE clear when both are issued by one unit *)
Lemma before_own_gen (A S B : list tclear) reg x y :
  NoDup (A ++ S ++ [(reg, x)] ++ B) -> In (reg, y) S -> In y (before x (tacc reg (A ++ S ++ [(reg, x)] ++ B))).
Proof. intros Hnd Hy. rewrite !tacc_app.
  assert (Hx1 : ~ In x (tacc reg A)).
  { rewrite tacc_In. intros H. eapply NoDup_app_disj; [exact Hnd|exact H|]. rewrite !in_app_iff. right. left. left; auto. }
  assert (Hx2 : ~ In x (tacc reg S)).
  { rewrite tacc_In. intros H. apply NoDup_app_r in Hnd. eapply NoDup_app_disj; [exact Hnd|exact H|].
    rewrite in_app_iff. left. left; auto. }
  rewrite before_app_notin by auto. rewrite before_app_notin by auto. rewrite !in_app_iff. right. left.
  apply tacc_In. auto. Qed.

Lemma tc_rec_split P prog r n es u i : In (n, es) r -> find_unit P n = Some u -> In (i, LU) es ->
  exists A B, tc_rec P prog r = A ++ tregs prog u i ++ B.
Proof. intros Hin Hf He.
  destruct (in_split _ _ Hin) as (R1 & R2 & ->). destruct (in_split _ _ He) as (E1 & E2 & ->).
  unfold tc_rec. rewrite flat_map_app. cbn [flat_map]. unfold tc_kv at 2. cbn [fst snd]. rewrite Hf.
  unfold tc_unit. rewrite flat_map_app. cbn [flat_map]. unfold tc_entry at 2. cbn [fst snd].
  exists (flat_map (tc_kv P prog) R1 ++ flat_map (tc_entry prog u) E1).
  exists (flat_map (tc_entry prog u) E2 ++ flat_map (tc_kv P prog) R2).
  rewrite <- !app_assoc. reflexivity. Qed.

Lemma tacc_before_own P prog r reg n es u i : NoDup (tc_rec P prog r) ->
  In (n, es) r -> find_unit P n = Some u -> In (i, LU) es -> u_rl u = true -> u_wl u = true ->
  In reg (srcs_of prog i) -> reg = dst_of prog i ->
  In (RD, i) (before (WR, i) (tacc reg (tc_rec P prog r))).
Proof. intros Hnd Hin Hf He Hrl Hwl Hs Hd.
  destruct (tc_rec_split P prog r n es u i Hin Hf He) as (A & B & E). rewrite E in *.
  unfold tregs in *. rewrite Hrl, Hwl in *. rewrite <- Hd in *. rewrite <- !app_assoc in *.
  apply before_own_gen; auto. apply in_map_iff. exists reg. auto. Qed.
