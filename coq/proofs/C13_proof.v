(* C13_proof.v -- entry point for props/C13.v.
     CiSpec    : isa_res_ci, load_res_ci, edges_wf (definitions only)
     C13_ci      : ci / ic_eqb / ic_find / mem_ic / upper facts
     C13_isa     : C13_isa_lemma (up to ci of the culprit), C13_isa_exact_lemma, C13_compile_lemma
     C13_loader  : C13_loader_lemma (up to ci of the culprit), C13_loader_exact_lemma
     C13_first   : C13_first_spelling_lemma
     C13_program : C13_program_lemma, C13_expected_lemma
     C13_counterexample : the exact-equality statements of C13_loader / C13_isa are false *)
From PS Require Import Base Str Sim Program Isa Loader TextSpec.
From PS Require Export CiSpec C13_ci C13_isa C13_loader C13_first C13_program.

