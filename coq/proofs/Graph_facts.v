(* Graph_facts.v -- reusable facts about model/Graph.v: well-formed graphs (gwf) and their preservation
   by the four mutators, edge characterisations of the mutators, paths / acyclicity, correctness of
   topo_sort (Kahn by generations), dfs_postorder and reach_from. *)
From Coq Require Import Lia Permutation.
From PS Require Import Base Graph Lists.

(* ====================================================================== *)
(* generic list facts                                                      *)
(* ====================================================================== *)
Lemma NoDup_app_intro {A} (l l' : list A) :
  NoDup l -> NoDup l' -> (forall x, In x l -> ~ In x l') -> NoDup (l ++ l').
Proof. induction l; simpl; intros H1 H2 H3; auto. inversion H1; subst. constructor.
  - rewrite in_app_iff. intros [H|H]; [auto|]. apply (H3 a); auto.
  - apply IHl; auto. Qed.
Lemma NoDup_app_inv {A} (l l' : list A) :
  NoDup (l ++ l') -> NoDup l /\ NoDup l' /\ (forall x, In x l -> ~ In x l').
Proof. induction l; simpl; intros H.
  - repeat split; auto. constructor.
  - inversion H; subst. destruct (IHl H3) as [H4 [H5 H6]]. repeat split; auto.
    + constructor; auto. intros Hc. apply H2. apply in_or_app; auto.
    + intros x [->|Hx]; [|auto]. intros Hc. apply H2. apply in_or_app; auto. Qed.

Lemma mem_str_false x l : mem_str x l = false <-> ~ In x l.
Proof. rewrite <- mem_str_In. destruct (mem_str x l); split; congruence. Qed.
Lemma mem_str_app x l l' : mem_str x (l ++ l') = mem_str x l || mem_str x l'.
Proof. apply existsb_app. Qed.

Lemma rm_str_In x y l : In y (rm_str x l) <-> In y l /\ y <> x.
Proof. unfold rm_str. rewrite filter_In. split; intros [H1 H2]; (split; [exact H1|]).
  - intros ->. rewrite String.eqb_refl in H2. discriminate.
  - destruct (String.eqb_spec x y); auto. Qed.
Lemma rm_str_NoDup x l : NoDup l -> NoDup (rm_str x l).
Proof. apply NoDup_filter. Qed.
Lemma rm_str_notin x l : ~ In x l -> rm_str x l = l.
Proof. induction l; simpl; auto. intros H. destruct (String.eqb_spec x a).
  - subst. exfalso. apply H; auto.
  - simpl. f_equal. apply IHl. intros Hc; apply H; auto. Qed.

(* a list with a repetition splits around it *)
Lemma not_NoDup_split (l : list string) :
  ~ NoDup l -> exists x l1 l2 l3, l = l1 ++ x :: l2 ++ x :: l3.
Proof. induction l as [|a l IH]; intros H.
  - exfalso. apply H. constructor.
  - destruct (in_dec string_dec a l) as [Hin|Hni].
    + apply in_split in Hin. destruct Hin as [l2 [l3 ->]]. exists a, [], l2, l3. auto.
    + destruct IH as [x [l1 [l2 [l3 ->]]]].
      * intros Hc. apply H. constructor; auto.
      * exists x, (a :: l1), l2, l3. auto. Qed.
Lemma incl_longer_not_NoDup (l u : list string) : incl l u -> length u < length l -> ~ NoDup l.
Proof. intros Hi Hl Hn. apply (NoDup_incl_length Hn) in Hi. lia. Qed.
(* a list shorter than a duplicate-free one misses one of its elements *)
Lemma NoDup_shorter_missing (l u : list string) :
  NoDup u -> length l < length u -> exists x, In x u /\ ~ In x l.
Proof. intros Hn Hl.
  destruct (existsb (fun x => negb (mem_str x l)) u) eqn:E.
  - apply existsb_exists in E. destruct E as [x [Hx1 Hx2]]. exists x. split; auto.
    apply mem_str_false. destruct (mem_str x l); auto; discriminate.
  - exfalso. assert (Hi : incl u l).
    { intros x Hx. apply mem_str_In. destruct (mem_str x l) eqn:Ex; auto.
      assert (existsb (fun x => negb (mem_str x l)) u = true).
      { apply existsb_exists. exists x. rewrite Ex; auto. }
      congruence. }
    apply (NoDup_incl_length Hn) in Hi. lia. Qed.

(* ====================================================================== *)
(* assoc / set                                                             *)
(* ====================================================================== *)
Lemma assoc_set {A} (d : A) (l : list (string * A)) k v k' :
  assoc d (set l k v) k' = if String.eqb k' k then v else assoc d l k'.
Proof. induction l as [|[k2 v2] t IH]; simpl.
  - reflexivity.
  - destruct (String.eqb_spec k k2) as [->|Hn]; simpl.
    + destruct (String.eqb k' k2); auto.
    + rewrite IH. destruct (String.eqb_spec k' k2) as [->|Hn2]; auto.
      destruct (String.eqb_spec k2 k); auto. congruence. Qed.
Lemma set_keys_in {A} (l : list (string * A)) k v : In k (map fst l) -> map fst (set l k v) = map fst l.
Proof. induction l as [|[k2 v2] t IH]; simpl; [tauto|]. intros H.
  destruct (String.eqb_spec k k2) as [->|Hn]; simpl; auto. f_equal. apply IH.
  destruct H; auto. congruence. Qed.
Lemma assoc_notin {A} (d : A) l k : ~ In k (map fst l) -> assoc d l k = d.
Proof. induction l as [|[k2 v2] t IH]; simpl; auto. intros H.
  destruct (String.eqb_spec k k2) as [->|Hn]; [exfalso; auto|]. apply IH. tauto. Qed.
Lemma assoc_app_nil {A} (l : list (string * list A)) n k : assoc [] (l ++ [(n, [])]) k = assoc [] l k.
Proof. induction l as [|[k2 v2] t IH]; simpl.
  - destruct (String.eqb k n); auto.
  - destruct (String.eqb k k2); auto. Qed.
Lemma assoc_In {A} (d : A) l k : assoc d l k <> d -> In k (map fst l).
Proof. intros H. destruct (in_dec string_dec k (map fst l)); auto. exfalso. apply H. apply assoc_notin; auto. Qed.
Lemma assoc_map_self {A} (d : A) (f : string -> A) l k : In k l -> assoc d (map (fun n => (n, f n)) l) k = f k.
Proof. induction l; simpl; [tauto|]. intros H. destruct (String.eqb_spec k a) as [->|Hn]; auto.
  apply IHl. destruct H; congruence. Qed.
Lemma assoc_rm (l : list (string * list string)) n x :
  assoc [] (map (fun kv => (fst kv, rm_str n (snd kv))) (filter (fun kv => negb (String.eqb n (fst kv))) l)) x
  = if String.eqb n x then [] else rm_str n (assoc [] l x).
Proof. induction l as [|[k v] t IH]; simpl.
  - destruct (String.eqb n x); auto.
  - destruct (String.eqb_spec n k) as [->|Hn]; simpl.
    + rewrite IH. destruct (String.eqb_spec k x) as [->|Hn2]; auto.
      destruct (String.eqb_spec x k); auto. congruence.
    + rewrite IH. destruct (String.eqb_spec x k) as [->|Hn2]; auto.
      destruct (String.eqb_spec n k); auto. congruence. Qed.
Lemma keys_rm (l : list (string * list string)) n :
  map fst (map (fun kv : string * list string => (fst kv, rm_str n (snd kv)))
               (filter (fun kv => negb (String.eqb n (fst kv))) l))
  = rm_str n (map fst l).
Proof. induction l as [|[k v] t IH]; simpl; auto.
  destruct (String.eqb n k); simpl; rewrite IH; auto. Qed.

(* ====================================================================== *)
(* well-formed graphs                                                      *)
(* ====================================================================== *)
Record gwf (g : graph) : Prop := {
  gwf_nodup : NoDup (g_nodes g);
  gwf_skeys : map fst (g_succ g) = g_nodes g;
  gwf_pkeys : map fst (g_pred g) = g_nodes g;
  gwf_sym : forall a b, In b (succs g a) <-> In a (preds g b);
  gwf_snd : forall a, NoDup (succs g a);
  gwf_pnd : forall a, NoDup (preds g a);
  gwf_in : forall a b, In b (succs g a) -> In a (g_nodes g) /\ In b (g_nodes g) }.

Lemma gwf_empty : gwf g_empty.
Proof. constructor; simpl; auto; try constructor; unfold succs, preds; simpl; try tauto; constructor. Qed.

Lemma has_node_In g n : has_node g n = true <-> In n (g_nodes g).
Proof. apply mem_str_In. Qed.
Lemma gwf_preds_in g : gwf g -> forall a b, In a (preds g b) -> In a (g_nodes g) /\ In b (g_nodes g).
Proof. intros H a b Hp. apply (gwf_sym g H) in Hp. apply (gwf_in g H); auto. Qed.
Lemma succs_notin g a : gwf g -> ~ In a (g_nodes g) -> succs g a = [].
Proof. intros H Hn. unfold succs. apply assoc_notin. rewrite (gwf_skeys g H); auto. Qed.
Lemma preds_notin g a : gwf g -> ~ In a (g_nodes g) -> preds g a = [].
Proof. intros H Hn. unfold preds. apply assoc_notin. rewrite (gwf_pkeys g H); auto. Qed.

(* ---------- add_node ---------- *)
Lemma add_node_nodes g n x : In x (g_nodes (add_node g n)) <-> In x (g_nodes g) \/ x = n.
Proof. unfold add_node. destruct (has_node g n) eqn:E; simpl.
  - apply has_node_In in E. split; [auto|]. intros [H| ->]; auto.
  - rewrite in_app_iff. simpl. split; intros [H|H]; auto. destruct H; auto; tauto. Qed.
Lemma add_node_succs g n a : succs (add_node g n) a = succs g a.
Proof. unfold add_node. destruct (has_node g n); auto. unfold succs. simpl. apply assoc_app_nil. Qed.
Lemma add_node_preds g n a : preds (add_node g n) a = preds g a.
Proof. unfold add_node. destruct (has_node g n); auto. unfold preds. simpl. apply assoc_app_nil. Qed.
Lemma add_node_in g n : In n (g_nodes (add_node g n)).
Proof. apply add_node_nodes; auto. Qed.
Lemma add_node_incl g n : incl (g_nodes g) (g_nodes (add_node g n)).
Proof. intros x Hx. apply add_node_nodes; auto. Qed.
Lemma gwf_add_node g n : gwf g -> gwf (add_node g n).
Proof. intros H. constructor; try (intros; rewrite ?add_node_succs, ?add_node_preds; apply H).
  - unfold add_node. destruct (has_node g n) eqn:E; [apply H|]. simpl.
    apply NoDup_app_intro; [apply H|repeat constructor; simpl; tauto|].
    intros x Hx [<-|[]]. apply has_node_In in Hx. congruence.
  - unfold add_node. destruct (has_node g n); [apply H|]. simpl. rewrite map_app. simpl. f_equal. apply H.
  - unfold add_node. destruct (has_node g n); [apply H|]. simpl. rewrite map_app. simpl. f_equal. apply H.
  - intros a b. rewrite add_node_succs. intros Hs. apply (gwf_in g H) in Hs.
    split; apply add_node_incl; tauto. Qed.
Lemma add_node_id g n : In n (g_nodes g) -> add_node g n = g.
Proof. intros H. unfold add_node. apply has_node_In in H. rewrite H. auto. Qed.

(* ---------- add_edge ---------- *)
Lemma add_edge_nodes g a b x : In x (g_nodes (add_edge g a b)) <-> In x (g_nodes g) \/ x = a \/ x = b.
Proof. unfold add_edge. destruct (mem_str b (succs (add_node (add_node g a) b) a)); simpl;
  rewrite !add_node_nodes; tauto. Qed.
Lemma add_edge_succs g a b x y :
  In y (succs (add_edge g a b) x) <-> In y (succs g x) \/ (x = a /\ y = b).
Proof. unfold add_edge. destruct (mem_str b (succs (add_node (add_node g a) b) a)) eqn:E.
  - apply mem_str_In in E. rewrite !add_node_succs in *. split; auto. intros [H|[-> ->]]; auto.
  - unfold succs at 1. simpl. rewrite assoc_set. fold (succs (add_node (add_node g a) b) x).
    rewrite !add_node_succs. destruct (String.eqb_spec x a) as [->|Hn].
    + rewrite in_app_iff. simpl. split; intros [H|H]; auto. destruct H; auto; try tauto. subst; auto.
      destruct H; subst; auto.
    + split; auto. intros [H|[H _]]; auto. congruence. Qed.
Lemma NoDup_snoc {A} (l : list A) x : NoDup l -> ~ In x l -> NoDup (l ++ [x]).
Proof. intros H1 H2. apply NoDup_app_intro; auto. repeat constructor; simpl; tauto.
  intros y Hy [<-|[]]. auto. Qed.
Lemma in_snoc {A} (l : list A) x y : In y (l ++ [x]) <-> In y l \/ y = x.
Proof. rewrite in_app_iff. simpl. split; intros [H|H]; auto. destruct H; auto; tauto. Qed.

Lemma gwf_add_edge_raw g a b :
  gwf g -> In a (g_nodes g) -> In b (g_nodes g) -> ~ In b (succs g a) ->
  gwf {| g_nodes := g_nodes g;
         g_succ := set (g_succ g) a (succs g a ++ [b]);
         g_pred := set (g_pred g) b (preds g b ++ [a]) |}.
Proof. intros H Ha Hb Hn.
  assert (Hs : forall x, succs {| g_nodes := g_nodes g;
         g_succ := set (g_succ g) a (succs g a ++ [b]);
         g_pred := set (g_pred g) b (preds g b ++ [a]) |} x = if String.eqb x a then succs g a ++ [b] else succs g x).
  { intros x. unfold succs at 1. simpl. apply assoc_set. }
  assert (Hp : forall x, preds {| g_nodes := g_nodes g;
         g_succ := set (g_succ g) a (succs g a ++ [b]);
         g_pred := set (g_pred g) b (preds g b ++ [a]) |} x = if String.eqb x b then preds g b ++ [a] else preds g x).
  { intros x. unfold preds at 1. simpl. apply assoc_set. }
  assert (Hn' : ~ In a (preds g b)) by (rewrite <- (gwf_sym g H); auto).
  constructor; simpl.
  - apply H.
  - rewrite set_keys_in; [apply H|]. rewrite (gwf_skeys g H); auto.
  - rewrite set_keys_in; [apply H|]. rewrite (gwf_pkeys g H); auto.
  - intros x y. rewrite Hs, Hp.
    destruct (String.eqb_spec x a) as [->|Hxa]; destruct (String.eqb_spec y b) as [->|Hyb];
      rewrite ?in_snoc, (gwf_sym g H); tauto.
  - intros x. rewrite Hs. destruct (String.eqb x a); [|apply H]. apply NoDup_snoc; auto. apply H.
  - intros x. rewrite Hp. destruct (String.eqb x b); [|apply H]. apply NoDup_snoc; auto. apply H.
  - intros x y. rewrite Hs. destruct (String.eqb_spec x a) as [->|Hxa]; [|apply H].
    rewrite in_snoc. intros [Hy| ->]; auto. apply (gwf_in g H) in Hy. tauto. Qed.

Lemma gwf_add_edge g a b : gwf g -> gwf (add_edge g a b).
Proof. intros H. unfold add_edge.
  assert (H2 : gwf (add_node (add_node g a) b)) by (apply gwf_add_node, gwf_add_node; auto).
  destruct (mem_str b (succs (add_node (add_node g a) b) a)) eqn:E; auto.
  apply gwf_add_edge_raw; auto.
  - apply add_node_incl, add_node_in.
  - apply add_node_in.
  - apply mem_str_false; auto. Qed.

Lemma add_edge_preds g a b x y :
  gwf g -> (In y (preds (add_edge g a b) x) <-> In y (preds g x) \/ (x = b /\ y = a)).
Proof. intros H. rewrite <- (gwf_sym _ (gwf_add_edge g a b H)), add_edge_succs, (gwf_sym g H). tauto. Qed.

(* ---------- remove_edge ---------- *)
Lemma remove_edge_nodes g a b : g_nodes (remove_edge g a b) = g_nodes g.
Proof. reflexivity. Qed.
Lemma remove_edge_succs_eq g a b x :
  succs (remove_edge g a b) x = if String.eqb x a then rm_str b (succs g a) else succs g x.
Proof. unfold succs at 1. simpl. apply assoc_set. Qed.
Lemma remove_edge_preds_eq g a b x :
  preds (remove_edge g a b) x = if String.eqb x b then rm_str a (preds g b) else preds g x.
Proof. unfold preds at 1. simpl. apply assoc_set. Qed.
Lemma remove_edge_succs g a b x y :
  In y (succs (remove_edge g a b) x) <-> In y (succs g x) /\ ~ (x = a /\ y = b).
Proof. rewrite remove_edge_succs_eq. destruct (String.eqb_spec x a) as [->|Hn].
  - rewrite rm_str_In. tauto.
  - tauto. Qed.
Lemma remove_edge_preds g a b x y :
  In y (preds (remove_edge g a b) x) <-> In y (preds g x) /\ ~ (x = b /\ y = a).
Proof. rewrite remove_edge_preds_eq. destruct (String.eqb_spec x b) as [->|Hn].
  - rewrite rm_str_In. tauto.
  - tauto. Qed.
Lemma gwf_remove_edge g a b : gwf g -> In a (g_nodes g) -> In b (g_nodes g) -> gwf (remove_edge g a b).
Proof. intros H Ha Hb. constructor.
  - apply H.
  - simpl. rewrite set_keys_in; [apply H|]. rewrite (gwf_skeys g H); auto.
  - simpl. rewrite set_keys_in; [apply H|]. rewrite (gwf_pkeys g H); auto.
  - intros x y. rewrite remove_edge_succs, remove_edge_preds, (gwf_sym g H). tauto.
  - intros x. rewrite remove_edge_succs_eq. destruct (String.eqb x a); [apply rm_str_NoDup|]; apply H.
  - intros x. rewrite remove_edge_preds_eq. destruct (String.eqb x b); [apply rm_str_NoDup|]; apply H.
  - intros x y. rewrite remove_edge_succs. intros [Hs _]. apply (gwf_in g H); auto. Qed.

(* ---------- remove_node ---------- *)
Lemma remove_node_nodes g n x : In x (g_nodes (remove_node g n)) <-> In x (g_nodes g) /\ x <> n.
Proof. simpl. apply rm_str_In. Qed.
Lemma remove_node_succs_eq g n x :
  succs (remove_node g n) x = if String.eqb n x then [] else rm_str n (succs g x).
Proof. unfold succs. simpl. apply assoc_rm. Qed.
Lemma remove_node_preds_eq g n x :
  preds (remove_node g n) x = if String.eqb n x then [] else rm_str n (preds g x).
Proof. unfold preds. simpl. apply assoc_rm. Qed.
Lemma remove_node_succs g n x y :
  In y (succs (remove_node g n) x) <-> In y (succs g x) /\ x <> n /\ y <> n.
Proof. rewrite remove_node_succs_eq. destruct (String.eqb_spec n x) as [->|Hn].
  - simpl. tauto.
  - rewrite rm_str_In. split; [intros [H1 H2]|]; intuition congruence. Qed.
Lemma remove_node_preds g n x y :
  In y (preds (remove_node g n) x) <-> In y (preds g x) /\ x <> n /\ y <> n.
Proof. rewrite remove_node_preds_eq. destruct (String.eqb_spec n x) as [->|Hn].
  - simpl. tauto.
  - rewrite rm_str_In. split; [intros [H1 H2]|]; intuition congruence. Qed.
Lemma gwf_remove_node g n : gwf g -> gwf (remove_node g n).
Proof. intros H. constructor.
  - simpl. apply rm_str_NoDup, H.
  - simpl. rewrite keys_rm. f_equal. apply H.
  - simpl. rewrite keys_rm. f_equal. apply H.
  - intros x y. rewrite remove_node_succs, remove_node_preds, (gwf_sym g H). tauto.
  - intros x. rewrite remove_node_succs_eq. destruct (String.eqb n x); [constructor|apply rm_str_NoDup, H].
  - intros x. rewrite remove_node_preds_eq. destruct (String.eqb n x); [constructor|apply rm_str_NoDup, H].
  - intros x y. rewrite remove_node_succs, !remove_node_nodes. intros [Hs [H1 H2]].
    apply (gwf_in g H) in Hs. tauto. Qed.

(* ====================================================================== *)
(* paths, cycles, orders                                                   *)
(* ====================================================================== *)
(* non-empty paths along successor edges *)
Inductive gpath (g : graph) : string -> string -> Prop :=
| gp_edge a b : In b (succs g a) -> gpath g a b
| gp_step a b c : In b (succs g a) -> gpath g b c -> gpath g a c.
Definition acyclic (g : graph) : Prop := forall x, ~ gpath g x x.

Lemma gpath_trans g a b c : gpath g a b -> gpath g b c -> gpath g a c.
Proof. induction 1; intros; [eapply gp_step; eauto|]. eapply gp_step; eauto. Qed.
Lemma gpath_snoc g a b c : gpath g a b -> In c (succs g b) -> gpath g a c.
Proof. intros. eapply gpath_trans; eauto. apply gp_edge; auto. Qed.
Lemma gpath_sub g g' : (forall a b, In b (succs g' a) -> In b (succs g a)) ->
  forall a b, gpath g' a b -> gpath g a b.
Proof. intros Hs a b. induction 1; [apply gp_edge|eapply gp_step]; eauto. Qed.
Lemma acyclic_sub g g' : (forall a b, In b (succs g' a) -> In b (succs g a)) -> acyclic g -> acyclic g'.
Proof. intros Hs Ha x Hp. apply (Ha x). eapply gpath_sub; eauto. Qed.
Lemma gpath_nodes g a b : gwf g -> gpath g a b -> In a (g_nodes g) /\ In b (g_nodes g).
Proof. intros H. induction 1.
  - apply (gwf_in g H); auto.
  - apply (gwf_in g H) in H0. tauto. Qed.

(* paths as lists: consecutive elements are edges *)
Fixpoint chain (g : graph) (l : list string) : Prop :=
  match l with
  | a :: (b :: _) as t => In b (succs g a) /\ chain g t
  | _ => True
  end.
Lemma chain_app_inv g l1 l2 : chain g (l1 ++ l2) -> chain g l1 /\ chain g l2.
Proof. induction l1 as [|a l1 IH]; simpl; auto. destruct l1 as [|b l1]; simpl in *.
  - destruct l2; simpl; tauto.
  - intros [H1 H2]. apply IH in H2. tauto. Qed.
Lemma chain_gpath g x l y : chain g (x :: l ++ [y]) -> gpath g x y.
Proof. revert x. induction l as [|a l IH]; simpl; intros x [H1 H2].
  - apply gp_edge; auto.
  - eapply gp_step; eauto. Qed.
Lemma gpath_chain g x y : gpath g x y -> exists l, chain g (x :: l ++ [y]).
Proof. induction 1.
  - exists []. simpl. auto.
  - destruct IHgpath as [l Hl]. exists (b :: l). simpl. split; auto. Qed.
(* a chain that repeats a node contains a cycle *)
Lemma chain_repeat_cycle g l : chain g l -> ~ NoDup l -> exists x, gpath g x x.
Proof. intros Hc Hn. apply not_NoDup_split in Hn. destruct Hn as [x [l1 [l2 [l3 ->]]]].
  exists x. apply chain_app_inv in Hc. destruct Hc as [_ Hc].
  change (x :: l2 ++ x :: l3) with ((x :: l2) ++ x :: l3) in Hc.
  replace ((x :: l2) ++ x :: l3) with ((x :: l2 ++ [x]) ++ l3) in Hc
    by (simpl; rewrite <- app_assoc; auto).
  apply chain_app_inv in Hc. apply (chain_gpath g x l2 x). tauto. Qed.
(* a non-empty set of nodes each having a predecessor in the set contains a cycle *)
Lemma pred_closed_cycle g (S : string -> Prop) :
  (forall x, S x -> In x (g_nodes g)) ->
  (forall x, S x -> exists p, S p /\ In x (succs g p)) ->
  (exists x, S x) -> exists x, gpath g x x.
Proof. intros Hin Hp [x0 Hx0].
  assert (Hk : forall k, exists l, length l = Datatypes.S k /\ chain g l /\ forall x, In x l -> S x).
  { induction k.
    - exists [x0]. simpl. split; [auto|split; [auto|]]. intros x [<-|[]]; auto.
    - destruct IHk as [l [Hl [Hc Hs]]]. destruct l as [|x l]; [discriminate|].
      destruct (Hp x) as [p [Hp1 Hp2]]; [apply Hs; left; auto|].
      exists (p :: x :: l). split; [|split].
      + simpl in *. lia.
      + simpl. split; auto.
      + intros y [<-|Hy]; auto. }
  destruct (Hk (length (g_nodes g))) as [l [Hl [Hc Hs]]].
  apply (chain_repeat_cycle g l Hc).
  apply incl_longer_not_NoDup with (u := g_nodes g); [|lia].
  intros x Hx. apply Hin, Hs; auto. Qed.

(* l lists every x after all of rel x *)
Definition ordered_by (rel : string -> list string) (l : list string) : Prop :=
  forall l1 x l2, l = l1 ++ x :: l2 -> forall p, In p (rel x) -> In p l1.
Lemma ordered_by_nil rel : ordered_by rel [].
Proof. intros l1 x l2 H. destruct l1; discriminate. Qed.
Lemma ordered_by_snoc rel l x : ordered_by rel l -> incl (rel x) l -> ordered_by rel (l ++ [x]).
Proof. intros Ho Hi l1 y l2 E p Hp.
  destruct l2 as [|z l2] using rev_ind.
  - apply app_inj_tail in E. destruct E as [-> ->]. apply Hi; auto.
  - clear IHl2. change (l1 ++ y :: l2 ++ [z]) with (l1 ++ (y :: l2) ++ [z]) in E.
    rewrite app_assoc in E. apply app_inj_tail in E. destruct E as [-> ->].
    eapply Ho; eauto. Qed.
Lemma ordered_by_app_l rel l l' : ordered_by rel (l ++ l') -> ordered_by rel l.
Proof. intros Ho l1 x l2 -> p Hp. apply (Ho l1 x (l2 ++ l')); auto. rewrite <- app_assoc. auto. Qed.
Lemma ordered_by_incl rel l x : ordered_by rel l -> In x l -> incl (rel x) l.
Proof. intros Ho Hx p Hp. apply in_split in Hx. destruct Hx as [l1 [l2 ->]].
  apply in_or_app. left. eapply Ho; eauto. Qed.

(* position of the first occurrence *)
Fixpoint idx (x : string) (l : list string) : nat :=
  match l with [] => 0 | y :: t => if String.eqb x y then 0 else S (idx x t) end.
Lemma idx_lt x l : In x l -> idx x l < length l.
Proof. induction l; simpl; [tauto|]. intros H. destruct (String.eqb_spec x a); [lia|].
  destruct H; [congruence|]. apply IHl in H. lia. Qed.
Lemma idx_app_l x l l' : In x l -> idx x (l ++ l') = idx x l.
Proof. induction l; simpl; [tauto|]. intros H. destruct (String.eqb_spec x a); auto.
  destruct H; [congruence|]. f_equal; auto. Qed.
Lemma idx_app_r x l l' : ~ In x l -> idx x (l ++ l') = length l + idx x l'.
Proof. induction l; simpl; auto. intros H. destruct (String.eqb_spec x a); [subst; tauto|].
  f_equal. apply IHl. tauto. Qed.
Lemma idx_nth x l : In x l -> nth_error l (idx x l) = Some x.
Proof. induction l; simpl; [tauto|]. intros H. destruct (String.eqb_spec x a); [subst; auto|].
  simpl. apply IHl. destruct H; congruence. Qed.
Lemma in_split_first x (l : list string) : In x l -> exists l1 l2, l = l1 ++ x :: l2 /\ ~ In x l1.
Proof. induction l as [|a l IH]; simpl; [tauto|]. intros H.
  destruct (string_dec a x) as [->|Hn].
  - exists [], l. simpl. auto.
  - destruct IH as [l1 [l2 [-> Hni]]]; [destruct H; congruence|].
    exists (a :: l1), l2. simpl. split; auto. tauto. Qed.
Lemma ordered_by_idx rel l x p : ordered_by rel l -> In x l -> In p (rel x) -> idx p l < idx x l.
Proof. intros Ho Hx Hp. apply in_split_first in Hx. destruct Hx as [l1 [l2 [-> Hni]]].
  assert (Hin : In p l1) by (eapply Ho; eauto).
  rewrite (idx_app_l p l1), (idx_app_r x l1); auto. apply idx_lt in Hin. lia. Qed.
Lemma ordered_by_split rel l x p : ordered_by rel l -> In x l -> In p (rel x) ->
  exists l1 l2 l3, l = l1 ++ p :: l2 ++ x :: l3.
Proof. intros Ho Hx Hp. apply in_split in Hx. destruct Hx as [l1 [l3 ->]].
  assert (Hin : In p l1) by (eapply Ho; eauto). apply in_split in Hin. destruct Hin as [l0 [l2 ->]].
  exists l0, l2, l3. rewrite <- app_assoc. auto. Qed.

(* an order of all nodes along which every edge goes forward excludes cycles *)
Lemma ordered_acyclic g order :
  gwf g -> incl (g_nodes g) order -> ordered_by (preds g) order -> acyclic g.
Proof. intros H Hi Ho.
  assert (Hlt : forall a b, gpath g a b -> idx a order < idx b order).
  { induction 1.
    - apply (ordered_by_idx (preds g)); auto.
      + apply Hi. apply (gwf_in g H) in H0. tauto.
      + apply (gwf_sym g H); auto.
    - assert (idx a order < idx b order); [|lia].
      apply (ordered_by_idx (preds g)); auto.
      + apply Hi. apply (gwf_in g H) in H0. tauto.
      + apply (gwf_sym g H); auto. }
  intros x Hx. apply Hlt in Hx. lia. Qed.

(* ====================================================================== *)
(* topo_sort (Kahn by generations)                                         *)
(* ====================================================================== *)
Lemma mem_str_cons n c cs : mem_str n (c :: cs) = String.eqb n c || mem_str n cs.
Proof. reflexivity. Qed.
Lemma iget_set m c d n : iget (set m c d) n = if String.eqb n c then d else iget m n.
Proof. apply assoc_set. Qed.
Lemma filter_len0 {A} (f : A -> bool) l : length (filter f l) = 0 -> forall x, In x l -> f x = false.
Proof. induction l; simpl; [tauto|]. destruct (f a) eqn:E; simpl; [discriminate|].
  intros H x [<-|Hx]; auto. Qed.
Lemma filter_len0' {A} (f : A -> bool) l : (forall x, In x l -> f x = false) -> length (filter f l) = 0.
Proof. induction l; simpl; auto. intros H. rewrite (H a); auto. Qed.

(* number of predecessors of n not yet in D *)
Definition cnt (g : graph) (D : list string) (n : string) : nat :=
  length (filter (fun p => negb (mem_str p D)) (preds g n)).

Lemma cnt_snoc_gen D x l : NoDup l -> ~ In x D ->
  length (filter (fun p => negb (mem_str p D)) l)
  = length (filter (fun p => negb (mem_str p (D ++ [x]))) l) + (if mem_str x l then 1 else 0).
Proof. intros Hnd Hx. induction Hnd as [|a l Hni Hnd IH]; [reflexivity|].
  cbn [filter]. rewrite (mem_str_cons x a l), mem_str_app, (mem_str_cons a x []).
  change (mem_str a []) with false. rewrite orb_false_r.
  destruct (String.eqb_spec x a) as [->|Hn].
  - apply mem_str_false in Hx. rewrite Hx, String.eqb_refl. cbn [negb orb length].
    apply mem_str_false in Hni. rewrite Hni in IH. lia.
  - destruct (String.eqb_spec a x) as [->|_]; [congruence|]. rewrite orb_false_r. cbn [orb].
    destruct (mem_str a D); cbn [negb length]; lia. Qed.
Lemma cnt_snoc g D x n : gwf g -> ~ In x D ->
  cnt g D n = cnt g (D ++ [x]) n + (if mem_str x (preds g n) then 1 else 0).
Proof. intros H Hx. apply cnt_snoc_gen; auto. apply H. Qed.
Lemma cnt_nil g n : cnt g [] n = in_degree g n.
Proof. unfold cnt, in_degree. f_equal. induction (preds g n); simpl; auto. f_equal; auto. Qed.
Lemma cnt_zero_incl g D n : cnt g D n = 0 -> incl (preds g n) D.
Proof. intros H p Hp. apply (filter_len0 _ _ H) in Hp. apply mem_str_In.
  destruct (mem_str p D); auto; discriminate. Qed.
Lemma incl_cnt_zero g D n : incl (preds g n) D -> cnt g D n = 0.
Proof. intros H. apply filter_len0'. intros p Hp. apply H, mem_str_In in Hp. rewrite Hp; auto. Qed.

Lemma dec_children_spec cs : NoDup cs -> forall m zero,
  (forall n, iget (fst (dec_children m zero cs)) n = if mem_str n cs then iget m n - 1 else iget m n) /\
  snd (dec_children m zero cs) = zero ++ filter (fun c => iget m c - 1 =? 0) cs.
Proof. induction 1 as [|c cs Hni Hnd IH]; intros m zero; simpl.
  - split; auto. rewrite app_nil_r; auto.
  - assert (Hf : forall d, filter (fun c0 => iget (set m c d) c0 - 1 =? 0) cs
                           = filter (fun c0 => iget m c0 - 1 =? 0) cs).
    { intros d. apply filter_ext_in. intros a Ha. rewrite iget_set.
      destruct (String.eqb_spec a c); auto. subst; tauto. }
    assert (Hg : forall d n, iget m c - 1 = d ->
       (if mem_str n cs then iget (set m c d) n - 1 else iget (set m c d) n)
       = if mem_str n (c :: cs) then iget m n - 1 else iget m n).
    { intros d n Hd. rewrite mem_str_cons, iget_set. destruct (String.eqb_spec n c) as [->|Hn]; simpl; auto.
      apply mem_str_false in Hni. rewrite Hni. auto. }
    destruct (iget m c - 1 =? 0) eqn:E.
    + destruct (IH (set m c 0) (zero ++ [c])) as [H1 H2]. split.
      * intros n. rewrite H1. apply Hg. apply Nat.eqb_eq in E. auto.
      * rewrite H2, Hf, <- app_assoc. auto.
    + destruct (IH (set m c (iget m c - 1)) zero) as [H1 H2]. split.
      * intros n. rewrite H1. apply Hg. auto.
      * rewrite H2, Hf. auto. Qed.

Definition kinv (g : graph) (m : imap) (D Z : list string) : Prop :=
  NoDup (D ++ Z) /\ incl (D ++ Z) (g_nodes g) /\
  (forall n, In n (g_nodes g) -> iget m n = cnt g D n) /\
  (forall n, In n (g_nodes g) -> (In n (D ++ Z) <-> cnt g D n = 0)) /\
  ordered_by (preds g) D.

Lemma kahn_node_step g m D x Z zero m' zero' :
  gwf g -> kinv g m D (x :: Z) ->
  dec_children m zero (succs g x) = (m', zero') ->
  exists new, zero' = zero ++ new /\ kinv g m' (D ++ [x]) (Z ++ new).
Proof. intros H [Hnd [Hincl [Hget [Hzero Hord]]]] Hdc.
  destruct (dec_children_spec (succs g x) (gwf_snd g H x) m zero) as [Hm Hz].
  rewrite Hdc in Hm, Hz. simpl in Hm, Hz.
  exists (filter (fun c => iget m c - 1 =? 0) (succs g x)). split; auto.
  set (new := filter (fun c => iget m c - 1 =? 0) (succs g x)).
  assert (Hxn : In x (g_nodes g)) by (apply Hincl, in_or_app; right; left; auto).
  assert (HxD : ~ In x D).
  { apply NoDup_app_inv in Hnd. destruct Hnd as [_ [_ Hd]]. intros Hc. apply (Hd x Hc). left; auto. }
  assert (Hx0 : cnt g D x = 0) by (apply Hzero; auto; apply in_or_app; right; left; auto).
  assert (Hc1 : forall c, In c (succs g x) -> In c (g_nodes g) /\ cnt g D c = cnt g (D ++ [x]) c + 1).
  { intros c Hc. split; [apply (gwf_in g H) in Hc; tauto|].
    rewrite (cnt_snoc g D x c H HxD). apply (gwf_sym g H), mem_str_In in Hc. rewrite Hc. auto. }
  assert (Hc2 : forall n, ~ In n (succs g x) -> cnt g D n = cnt g (D ++ [x]) n).
  { intros n Hn. rewrite (cnt_snoc g D x n H HxD).
    assert (E : mem_str x (preds g n) = false) by (apply mem_str_false; rewrite <- (gwf_sym g H); auto).
    rewrite E. lia. }
  assert (Hc3 : forall c, In c (succs g x) -> ~ In c (D ++ x :: Z)).
  { intros c Hc Hin. destruct (Hc1 c Hc) as [Hcn Hcc]. apply Hzero in Hin; auto. lia. }
  assert (Eq : (D ++ [x]) ++ Z ++ new = (D ++ x :: Z) ++ new) by (rewrite <- !app_assoc; reflexivity).
  unfold kinv. rewrite Eq. split; [|split; [|split; [|split]]].
  - apply NoDup_app_intro; auto.
    + apply NoDup_filter, H.
    + intros y Hy Hy2. apply filter_In in Hy2. apply (Hc3 y); tauto.
  - apply incl_app; auto. intros y Hy. apply filter_In in Hy. apply Hc1; tauto.
  - intros n Hn. rewrite Hm, (Hget n Hn). destruct (mem_str n (succs g x)) eqn:E.
    + apply mem_str_In, Hc1 in E. lia.
    + apply mem_str_false, Hc2 in E. auto.
  - intros n Hn. rewrite in_app_iff. destruct (mem_str n (succs g x)) eqn:E.
    + apply mem_str_In in E. destruct (Hc1 n E) as [_ Hcc]. split.
      * intros [Hc|Hc]; [exfalso; apply (Hc3 n E); auto|].
        apply filter_In in Hc. destruct Hc as [_ Hc]. apply Nat.eqb_eq in Hc. rewrite (Hget n Hn) in Hc. lia.
      * intros Hc. right. apply filter_In. split; auto. apply Nat.eqb_eq. rewrite (Hget n Hn). lia.
    + apply mem_str_false in E. rewrite <- (Hc2 n E), <- (Hzero n Hn). split; auto.
      intros [Hc|Hc]; auto. apply filter_In in Hc. tauto.
  - apply ordered_by_snoc; auto. apply cnt_zero_incl; auto. Qed.

Lemma gen_step_inv g : gwf g -> forall this m D zero m' zero',
  kinv g m D (this ++ zero) -> gen_step g m zero this = (m', zero') -> kinv g m' (D ++ this) zero'.
Proof. intros H. induction this as [|x t IH]; intros m D zero m' zero' Hk Hg; simpl in *.
  - inversion Hg; subst. rewrite app_nil_r. auto.
  - destruct (dec_children m zero (succs g x)) as [m1 z1] eqn:E.
    destruct (kahn_node_step g m D x (t ++ zero) zero m1 z1 H Hk E) as [new [-> Hk']].
    rewrite <- app_assoc in Hk'. specialize (IH _ _ _ _ _ Hk' Hg).
    rewrite <- app_assoc in IH. auto. Qed.

Lemma kinv_length g m D Z : kinv g m D Z -> length D + length Z <= length (g_nodes g).
Proof. intros [Hnd [Hi _]]. rewrite <- app_length. apply NoDup_incl_length; auto. Qed.

Lemma kahn_inv g : gwf g -> forall fuel m zero acc,
  kinv g m acc zero -> length (g_nodes g) < fuel + length acc ->
  exists m', kinv g m' (kahn fuel g m zero acc) [].
Proof. intros H. induction fuel as [|f IH]; intros m zero acc Hk Hf.
  - apply kinv_length in Hk. simpl in Hf. lia.
  - simpl. destruct zero as [|z zero].
    + exists m. auto.
    + destruct (gen_step g m [] (z :: zero)) as [m1 next] eqn:E.
      assert (Hk' : kinv g m (acc) ((z :: zero) ++ [])) by (rewrite app_nil_r; auto).
      apply (gen_step_inv g H _ _ _ _ _ _ Hk') in E.
      apply (IH _ _ _ E). rewrite app_length. simpl. lia. Qed.

Lemma kinv_init g : gwf g ->
  kinv g (map (fun n => (n, in_degree g n)) (g_nodes g)) [] (filter (fun n => in_degree g n =? 0) (g_nodes g)).
Proof. intros H. unfold kinv. simpl. split; [|split; [|split; [|split]]].
  - apply NoDup_filter, H.
  - intros x Hx. apply filter_In in Hx. tauto.
  - intros n Hn. unfold iget. rewrite (assoc_map_self 0 (in_degree g)); auto. rewrite cnt_nil; auto.
  - intros n Hn. rewrite filter_In, cnt_nil, Nat.eqb_eq. tauto.
  - apply ordered_by_nil. Qed.

Definition kahn_order (g : graph) : list string :=
  kahn (S (length (g_nodes g))) g (map (fun n => (n, in_degree g n)) (g_nodes g))
       (filter (fun n => in_degree g n =? 0) (g_nodes g)) [].
Lemma topo_sort_unfold g :
  topo_sort g = if length (kahn_order g) =? length (g_nodes g) then Some (kahn_order g) else None.
Proof. reflexivity. Qed.
Lemma kahn_order_inv g : gwf g -> exists m, kinv g m (kahn_order g) [].
Proof. intros H. apply kahn_inv; auto; [apply kinv_init; auto|simpl; lia]. Qed.

(* what Kahn's algorithm outputs, cyclic or not: a duplicate-free list of nodes, each after all of its
   predecessors, containing exactly the nodes all of whose predecessors it contains *)
Lemma kahn_order_spec g : gwf g ->
  NoDup (kahn_order g) /\ incl (kahn_order g) (g_nodes g) /\ ordered_by (preds g) (kahn_order g) /\
  forall n, In n (g_nodes g) -> (In n (kahn_order g) <-> incl (preds g n) (kahn_order g)).
Proof. intros H. destruct (kahn_order_inv g H) as [m [Hnd [Hi [_ [Hz Ho]]]]]. rewrite app_nil_r in *.
  repeat split; auto.
  - intros Hn. apply cnt_zero_incl. apply Hz; auto.
  - intros Hn. apply Hz; auto. apply incl_cnt_zero; auto. Qed.

Theorem topo_sort_some g order : gwf g -> topo_sort g = Some order ->
  Permutation order (g_nodes g) /\ NoDup order /\ ordered_by (preds g) order.
Proof. intros H. rewrite topo_sort_unfold.
  destruct (length (kahn_order g) =? length (g_nodes g)) eqn:E; [|discriminate].
  intros Hs; inversion Hs; subst. apply Nat.eqb_eq in E.
  destruct (kahn_order_spec g H) as [Hnd [Hi [Ho _]]]. repeat split; auto.
  apply NoDup_Permutation_bis; auto. lia. Qed.

(* every edge goes forward *)
Theorem topo_sort_forward g order a b : gwf g -> topo_sort g = Some order -> In b (succs g a) ->
  idx a order < idx b order /\ exists l1 l2 l3, order = l1 ++ a :: l2 ++ b :: l3.
Proof. intros H Hs Hab. destruct (topo_sort_some g order H Hs) as [Hp [Hnd Ho]].
  assert (Hb : In b order).
  { apply (Permutation_in b (Permutation_sym Hp)). apply (gwf_in g H) in Hab. tauto. }
  apply (gwf_sym g H) in Hab. split.
  - apply (ordered_by_idx (preds g)); auto.
  - apply (ordered_by_split (preds g)); auto. Qed.

Theorem topo_sort_some_acyclic g order : gwf g -> topo_sort g = Some order -> acyclic g.
Proof. intros H Hs. destruct (topo_sort_some g order H Hs) as [Hp [Hnd Ho]].
  apply (ordered_acyclic g order); auto. intros x Hx. apply (Permutation_in x (Permutation_sym Hp)); auto. Qed.

Theorem topo_sort_none_cycle g : gwf g -> topo_sort g = None -> exists x, gpath g x x.
Proof. intros H. rewrite topo_sort_unfold.
  destruct (length (kahn_order g) =? length (g_nodes g)) eqn:E; [discriminate|]. intros _.
  apply Nat.eqb_neq in E. destruct (kahn_order_spec g H) as [Hnd [Hi [Ho Hz]]].
  assert (Hlt : length (kahn_order g) < length (g_nodes g)).
  { apply (NoDup_incl_length Hnd) in Hi. lia. }
  apply (pred_closed_cycle g (fun x => In x (g_nodes g) /\ ~ In x (kahn_order g))).
  - tauto.
  - intros x [Hx1 Hx2].
    destruct (existsb (fun p => negb (mem_str p (kahn_order g))) (preds g x)) eqn:Ex.
    + apply existsb_exists in Ex. destruct Ex as [p [Hp1 Hp2]]. exists p.
      assert (~ In p (kahn_order g)) by (apply mem_str_false; destruct (mem_str p (kahn_order g)); auto; discriminate).
      apply (gwf_sym g H) in Hp1. split; auto. split; auto. apply (gwf_in g H) in Hp1. tauto.
    + exfalso. apply Hx2. apply Hz; auto. intros p Hp. apply mem_str_In.
      destruct (mem_str p (kahn_order g)) eqn:Ep; auto.
      assert (existsb (fun p => negb (mem_str p (kahn_order g))) (preds g x) = true).
      { apply existsb_exists. exists p. rewrite Ep. auto. }
      congruence.
  - apply NoDup_shorter_missing; auto. apply H. Qed.

Theorem topo_sort_acyclic_some g : gwf g -> acyclic g -> exists order, topo_sort g = Some order.
Proof. intros H Ha. destruct (topo_sort g) eqn:E; eauto.
  apply topo_sort_none_cycle in E; auto. destruct E as [x Hx]. exfalso. apply (Ha x Hx). Qed.

Theorem topo_sort_none_iff g : gwf g -> (topo_sort g = None <-> exists x, gpath g x x).
Proof. intros H. split; [apply topo_sort_none_cycle; auto|].
  intros [x Hx]. destruct (topo_sort g) eqn:E; auto.
  exfalso. apply (topo_sort_some_acyclic g l H E x Hx). Qed.

Theorem is_dag_acyclic g : gwf g -> (is_dag g = true <-> acyclic g).
Proof. intros H. unfold is_dag. split.
  - destruct (topo_sort g) eqn:E; [|discriminate]. intros _. eapply topo_sort_some_acyclic; eauto.
  - intros Ha. destruct (topo_sort_acyclic_some g H Ha) as [o ->]. auto. Qed.

(* ====================================================================== *)
(* dfs_postorder                                                           *)
(* ====================================================================== *)
Definition dfs_child (f : nat) (g : graph) : list string * list string -> string -> list string * list string :=
  fun '(s, o) c => if mem_str c s then (s, o) else dfs f g c (c :: s) o.
Lemma dfs_unfold f g n seen out :
  dfs (S f) g n seen out =
  (fst (fold_left (dfs_child f g) (succs g n) (seen, out)),
   snd (fold_left (dfs_child f g) (succs g n) (seen, out)) ++ [n]).
Proof. simpl. fold (dfs_child f g). destruct (fold_left (dfs_child f g) (succs g n) (seen, out)); auto. Qed.

Definition dinv (g : graph) (s o : list string) : Prop :=
  NoDup s /\ NoDup o /\ incl o s /\ incl s (g_nodes g) /\ (acyclic g -> ordered_by (succs g) o).
Definition gray (s o : list string) (y : string) : Prop := In y s /\ ~ In y o.

Definition dfs_post (g : graph) (n : string) (s o s' o' : list string) : Prop :=
  dinv g s' o' /\ incl s s' /\ incl o o' /\ In n o' /\ (forall y, gray s' o' y <-> gray s o y /\ y <> n).
Definition dfs_ok (f : nat) (g : graph) : Prop :=
  forall n s o, dinv g s o -> In n s -> ~ In n o -> length (g_nodes g) < f + length s ->
    (forall y, gray s o y -> y = n \/ gpath g y n) ->
    dfs_post g n s o (fst (dfs f g n s o)) (snd (dfs f g n s o)).

Lemma dfs_children_ok f g n : gwf g -> dfs_ok f g ->
  forall cs s1 o1, incl cs (succs g n) ->
    dinv g s1 o1 -> In n s1 -> ~ In n o1 -> length (g_nodes g) < S f + length s1 ->
    (forall y, gray s1 o1 y -> y = n \/ gpath g y n) ->
    forall s2 o2, fold_left (dfs_child f g) cs (s1, o1) = (s2, o2) ->
    dinv g s2 o2 /\ incl s1 s2 /\ incl o1 o2 /\ (forall y, gray s2 o2 y <-> gray s1 o1 y) /\
    (acyclic g -> forall c, In c cs -> In c o2).
Proof. intros H Hok. induction cs as [|c cs IH]; intros s1 o1 Hcs Hd Hn1 Hn2 Hf Hg s2 o2 Hfold.
  - simpl in Hfold. inversion Hfold; subst. split; [auto|]. split; [apply incl_refl|]. split; [apply incl_refl|].
    split; [tauto|]. intros _ c [].
  - assert (Hc : In c (succs g n)) by (apply Hcs; left; auto).
    assert (Hcs' : incl cs (succs g n)) by (intros x Hx; apply Hcs; right; auto).
    simpl in Hfold. destruct (mem_str c s1) eqn:E.
    + destruct (IH s1 o1 Hcs' Hd Hn1 Hn2 Hf Hg s2 o2 Hfold) as [A1 [A2 [A3 [A4 A5]]]].
      split; [auto|]. split; [auto|]. split; [auto|]. split; [auto|]. intros Ha x [<-|Hx]; [|apply A5; auto].
      apply A3. apply mem_str_In in E. destruct (in_dec string_dec c o1) as [Hi|Hi]; auto.
      exfalso. destruct (Hg c (conj E Hi)) as [->|Hp].
      * apply (Ha n). apply gp_edge; auto.
      * apply (Ha c). eapply gpath_snoc; eauto.
    + apply mem_str_false in E. destruct Hd as [D1 [D2 [D3 [D4 D5]]]].
      assert (Hcn : In c (g_nodes g)) by (apply (gwf_in g H) in Hc; tauto).
      assert (Hco : ~ In c o1) by (intros Hx; apply E, D3; auto).
      assert (Hd' : dinv g (c :: s1) o1).
      { repeat split; auto.
        - constructor; auto.
        - intros x Hx. right; auto.
        - intros x [<-|Hx]; auto. }
      assert (Hg' : forall y, gray (c :: s1) o1 y -> y = c \/ gpath g y c).
      { intros y [[<-|Hy1] Hy2]; auto. right. destruct (Hg y (conj Hy1 Hy2)) as [->|Hp].
        - apply gp_edge; auto.
        - eapply gpath_snoc; eauto. }
      assert (Hf' : length (g_nodes g) < f + length (c :: s1)) by (simpl; lia).
      pose proof (Hok c (c :: s1) o1 Hd' (or_introl eq_refl) Hco Hf' Hg') as Hpost.
      destruct (dfs f g c (c :: s1) o1) as [s' o'] eqn:Edfs. simpl in Hpost.
      destruct Hpost as [B1 [B2 [B3 [B4 B5]]]].
      assert (Hnc : n <> c) by (intros ->; auto).
      assert (Hgr : forall y, gray s' o' y <-> gray s1 o1 y).
      { intros y. rewrite B5. unfold gray. simpl. split.
        - intros [[[Hy|Hy] Hy2] Hy3]; [congruence|auto].
        - intros [Hy1 Hy2]. repeat split; auto. intros ->. auto. }
      assert (Hn1' : In n s') by (apply B2; right; auto).
      assert (Hn2' : ~ In n o') by (apply (Hgr n); split; auto).
      assert (Hlen : length (c :: s1) <= length s').
      { apply NoDup_incl_length; auto. constructor; auto. }
      assert (Hf2 : length (g_nodes g) < S f + length s') by (simpl in Hlen; lia).
      assert (Hg2 : forall y, gray s' o' y -> y = n \/ gpath g y n) by (intros y Hy; apply Hg, Hgr; auto).
      destruct (IH s' o' Hcs' B1 Hn1' Hn2' Hf2 Hg2 s2 o2 Hfold) as [A1 [A2 [A3 [A4 A5]]]].
      split; [auto|]. split; [intros x Hx; apply A2, B2; right; auto|].
      split; [intros x Hx; apply A3, B3; auto|]. split.
      * intros y. rewrite A4. apply Hgr.
      * intros Ha x [<-|Hx]; [apply A3; auto|apply A5; auto]. Qed.

Lemma dfs_all_ok g : gwf g -> forall f, dfs_ok f g.
Proof. intros H. induction f as [|f IH]; intros n s o Hd Hn1 Hn2 Hf Hg.
  - exfalso. destruct Hd as [D1 [_ [_ [D4 _]]]]. apply (NoDup_incl_length D1) in D4. simpl in Hf. lia.
  - rewrite dfs_unfold. simpl fst. simpl snd.
    destruct (fold_left (dfs_child f g) (succs g n) (s, o)) as [s2 o2] eqn:E. simpl.
    destruct (dfs_children_ok f g n H IH (succs g n) s o (incl_refl _) Hd Hn1 Hn2 Hf Hg s2 o2 E)
      as [[D1 [D2 [D3 [D4 D5]]]] [A2 [A3 [A4 A5]]]].
    assert (Hno : ~ In n o2) by (apply (A4 n); split; auto).
    split; [|split; [|split; [|split]]]; auto.
    + split; [auto|]. split; [apply NoDup_snoc; auto|]. split; [|split; [auto|]].
      * intros x Hx. apply in_snoc in Hx. destruct Hx as [Hx| ->]; auto.
      * intros Ha. apply ordered_by_snoc; auto. intros c Hc. apply A5; auto.
    + intros x Hx. apply in_snoc. left; auto.
    + apply in_snoc. auto.
    + intros y. rewrite <- A4. unfold gray. rewrite in_snoc. tauto. Qed.

Definition dfs_root (g : graph) : list string * list string -> string -> list string * list string :=
  fun '(s, o) n => if mem_str n s then (s, o) else dfs (S (length (g_nodes g))) g n (n :: s) o.
Lemma dfs_postorder_unfold g : dfs_postorder g = snd (fold_left (dfs_root g) (g_nodes g) ([], [])).
Proof. reflexivity. Qed.

Lemma dfs_roots_ok g : gwf g -> forall rs s1 o1, incl rs (g_nodes g) ->
  dinv g s1 o1 -> incl s1 o1 ->
  forall s2 o2, fold_left (dfs_root g) rs (s1, o1) = (s2, o2) ->
  dinv g s2 o2 /\ incl s2 o2 /\ incl s1 s2 /\ incl rs s2.
Proof. intros H. induction rs as [|r rs IH]; intros s1 o1 Hrs Hd Hso s2 o2 Hfold.
  - simpl in Hfold. inversion Hfold; subst. split; [auto|]. split; [auto|]. split; [apply incl_refl|]. intros x [].
  - assert (Hr : In r (g_nodes g)) by (apply Hrs; left; auto).
    assert (Hrs' : incl rs (g_nodes g)) by (intros x Hx; apply Hrs; right; auto).
    cbn [fold_left] in Hfold.
    assert (Er : dfs_root g (s1, o1) r
                 = if mem_str r s1 then (s1, o1) else dfs (S (length (g_nodes g))) g r (r :: s1) o1) by reflexivity.
    rewrite Er in Hfold. clear Er. destruct (mem_str r s1) eqn:E.
    + destruct (IH s1 o1 Hrs' Hd Hso s2 o2 Hfold) as [A1 [A2 [A3 A4]]].
      split; [auto|]. split; [auto|]. split; [auto|].
      intros x [<-|Hx]; auto. apply A3. apply mem_str_In; auto.
    + apply mem_str_false in E. destruct Hd as [D1 [D2 [D3 [D4 D5]]]].
      assert (Hro : ~ In r o1) by (intros Hx; apply E, D3; auto).
      assert (Hd' : dinv g (r :: s1) o1).
      { repeat split; auto.
        - constructor; auto.
        - intros x Hx. right; auto.
        - intros x [<-|Hx]; auto. }
      assert (Hg' : forall y, gray (r :: s1) o1 y -> y = r \/ gpath g y r).
      { intros y [[<-|Hy1] Hy2]; auto. exfalso. auto. }
      assert (Hf' : length (g_nodes g) < S (length (g_nodes g)) + length (r :: s1)) by (simpl; lia).
      pose proof (dfs_all_ok g H _ r (r :: s1) o1 Hd' (or_introl eq_refl) Hro Hf' Hg') as Hpost.
      destruct (dfs (S (length (g_nodes g))) g r (r :: s1) o1) as [s' o'] eqn:Edfs. cbn [fst snd] in Hpost.
      destruct Hpost as [B1 [B2 [B3 [B4 B5]]]].
      assert (Hso' : incl s' o').
      { intros y Hy. destruct (in_dec string_dec y o') as [Hi|Hi]; auto. exfalso.
        destruct (proj1 (B5 y) (conj Hy Hi)) as [[[Hy1|Hy1] Hy2] Hy3]; [congruence|auto]. }
      destruct (IH s' o' Hrs' B1 Hso' s2 o2 Hfold) as [A1 [A2 [A3 A4]]].
      split; [auto|]. split; [auto|]. split.
      * intros x Hx. apply A3, B2. right; auto.
      * intros x [<-|Hx]; auto. apply A3, B2. left; auto. Qed.

Lemma dfs_postorder_inv g : gwf g ->
  NoDup (dfs_postorder g) /\ (forall x, In x (dfs_postorder g) <-> In x (g_nodes g)) /\
  (acyclic g -> ordered_by (succs g) (dfs_postorder g)).
Proof. intros H. rewrite dfs_postorder_unfold.
  destruct (fold_left (dfs_root g) (g_nodes g) ([], [])) as [s2 o2] eqn:E. simpl.
  assert (Hd : dinv g [] []).
  { split; [constructor|]. split; [constructor|]. split; [apply incl_refl|]. split; [intros x []|].
    intros _. apply ordered_by_nil. }
  destruct (dfs_roots_ok g H (g_nodes g) [] [] (incl_refl _) Hd (incl_refl _) s2 o2 E)
    as [[D1 [D2 [D3 [D4 D5]]]] [A2 [A3 A4]]].
  split; [auto|]. split; [|auto]. intros x. split; intros Hx.
  - apply D4, D3; auto.
  - apply A2, A4; auto. Qed.

Theorem dfs_postorder_perm g : gwf g -> Permutation (dfs_postorder g) (g_nodes g).
Proof. intros H. destruct (dfs_postorder_inv g H) as [H1 [H2 _]]. apply NoDup_Permutation; auto. apply H. Qed.
Theorem dfs_postorder_nodup g : gwf g -> NoDup (dfs_postorder g).
Proof. intros H. apply (dfs_postorder_inv g H). Qed.
Theorem dfs_postorder_in g x : gwf g -> (In x (dfs_postorder g) <-> In x (g_nodes g)).
Proof. intros H. apply (dfs_postorder_inv g H). Qed.
(* every node comes after all of its successors *)
Theorem dfs_postorder_ordered g : gwf g -> acyclic g -> ordered_by (succs g) (dfs_postorder g).
Proof. intros H. apply (dfs_postorder_inv g H). Qed.
Theorem dfs_postorder_succ_before g a b : gwf g -> acyclic g -> In b (succs g a) ->
  idx b (dfs_postorder g) < idx a (dfs_postorder g) /\
  exists l1 l2 l3, dfs_postorder g = l1 ++ b :: l2 ++ a :: l3.
Proof. intros H Ha Hab. pose proof (dfs_postorder_ordered g H Ha) as Ho.
  assert (Hin : In a (dfs_postorder g)).
  { apply dfs_postorder_in; auto. apply (gwf_in g H) in Hab. tauto. }
  split; [apply (ordered_by_idx (succs g)); auto|apply (ordered_by_split (succs g)); auto]. Qed.

(* ====================================================================== *)
(* reach_from                                                              *)
(* ====================================================================== *)
Lemma dedup_by_In x l : In x (dedup_by String.eqb l) <-> In x l.
Proof. induction l as [|a l IH]; simpl; [tauto|]. rewrite filter_In, IH.
  destruct (String.eqb_spec a x) as [->|Hn]; simpl; [tauto|]. intuition congruence. Qed.
Lemma dedup_by_NoDup l : NoDup (dedup_by String.eqb l).
Proof. induction l as [|a l IH]; simpl; constructor.
  - rewrite filter_In. rewrite String.eqb_refl. simpl. intros [_ Hc]. discriminate.
  - apply NoDup_filter; auto. Qed.

(* paths of any length (possibly empty) along adj *)
Inductive rpath (adj : string -> list string) : string -> string -> Prop :=
| rp_refl x : rpath adj x x
| rp_step x y z : rpath adj x y -> In z (adj y) -> rpath adj x z.
Lemma rpath_trans adj a b c : rpath adj a b -> rpath adj b c -> rpath adj a c.
Proof. intros H1 H2. induction H2; auto. apply (rp_step adj a y z); auto. Qed.
Lemma rpath_gpath g a b : rpath (succs g) a b <-> a = b \/ gpath g a b.
Proof. split.
  - induction 1; auto. right. destruct IHrpath as [->|Hp]; [apply gp_edge; auto|eapply gpath_snoc; eauto].
  - intros [->|Hp]; [apply rp_refl|]. induction Hp.
    + eapply rp_step; [apply rp_refl|auto].
    + eapply rpath_trans; [|eauto]. eapply rp_step; [apply rp_refl|auto]. Qed.

Lemma reach_from_sound adj (R : string -> Prop) :
  (forall y z, R y -> In z (adj y) -> R z) ->
  forall fuel fr seen, (forall y, In y fr -> R y) -> (forall y, In y seen -> R y) ->
  forall y, In y (reach_from fuel adj fr seen) -> R y.
Proof. intros HR. induction fuel as [|f IH]; intros fr seen Hfr Hseen y; simpl; auto.
  destruct fr as [|x t]; auto. apply IH.
  - intros z Hz. apply in_app_iff in Hz. destruct Hz as [Hz|Hz]; [apply Hfr; right; auto|].
    apply filter_In in Hz. destruct Hz as [Hz _]. rewrite dedup_by_In in Hz.
    apply (HR x); auto. apply Hfr; left; auto.
  - intros z Hz. apply in_app_iff in Hz. destruct Hz as [Hz|Hz]; auto.
    apply filter_In in Hz. destruct Hz as [Hz _]. rewrite dedup_by_In in Hz.
    apply (HR x); auto. apply Hfr; left; auto. Qed.

Lemma reach_from_mono adj : forall fuel fr seen, incl seen (reach_from fuel adj fr seen).
Proof. induction fuel as [|f IH]; intros fr seen; simpl; [apply incl_refl|].
  destruct fr as [|x t]; [apply incl_refl|]. intros y Hy. apply IH. apply in_or_app; auto. Qed.

Lemma reach_from_closed adj U : (forall y, In y U -> incl (adj y) U) ->
  forall fuel fr seen, NoDup seen -> incl seen U -> incl fr seen ->
    (forall y, In y seen -> In y fr \/ incl (adj y) seen) ->
    length fr + length U <= fuel + length seen ->
    forall y, In y (reach_from fuel adj fr seen) -> incl (adj y) (reach_from fuel adj fr seen).
Proof. intros HU. induction fuel as [|f IH]; intros fr seen Hnd Hs Hfr Hc Hlen.
  - assert (fr = []).
    { apply (NoDup_incl_length Hnd) in Hs. destruct fr; auto. simpl in Hlen. lia. }
    subst. simpl. intros y Hy. destruct (Hc y Hy) as [[]|]; auto.
  - simpl. destruct fr as [|x t].
    + intros y Hy. destruct (Hc y Hy) as [[]|]; auto.
    + set (new := filter (fun s => negb (mem_str s seen)) (dedup_by String.eqb (adj x))).
      assert (Hx : In x U) by (apply Hs, Hfr; left; auto).
      assert (Hnew : forall z, In z new <-> In z (adj x) /\ ~ In z seen).
      { intros z. unfold new. rewrite filter_In, dedup_by_In, <- mem_str_false.
        destruct (mem_str z seen); simpl; intuition congruence. }
      apply IH.
      * apply NoDup_app_intro; auto.
        -- apply NoDup_filter, dedup_by_NoDup.
        -- intros z Hz Hz2. apply Hnew in Hz2. tauto.
      * apply incl_app; auto. intros z Hz. apply Hnew in Hz. apply (HU x Hx). tauto.
      * intros z Hz. apply in_app_iff in Hz. apply in_or_app. destruct Hz as [Hz|Hz]; auto.
        left. apply Hfr. right; auto.
      * intros y Hy. apply in_app_iff in Hy. destruct Hy as [Hy|Hy].
        -- destruct (Hc y Hy) as [[<-|Hy2]|Hy2].
           ++ right. intros z Hz. apply in_or_app. destruct (in_dec string_dec z seen); auto.
              right. apply Hnew. auto.
           ++ left. apply in_or_app; auto.
           ++ right. intros z Hz. apply in_or_app. left. auto.
        -- left. apply in_or_app; auto.
      * rewrite !app_length. simpl in Hlen. lia. Qed.

(* soundness and completeness of the bounded search: U is any finite universe closed under adj *)
Theorem reach_from_spec adj U srcs fuel x :
  NoDup srcs -> incl srcs U -> (forall y, In y U -> incl (adj y) U) -> length U <= fuel ->
  (In x (reach_from fuel adj srcs srcs) <-> exists s, In s srcs /\ rpath adj s x).
Proof. intros Hnd Hs HU Hf. split.
  - apply (reach_from_sound adj (fun y => exists s, In s srcs /\ rpath adj s y)).
    + intros y z [s [Hs1 Hs2]] Hz. exists s. split; auto. eapply rp_step; eauto.
    + intros y Hy. exists y. split; auto. apply rp_refl.
    + intros y Hy. exists y. split; auto. apply rp_refl.
  - intros [s [Hs1 Hs2]]. induction Hs2.
    + apply reach_from_mono; auto.
    + eapply (reach_from_closed adj U HU fuel srcs srcs); eauto using incl_refl. lia. Qed.

(* the instance used by the loader: a graph search from one node *)
Corollary reach_from_graph g (adj : string -> list string) p x :
  gwf g -> In p (g_nodes g) -> (forall y, incl (adj y) (succs g y)) ->
  (In x (reach_from (S (length (g_nodes g))) adj [p] [p]) <-> rpath adj p x).
Proof. intros H Hp Hadj. rewrite (reach_from_spec adj (g_nodes g)).
  - split; [intros [s [[<-|[]] Hs]]; auto|]. intros Hr. exists p. split; auto. left; auto.
  - repeat constructor. simpl. tauto.
  - intros y [<-|[]]. auto.
  - intros y Hy z Hz. apply Hadj in Hz. apply (gwf_in g H) in Hz. tauto.
  - lia. Qed.
