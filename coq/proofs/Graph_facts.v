(* Graph_facts.v -- reusable facts about model/Graph.v: well-formed graphs (gwf) and their preservation
   by the four mutators, edge characterisations of the mutators, paths / acyclicity, correctness of
   topo_sort (Kahn by generations), dfs_postorder and reach_from. *)
From Coq Require Import Lia Permutation.
From PS Require Import Base Graph Lists.

(* ====================================================================== *)
(* generic list facts                                                      *)
(* ====================================================================== *)
Lemma NoDup_app_intro {A} (l l' : list A) :
  NoDup l -> NoDup l' -> (forall x, In x l -> ~ In x l') -> NoDup (l ++ l').
Proof. induction l; simpl; intros H1 H2 H3; auto. inversion H1; subst. constructor.
  - rewrite in_app_iff. intros [H|H]; [auto|]. apply (H3 a); auto.
  - apply IHl; auto. Qed.
Lemma NoDup_app_inv {A} (l l' : list A) :
  NoDup (l ++ l') -> NoDup l /\ NoDup l' /\ (forall x, In x l -> ~ In x l').
Proof. induction l; simpl; intros H.
  - repeat split; auto. constructor.
  - inversion H; subst. destruct (IHl H3) as [H4 [H5 H6]]. repeat split; auto.
    + constructor; auto. intros Hc. apply H2. apply in_or_app; auto.
    + intros x [->|Hx]; [|auto]. intros Hc. apply H2. apply in_or_app; auto. Qed.

Lemma mem_str_false x l : mem_str x l = false <-> ~ In x l.
Proof. rewrite <- mem_str_In. destruct (mem_str x l); split; congruence. Qed.
Lemma mem_str_app x l l' : mem_str x (l ++ l') = mem_str x l || mem_str x l'.
Proof. apply existsb_app. Qed.

Lemma rm_str_In x y l : In y (rm_str x l) <-> In y l /\ y <> x.
Proof. unfold rm_str. rewrite filter_In. split; intros [H1 H2]; (split; [exact H1|]).
  - intros ->. rewrite String.eqb_refl in H2. discriminate.
  - destruct (String.eqb_spec x y); auto. Qed.
Lemma rm_str_NoDup x l : NoDup l -> NoDup (rm_str x l).
Proof. apply NoDup_filter. Qed.
Lemma rm_str_notin x l : ~ In x l -> rm_str x l = l.
Proof. induction l; simpl; auto. intros H. destruct (String.eqb_spec x a).
  - subst. exfalso. apply H; auto.
  - simpl. f_equal. apply IHl. intros Hc; apply H; auto. Qed.

(* a list with a repetition splits around it *)
Lemma not_NoDup_split (l : list string) :
  ~ NoDup l -> exists x l1 l2 l3, l = l1 ++ x :: l2 ++ x :: l3.
Proof. induction l as [|a l IH]; intros H.
  - exfalso. apply H. constructor.
  - destruct (in_dec string_dec a l) as [Hin|Hni].
    + apply in_split in Hin. destruct Hin as [l2 [l3 ->]]. exists a, [], l2, l3. auto.
    + destruct IH as [x [l1 [l2 [l3 ->]]]].
      * intros Hc. apply H. constructor; auto.
      * exists x, (a :: l1), l2, l3. auto. Qed.
Lemma incl_longer_not_NoDup (l u : list string) : incl l u -> length u < length l -> ~ NoDup l.
Proof. intros Hi Hl Hn. apply (NoDup_incl_length Hn) in Hi. lia. Qed.
(* a list shorter than a duplicate-free one misses one of its elements *)
Lemma NoDup_shorter_missing (l u : list string) :
  NoDup u -> length l < length u -> exists x, In x u /\ ~ In x l.
Proof. intros Hn Hl.
  destruct (existsb (fun x => negb (mem_str x l)) u) eqn:E.
  - apply existsb_exists in E. destruct E as [x [Hx1 Hx2]]. exists x. split; auto.
    apply mem_str_false. destruct (mem_str x l); auto; discriminate.
  - exfalso. assert (Hi : incl u l).
    { intros x Hx. apply mem_str_In. destruct (mem_str x l) eqn:Ex; auto.
      assert (existsb (fun x => negb (mem_str x l)) u = true).
      { apply existsb_exists. exists x. rewrite Ex; auto. }
      congruence. }
    apply (NoDup_incl_length Hn) in Hi. lia. Qed.

(* ====================================================================== *)
(* assoc / set                                                             *)
(* ====================================================================== *)
Lemma assoc_set {A} (d : A) (l : list (string * A)) k v k' :
  assoc d (set l k v) k' = if String.eqb k' k then v else assoc d l k'.
Proof. induction l as [|[k2 v2] t IH]; simpl.
  - reflexivity.
  - destruct (String.eqb_spec k k2) as [->|Hn]; simpl.
    + destruct (String.eqb k' k2); auto.
    + rewrite IH. destruct (String.eqb_spec k' k2) as [->|Hn2]; auto.
      destruct (String.eqb_spec k2 k); auto. congruence. Qed.
Lemma set_keys_in {A} (l : list (string * A)) k v : In k (map fst l) -> map fst (set l k v) = map fst l.
Proof. induction l as [|[k2 v2] t IH]; simpl; [tauto|]. intros H.
  destruct (String.eqb_spec k k2) as [->|Hn]; simpl; auto. f_equal. apply IH.
  destruct H; auto. congruence. Qed.
Lemma assoc_notin {A} (d : A) l k : ~ In k (map fst l) -> assoc d l k = d.
Proof. induction l as [|[k2 v2] t IH]; simpl; auto. intros H.
  destruct (String.eqb_spec k k2) as [->|Hn]; [exfalso; auto|]. apply IH. tauto. Qed.
Lemma assoc_app_nil {A} (l : list (string * list A)) n k : assoc [] (l ++ [(n, [])]) k = assoc [] l k.
Proof. induction l as [|[k2 v2] t IH]; simpl.
  - destruct (String.eqb k n); auto.
  - destruct (String.eqb k k2); auto. Qed.
Lemma assoc_In {A} (d : A) l k : assoc d l k <> d -> In k (map fst l).
Proof. intros H. destruct (in_dec string_dec k (map fst l)); auto. exfalso. apply H. apply assoc_notin; auto. Qed.
Lemma assoc_map_self {A} (d : A) (f : string -> A) l k : In k l -> assoc d (map (fun n => (n, f n)) l) k = f k.
Proof. induction l; simpl; [tauto|]. intros H. destruct (String.eqb_spec k a) as [->|Hn]; auto.
  apply IHl. destruct H; congruence. Qed.
Lemma assoc_rm (l : list (string * list string)) n x :
  assoc [] (map (fun kv => (fst kv, rm_str n (snd kv))) (filter (fun kv => negb (String.eqb n (fst kv))) l)) x
  = if String.eqb n x then [] else rm_str n (assoc [] l x).
Proof. induction l as [|[k v] t IH]; simpl.
  - destruct (String.eqb n x); auto.
  - destruct (String.eqb_spec n k) as [->|Hn]; simpl.
    + rewrite IH. destruct (String.eqb_spec k x) as [->|Hn2]; auto.
      destruct (String.eqb_spec x k); auto. congruence.
    + rewrite IH. destruct (String.eqb_spec x k) as [->|Hn2]; auto.
      destruct (String.eqb_spec n k); auto. congruence. Qed.
Lemma keys_rm (l : list (string * list string)) n :
  map fst (map (fun kv : string * list string => (fst kv, rm_str n (snd kv)))
               (filter (fun kv => negb (String.eqb n (fst kv))) l))
  = rm_str n (map fst l).
Proof. induction l as [|[k v] t IH]; simpl; auto.
  destruct (String.eqb n k); simpl; rewrite IH; auto. Qed.

(* ====================================================================== *)
(* well-formed graphs                                                      *)
(* ====================================================================== *)
Record gwf (g : graph) : Prop := {
  gwf_nodup : NoDup (g_nodes g);
  gwf_skeys : map fst (g_succ g) = g_nodes g;
  gwf_pkeys : map fst (g_pred g) = g_nodes g;
  gwf_sym : forall a b, In b (succs g a) <-> In a (preds g b);
  gwf_snd : forall a, NoDup (succs g a);
  gwf_pnd : forall a, NoDup (preds g a);
  gwf_in : forall a b, In b (succs g a) -> In a (g_nodes g) /\ In b (g_nodes g) }.

Lemma gwf_empty : gwf g_empty.
Proof. constructor; simpl; auto; try constructor; unfold succs, preds; simpl; try tauto; constructor. Qed.

Lemma has_node_In g n : has_node g n = true <-> In n (g_nodes g).
Proof. apply mem_str_In. Qed.
Lemma gwf_preds_in g : gwf g -> forall a b, In a (preds g b) -> In a (g_nodes g) /\ In b (g_nodes g).
Proof. intros H a b Hp. apply (gwf_sym g H) in Hp. apply (gwf_in g H); auto. Qed.
Lemma succs_notin g a : gwf g -> ~ In a (g_nodes g) -> succs g a = [].
Proof. intros H Hn. unfold succs. apply assoc_notin. rewrite (gwf_skeys g H); auto. Qed.
Lemma preds_notin g a : gwf g -> ~ In a (g_nodes g) -> preds g a = [].
Proof. intros H Hn. unfold preds. apply assoc_notin. rewrite (gwf_pkeys g H); auto. Qed.

(* ---------- add_node ---------- *)
Lemma add_node_nodes g n x : In x (g_nodes (add_node g n)) <-> In x (g_nodes g) \/ x = n.
Proof. unfold add_node. destruct (has_node g n) eqn:E; simpl.
  - apply has_node_In in E. split; [auto|]. intros [H| ->]; auto.
  - rewrite in_app_iff. simpl. split; intros [H|H]; auto. destruct H; auto; tauto. Qed.
Lemma add_node_succs g n a : succs (add_node g n) a = succs g a.
Proof. unfold add_node. destruct (has_node g n); auto. unfold succs. simpl. apply assoc_app_nil. Qed.
Lemma add_node_preds g n a : preds (add_node g n) a = preds g a.
Proof. unfold add_node. destruct (has_node g n); auto. unfold preds. simpl. apply assoc_app_nil. Qed.
Lemma add_node_in g n : In n (g_nodes (add_node g n)).
Proof. apply add_node_nodes; auto. Qed.
Lemma add_node_incl g n : incl (g_nodes g) (g_nodes (add_node g n)).
Proof. intros x Hx. apply add_node_nodes; auto. Qed.
Lemma gwf_add_node g n : gwf g -> gwf (add_node g n).
Proof. intros H. constructor; try (intros; rewrite ?add_node_succs, ?add_node_preds; apply H).
  - unfold add_node. destruct (has_node g n) eqn:E; [apply H|]. simpl.
    apply NoDup_app_intro; [apply H|repeat constructor; simpl; tauto|].
    intros x Hx [<-|[]]. apply has_node_In in Hx. congruence.
  - unfold add_node. destruct (has_node g n); [apply H|]. simpl. rewrite map_app. simpl. f_equal. apply H.
  - unfold add_node. destruct (has_node g n); [apply H|]. simpl. rewrite map_app. simpl. f_equal. apply H.
  - intros a b. rewrite add_node_succs. intros Hs. apply (gwf_in g H) in Hs.
    split; apply add_node_incl; tauto. Qed.
Lemma add_node_id g n : In n (g_nodes g) -> add_node g n = g.
Proof. intros H. unfold add_node. apply has_node_In in H. rewrite H. auto. Qed.

(* ---------- add_edge ---------- *)
Lemma add_edge_nodes g a b x : In x (g_nodes (add_edge g a b)) <-> In x (g_nodes g) \/ x = a \/ x = b.
Proof. unfold add_edge. destruct (mem_str b (succs (add_node (add_node g a) b) a)); simpl;
  rewrite !add_node_nodes; tauto. Qed.
Lemma add_edge_succs g a b x y :
  In y (succs (add_edge g a b) x) <-> In y (succs g x) \/ (x = a /\ y = b).
Proof. unfold add_edge. destruct (mem_str b (succs (add_node (add_node g a) b) a)) eqn:E.
  - apply mem_str_In in E. rewrite !add_node_succs in *. split; auto. intros [H|[-> ->]]; auto.
  - unfold succs at 1. simpl. rewrite assoc_set. fold (succs (add_node (add_node g a) b) x).
    rewrite !add_node_succs. destruct (String.eqb_spec x a) as [->|Hn].
    + rewrite in_app_iff. simpl. split; intros [H|H]; auto. destruct H; auto; try tauto. subst; auto.
      destruct H; subst; auto.
    + split; auto. intros [H|[H _]]; auto. congruence. Qed.
Lemma NoDup_snoc {A} (l : list A) x : NoDup l -> ~ In x l -> NoDup (l ++ [x]).
Proof. intros H1 H2. apply NoDup_app_intro; auto. repeat constructor; simpl; tauto.
  intros y Hy [<-|[]]. auto. Qed.
Lemma in_snoc {A} (l : list A) x y : In y (l ++ [x]) <-> In y l \/ y = x.
Proof. rewrite in_app_iff. simpl. split; intros [H|H]; auto. destruct H; auto; tauto. Qed.

Lemma gwf_add_edge_raw g a b :
  gwf g -> In a (g_nodes g) -> In b (g_nodes g) -> ~ In b (succs g a) ->
  gwf {| g_nodes := g_nodes g;
         g_succ := set (g_succ g) a (succs g a ++ [b]);
         g_pred := set (g_pred g) b (preds g b ++ [a]) |}.
Proof. intros H Ha Hb Hn.
  assert (Hs : forall x, succs {| g_nodes := g_nodes g;
         g_succ := set (g_succ g) a (succs g a ++ [b]);
         g_pred := set (g_pred g) b (preds g b ++ [a]) |} x = if String.eqb x a then succs g a ++ [b] else succs g x).
  { intros x. unfold succs at 1. simpl. apply assoc_set. }
  assert (Hp : forall x, preds {| g_nodes := g_nodes g;
         g_succ := set (g_succ g) a (succs g a ++ [b]);
         g_pred := set (g_pred g) b (preds g b ++ [a]) |} x = if String.eqb x b then preds g b ++ [a] else preds g x).
  { intros x. unfold preds at 1. simpl. apply assoc_set. }
  assert (Hn' : ~ In a (preds g b)) by (rewrite <- (gwf_sym g H); auto).
  constructor; simpl.
  - apply H.
  - rewrite set_keys_in; [apply H|]. rewrite (gwf_skeys g H); auto.
  - rewrite set_keys_in; [apply H|]. rewrite (gwf_pkeys g H); auto.
  - intros x y. rewrite Hs, Hp.
    destruct (String.eqb_spec x a) as [->|Hxa]; destruct (String.eqb_spec y b) as [->|Hyb];
      rewrite ?in_snoc, (gwf_sym g H); tauto.
  - intros x. rewrite Hs. destruct (String.eqb x a); [|apply H]. apply NoDup_snoc; auto. apply H.
  - intros x. rewrite Hp. destruct (String.eqb x b); [|apply H]. apply NoDup_snoc; auto. apply H.
  - intros x y. rewrite Hs. destruct (String.eqb_spec x a) as [->|Hxa]; [|apply H].
    rewrite in_snoc. intros [Hy| ->]; auto. apply (gwf_in g H) in Hy. tauto. Qed.

Lemma gwf_add_edge g a b : gwf g -> gwf (add_edge g a b).
Proof. intros H. unfold add_edge.
  assert (H2 : gwf (add_node (add_node g a) b)) by (apply gwf_add_node, gwf_add_node; auto).
  destruct (mem_str b (succs (add_node (add_node g a) b) a)) eqn:E; auto.
  apply gwf_add_edge_raw; auto.
  - apply add_node_incl, add_node_in.
  - apply add_node_in.
  - apply mem_str_false; auto. Qed.

Lemma add_edge_preds g a b x y :
  gwf g -> (In y (preds (add_edge g a b) x) <-> In y (preds g x) \/ (x = b /\ y = a)).
Proof. intros H. rewrite <- (gwf_sym _ (gwf_add_edge g a b H)), add_edge_succs, (gwf_sym g H). tauto. Qed.

(* ---------- remove_edge ---------- *)
Lemma remove_edge_nodes g a b : g_nodes (remove_edge g a b) = g_nodes g.
Proof. reflexivity. Qed.
Lemma remove_edge_succs_eq g a b x :
  succs (remove_edge g a b) x = if String.eqb x a then rm_str b (succs g a) else succs g x.
Proof. unfold succs at 1. simpl. apply assoc_set. Qed.
Lemma remove_edge_preds_eq g a b x :
  preds (remove_edge g a b) x = if String.eqb x b then rm_str a (preds g b) else preds g x.
Proof. unfold preds at 1. simpl. apply assoc_set. Qed.
Lemma remove_edge_succs g a b x y :
  In y (succs (remove_edge g a b) x) <-> In y (succs g x) /\ ~ (x = a /\ y = b).
Proof. rewrite remove_edge_succs_eq. destruct (String.eqb_spec x a) as [->|Hn].
  - rewrite rm_str_In. tauto.
  - tauto. Qed.
Lemma remove_edge_preds g a b x y :
  In y (preds (remove_edge g a b) x) <-> In y (preds g x) /\ ~ (x = b /\ y = a).
Proof. rewrite remove_edge_preds_eq. destruct (String.eqb_spec x b) as [->|Hn].
  - rewrite rm_str_In. tauto.
  - tauto. Qed.
Lemma gwf_remove_edge g a b : gwf g -> In a (g_nodes g) -> In b (g_nodes g) -> gwf (remove_edge g a b).
Proof. intros H Ha Hb. constructor.
  - apply H.
  - simpl. rewrite set_keys_in; [apply H|]. rewrite (gwf_skeys g H); auto.
  - simpl. rewrite set_keys_in; [apply H|]. rewrite (gwf_pkeys g H); auto.
  - intros x y. rewrite remove_edge_succs, remove_edge_preds, (gwf_sym g H). tauto.
  - intros x. rewrite remove_edge_succs_eq. destruct (String.eqb x a); [apply rm_str_NoDup|]; apply H.
  - intros x. rewrite remove_edge_preds_eq. destruct (String.eqb x b); [apply rm_str_NoDup|]; apply H.
  - intros x y. rewrite remove_edge_succs. intros [Hs _]. apply (gwf_in g H); auto. Qed.

(* ---------- remove_node ---------- *)
Lemma remove_node_nodes g n x : In x (g_nodes (remove_node g n)) <-> In x (g_nodes g) /\ x <> n.
Proof. simpl. apply rm_str_In. Qed.
Lemma remove_node_succs_eq g n x :
  succs (remove_node g n) x = if String.eqb n x then [] else rm_str n (succs g x).
Proof. unfold succs. simpl. apply assoc_rm. Qed.
Lemma remove_node_preds_eq g n x :
  preds (remove_node g n) x = if String.eqb n x then [] else rm_str n (preds g x).
Proof. unfold preds. simpl. apply assoc_rm. Qed.
Lemma remove_node_succs g n x y :
  In y (succs (remove_node g n) x) <-> In y (succs g x) /\ x <> n /\ y <> n.
Proof. rewrite remove_node_succs_eq. destruct (String.eqb_spec n x) as [->|Hn].
  - simpl. tauto.
  - rewrite rm_str_In. split; [intros [H1 H2]|]; intuition congruence. Qed.
Lemma remove_node_preds g n x y :
  In y (preds (remove_node g n) x) <-> In y (preds g x) /\ x <> n /\ y <> n.
Proof. rewrite remove_node_preds_eq. destruct (String.eqb_spec n x) as [->|Hn].
  - simpl. tauto.
  - rewrite rm_str_In. split; [intros [H1 H2]|]; intuition congruence. Qed.
Lemma gwf_remove_node g n : gwf g -> gwf (remove_node g n).
Proof. intros H. constructor.
  - simpl. apply rm_str_NoDup, H.
  - simpl. rewrite keys_rm. f_equal. apply H.
  - simpl. rewrite keys_rm. f_equal. apply H.
  - intros x y. rewrite remove_node_succs, remove_node_preds, (gwf_sym g H). tauto.
  - intros x. rewrite remove_node_succs_eq. destruct (String.eqb n x); [constructor|apply rm_str_NoDup, H].
  - intros x. rewrite remove_node_preds_eq. destruct (String.eqb n x); [constructor|apply rm_str_NoDup, H].
  - intros x y. rewrite remove_node_succs, !remove_node_nodes. intros [Hs [H1 H2]].
    apply (gwf_in g H) in Hs. tauto. Qed.

(* ====================================================================== *)
(* paths, cycles, orders                                                   *)
(* ====================================================================== *)
(* non-empty paths along successor edges *)
Inductive gpath (g : graph) : string -> string -> Prop :=
| gp_edge a b : In b (succs g a) -> gpath g a b
| gp_step a b c : In b (succs g a) -> gpath g b c -> gpath g a c.
Definition acyclic (g : graph) : Prop := forall x, ~ gpath g x x.

Lemma gpath_trans g a b c : gpath g a b -> gpath g b c -> gpath g a c.
Proof. induction 1; intros; [eapply gp_step; eauto|]. eapply gp_step; eauto. Qed.
Lemma gpath_snoc g a b c : gpath g a b -> In c (succs g b) -> gpath g a c.
Proof. intros. eapply gpath_trans; eauto. apply gp_edge; auto. Qed.
Lemma gpath_sub g g' : (forall a b, In b (succs g' a) -> In b (succs g a)) ->
  forall a b, gpath g' a b -> gpath g a b.
Proof. intros Hs a b. induction 1; [apply gp_edge|eapply gp_step]; eauto. Qed.
Lemma acyclic_sub g g' : (forall a b, In b (succs g' a) -> In b (succs g a)) -> acyclic g -> acyclic g'.
Proof. intros Hs Ha x Hp. apply (Ha x). eapply gpath_sub; eauto. Qed.
Lemma gpath_nodes g a b : gwf g -> gpath g a b -> In a (g_nodes g) /\ In b (g_nodes g).
Proof. intros H. induction 1.
  - apply (gwf_in g H); auto.
  - apply (gwf_in g H) in H0. tauto. Qed.

(* paths as lists: consecutive elements are edges *)
Fixpoint chain (g : graph) (l : list string) : Prop :=
  match l with
  | a :: (b :: _) as t => In b (succs g a) /\ chain g t
  | _ => True
  end.
Lemma chain_app_inv g l1 l2 : chain g (l1 ++ l2) -> chain g l1 /\ chain g l2.
Proof. induction l1 as [|a l1 IH]; simpl; auto. destruct l1 as [|b l1]; simpl in *.
  - destruct l2; simpl; tauto.
  - intros [H1 H2]. apply IH in H2. tauto. Qed.
Lemma chain_gpath g x l y : chain g (x :: l ++ [y]) -> gpath g x y.
Proof. revert x. induction l as [|a l IH]; simpl; intros x [H1 H2].
  - apply gp_edge; auto.
  - eapply gp_step; eauto. Qed.
Lemma gpath_chain g x y : gpath g x y -> exists l, chain g (x :: l ++ [y]).
Proof. induction 1.
  - exists []. simpl. auto.
  - destruct IHgpath as [l Hl]. exists (b :: l). simpl. split; auto. Qed.
(* a chain that repeats a node contains a cycle *)
Lemma chain_repeat_cycle g l : chain g l -> ~ NoDup l -> exists x, gpath g x x.
Proof. intros Hc Hn. apply not_NoDup_split in Hn. destruct Hn as [x [l1 [l2 [l3 ->]]]].
  exists x. apply chain_app_inv in Hc. destruct Hc as [_ Hc].
  change (x :: l2 ++ x :: l3) with ((x :: l2) ++ x :: l3) in Hc.
  replace ((x :: l2) ++ x :: l3) with ((x :: l2 ++ [x]) ++ l3) in Hc
    by (simpl; rewrite <- app_assoc; auto).
  apply chain_app_inv in Hc. apply (chain_gpath g x l2 x). tauto. Qed.
(* a non-empty set of nodes each having a predecessor in the set contains a cycle *)
Lemma pred_closed_cycle g (S : string -> Prop) :
  (forall x, S x -> In x (g_nodes g)) ->
  (forall x, S x -> exists p, S p /\ In x (succs g p)) ->
  (exists x, S x) -> exists x, gpath g x x.
Proof. intros Hin Hp [x0 Hx0].
  assert (Hk : forall k, exists l, length l = Datatypes.S k /\ chain g l /\ forall x, In x l -> S x).
  { induction k.
    - exists [x0]. simpl. split; [auto|split; [auto|]]. intros x [<-|[]]; auto.
    - destruct IHk as [l [Hl [Hc Hs]]]. destruct l as [|x l]; [discriminate|].
      destruct (Hp x) as [p [Hp1 Hp2]]; [apply Hs; left; auto|].
      exists (p :: x :: l). split; [|split].
      + simpl in *. lia.
      + simpl. split; auto.
      + intros y [<-|Hy]; auto. }
  destruct (Hk (length (g_nodes g))) as [l [Hl [Hc Hs]]].
  apply (chain_repeat_cycle g l Hc).
  apply incl_longer_not_NoDup with (u := g_nodes g); [|lia].
  intros x Hx. apply Hin, Hs; auto. Qed.

(* l lists every x after all of rel x *)
Definition ordered_by (rel : string -> list string) (l : list string) : Prop :=
  forall l1 x l2, l = l1 ++ x :: l2 -> forall p, In p (rel x) -> In p l1.
Lemma ordered_by_nil rel : ordered_by rel [].
Proof. intros l1 x l2 H. destruct l1; discriminate. Qed.
Lemma ordered_by_snoc rel l x : ordered_by rel l -> incl (rel x) l -> ordered_by rel (l ++ [x]).
Proof. intros Ho Hi l1 y l2 E p Hp.
  destruct l2 as [|z l2] using rev_ind.
  - apply app_inj_tail in E. destruct E as [-> ->]. apply Hi; auto.
  - clear IHl2. change (l1 ++ y :: l2 ++ [z]) with (l1 ++ (y :: l2) ++ [z]) in E.
    rewrite app_assoc in E. apply app_inj_tail in E. destruct E as [-> ->].
    eapply Ho; eauto. Qed.
Lemma ordered_by_app_l rel l l' : ordered_by rel (l ++ l') -> ordered_by rel l.
Proof. intros Ho l1 x l2 -> p Hp. apply (Ho l1 x (l2 ++ l')); auto. rewrite <- app_assoc. auto. Qed.
Lemma ordered_by_incl rel l x : ordered_by rel l -> In x l -> incl (rel x) l.
Proof. intros Ho Hx p Hp. apply in_split in Hx. destruct Hx as [l1 [l2 ->]].
  apply in_or_app. left. eapply Ho; eauto. Qed.

(* position of the first occurrence *)
Fixpoint idx (x : string) (l : list string) : nat :=
  match l with [] => 0 | y :: t => if String.eqb x y then 0 else S (idx x t) end.
Lemma idx_lt x l : In x l -> idx x l < length l.
Proof. induction l; simpl; [tauto|]. intros H. destruct (String.eqb_spec x a); [lia|].
  destruct H; [congruence|]. apply IHl in H. lia. Qed.
Lemma idx_app_l x l l' : In x l -> idx x (l ++ l') = idx x l.
Proof. induction l; simpl; [tauto|]. intros H. destruct (String.eqb_spec x a); auto.
  destruct H; [congruence|]. f_equal; auto. Qed.
Lemma idx_app_r x l l' : ~ In x l -> idx x (l ++ l') = length l + idx x l'.
Proof. induction l; simpl; auto. intros H. destruct (String.eqb_spec x a); [subst; tauto|].
  f_equal. apply IHl. tauto. Qed.
Lemma idx_nth x l : In x l -> nth_error l (idx x l) = Some x.
Proof. induction l; simpl; [tauto|]. intros H. destruct (String.eqb_spec x a); [subst; auto|].
  simpl. apply IHl. destruct H; congruence. Qed.
Lemma in_split_first x (l : list string) : In x l -> exists l1 l2, l = l1 ++ x :: l2 /\ ~ In x l1.
Proof. induction l as [|a l IH]; simpl; [tauto|]. intros H.
  destruct (string_dec a x) as [->|Hn].
  - exists [], l. simpl. auto.
  - destruct IH as [l1 [l2 [-> Hni]]]; [destruct H; congruence|].
    exists (a :: l1), l2. simpl. split; auto. tauto. Qed.
Lemma ordered_by_idx rel l x p : ordered_by rel l -> In x l -> In p (rel x) -> idx p l < idx x l.
Proof. intros Ho Hx Hp. apply in_split_first in Hx. destruct Hx as [l1 [l2 [-> Hni]]].
  assert (Hin : In p l1) by (eapply Ho; eauto).
  rewrite (idx_app_l p l1), (idx_app_r x l1); auto. apply idx_lt in Hin. lia. Qed.
Lemma ordered_by_split rel l x p : ordered_by rel l -> In x l -> In p (rel x) ->
  exists l1 l2 l3, l = l1 ++ p :: l2 ++ x :: l3.
Proof. intros Ho Hx Hp. apply in_split in Hx. destruct Hx as [l1 [l3 ->]].
  assert (Hin : In p l1) by (eapply Ho; eauto). apply in_split in Hin. destruct Hin as [l0 [l2 ->]].
  exists l0, l2, l3. rewrite <- app_assoc. auto. Qed.

(* an order of all nodes along which every edge goes forward excludes cycles *)
Lemma ordered_acyclic g order :
  gwf g -> incl (g_nodes g) order -> ordered_by (preds g) order -> acyclic g.
Proof. intros H Hi Ho.
  assert (Hlt : forall a b, gpath g a b -> idx a order < idx b order).
  { induction 1.
    - apply (ordered_by_idx (preds g)); auto.
      + apply Hi. apply (gwf_in g H) in H0. tauto.
      + apply (gwf_sym g H); auto.
    - assert (idx a order < idx b order); [|lia].
      apply (ordered_by_idx (preds g)); auto.
      + apply Hi. apply (gwf_in g H) in H0. tauto.
      + apply (gwf_sym g H); auto. }
  intros x Hx. apply Hlt in Hx. lia. Qed.
