(* LD_make.v -- the processor built by make_processor from the final graph and attribute table: its
   units, find_unit, preds_of, succs_of, supports, has_rl/has_wl, the port lists, in terms of the graph
   and the attributes.  Reuses C12_desc.make_desc_spec and C12_loader.make_processor_unfold. *)
From Coq Require Import Lia Permutation ZArith.
From PS Require Import Base Str Sim Graph Loader Diag LoaderSpec Lists Graph_facts
  C12_lists C12_graph C12_desc C12_loader LD_base LD_create LD_clean.

(* ====================================================================== *)
(* mk_units                                                                *)
(* ====================================================================== *)
Lemma std_mem_spec creg : forall mem l, std_mem mem creg = Some l ->
  l = map (std creg) mem /\ forall c, In c mem -> mem_ic c creg = true.
Proof. induction mem as [|c t IH]; intros l; cbn [std_mem].
  - intros [= <-]. split; [auto|intros c []].
  - destruct (ic_find c creg) as [s|] eqn:E; [|discriminate].
    destruct (std_mem t creg) as [l0|]; [|discriminate]. intros [= <-].
    destruct (IH l0 eq_refl) as [I1 I2]. split.
    + simpl. rewrite (ic_find_std _ _ _ E), I1. auto.
    + intros x [<-|Hx]; auto. destruct (mem_ic c creg) eqn:Em; auto. apply ic_find_none in Em. congruence. Qed.
Lemma std_mem_some creg : forall mem, (forall c, In c mem -> mem_ic c creg = true) ->
  std_mem mem creg = Some (map (std creg) mem).
Proof. induction mem as [|c t IH]; intros H; cbn [std_mem map]; auto.
  destruct (ic_find_mem c creg (H c (or_introl eq_refl))) as [s E]. rewrite E, IH.
  - rewrite (ic_find_std _ _ _ E). auto.
  - intros x Hx. apply H. right; auto. Qed.

Definition the_unit (at_ : attrs) (creg : list string) (n : string) : unit :=
  mk_unit n (attr_of at_ n) (map (std creg) (a_mem (attr_of at_ n))).

Lemma mk_units_spec at_ creg : forall ns um, mk_units ns at_ creg = Some um ->
  um = map (fun n => (n, the_unit at_ creg n)) ns /\
  forall n c, In n ns -> In c (a_mem (attr_of at_ n)) -> mem_ic c creg = true.
Proof. induction ns as [|n t IH]; intros um; cbn [mk_units].
  - intros [= <-]. split; [auto|intros n c []].
  - destruct (std_mem _ creg) as [mem|] eqn:Em; [|discriminate].
    destruct (mk_units t at_ creg) as [l|]; [|discriminate]. intros [= <-].
    destruct (IH l eq_refl) as [I1 I2]. apply std_mem_spec in Em. destruct Em as [M1 M2]. split.
    + simpl. unfold the_unit at 1. rewrite <- M1, <- I1. auto.
    + intros x c [<-|Hx]; eauto. Qed.
Lemma mp_model_the_unit at_ creg ns um n : mk_units ns at_ creg = Some um -> In n ns ->
  mp_model um n = the_unit at_ creg n.
Proof. intros H Hn. apply mk_units_spec in H. destruct H as [-> _]. unfold mp_model.
  apply (assoc_map_self _ (the_unit at_ creg)); auto. Qed.

(* ====================================================================== *)
(* the four classes partition the nodes                                    *)
(* ====================================================================== *)
Lemma perm4 {A} (a b : A -> bool) l :
  Permutation l (filter (fun n => Bool.eqb (a n) false && Bool.eqb (b n) true) l ++
                 filter (fun n => Bool.eqb (a n) false && Bool.eqb (b n) false) l ++
                 filter (fun n => Bool.eqb (a n) true && Bool.eqb (b n) false) l ++
                 filter (fun n => Bool.eqb (a n) true && Bool.eqb (b n) true) l).
Proof. induction l as [|x l IH]; simpl; auto.
  destruct (a x), (b x); simpl.
  - rewrite !app_assoc. apply Permutation_cons_app. rewrite <- !app_assoc. auto.
  - rewrite app_assoc. apply Permutation_cons_app. rewrite <- app_assoc. auto.
  - constructor. auto.
  - apply Permutation_cons_app. auto. Qed.

(* ====================================================================== *)
(* make_processor                                                          *)
(* ====================================================================== *)
Definition the_funit (g : graph) (at_ : attrs) (creg : list string) (n : string) : funit :=
  {| f_model := the_unit at_ creg n; f_preds := sort_str (preds g n) |}.

Record made (g : graph) (at_ : attrs) (creg : list string) (P : proc) : Prop := {
  md_in : p_in P = map (the_unit at_ creg) (mp_cls g false true);
  md_inout : p_inout P = map (the_unit at_ creg) (mp_cls g false false);
  md_out : p_out P = isort funit_leb (map (the_funit g at_ creg) (mp_cls g true false));
  md_int : Permutation (p_int P) (map (the_funit g at_ creg) (mp_cls g true true));
  md_sink : sink_first (p_int P) [] = true;
  md_mem : forall n c, In n (g_nodes g) -> In c (a_mem (attr_of at_ n)) -> mem_ic c creg = true }.

Theorem make_processor_made g at_ creg P : gwf g -> make_processor g at_ creg = LoadOk P -> made g at_ creg P.
Proof. intros H. rewrite make_processor_unfold.
  destruct (mk_units (g_nodes g) at_ creg) as [um|] eqn:Eu; [|discriminate].
  destruct (make_desc _ _ _ _) as [P'|] eqn:Ed; [|discriminate]. intros [= ->].
  pose proof (mk_units_name _ _ _ _ Eu) as Hname.
  assert (Hm : forall i o, map (mp_model um) (mp_cls g i o) = map (the_unit at_ creg) (mp_cls g i o)).
  { intros i o. apply map_ext_in. intros n Hn. apply mp_cls_In in Hn.
    apply (mp_model_the_unit at_ creg (g_nodes g)); tauto. }
  assert (Hf : forall i o, map norm_funit (map (mp_fu g um) (mp_cls g i o)) = map (the_funit g at_ creg) (mp_cls g i o)).
  { intros i o. rewrite map_map. apply map_ext_in. intros n Hn. apply mp_cls_In in Hn.
    unfold norm_funit, mp_fu, the_funit. simpl. f_equal.
    apply (mp_model_the_unit at_ creg (g_nodes g)); tauto. }
  apply make_desc_spec in Ed.
  - destruct Ed as [D1 [D2 [D3 [D4 [D5 D6]]]]]. rewrite Hm in D1, D2. rewrite Hf in D3, D4.
    constructor; auto. apply (mk_units_spec _ _ _ _ Eu).
  - unfold fname. rewrite map_map. simpl. rewrite (map_ext _ (fun n => n)); [|intros n; apply Hname].
    rewrite map_id. apply NoDup_filter. apply H. Qed.

Section Made.
  Variables (g : graph) (at_ : attrs) (creg : list string) (P : proc).
  Hypothesis Hwf : gwf g.
  Hypothesis Hm : made g at_ creg P.

  Lemma the_unit_name n : u_name (the_unit at_ creg n) = n.
  Proof. reflexivity. Qed.
  Lemma the_funit_name n : u_name (f_model (the_funit g at_ creg n)) = n.
  Proof. reflexivity. Qed.

  Lemma made_names_perm : Permutation (unit_names P) (g_nodes g).
  Proof. unfold unit_names, all_units. rewrite !map_app.
    rewrite (md_in _ _ _ _ Hm), (md_inout _ _ _ _ Hm), (md_out _ _ _ _ Hm).
    apply Permutation_sym. eapply perm_trans; [apply (perm4 (fun n => 0 <? in_degree g n) (fun n => 0 <? out_degree g n))|].
    fold (mp_cls g false true) (mp_cls g false false) (mp_cls g true false) (mp_cls g true true).
    assert (E1 : forall l, map u_name (map (the_unit at_ creg) l) = l).
    { intros l. rewrite map_map. simpl. apply map_id. }
    assert (E2 : forall l, map u_name (map f_model (map (the_funit g at_ creg) l)) = l).
    { intros l. rewrite !map_map. simpl. apply map_id. }
    rewrite !E1. apply Permutation_app_head. apply Permutation_app_head. apply Permutation_app.
    - rewrite <- (E2 (mp_cls g true false)) at 1. apply Permutation_map. apply Permutation_map. apply isort_perm.
    - rewrite <- (E2 (mp_cls g true true)) at 1. apply Permutation_map. apply Permutation_map.
      apply Permutation_sym. apply (md_int _ _ _ _ Hm). Qed.
  Lemma made_names_In n : In n (unit_names P) <-> In n (g_nodes g).
  Proof. split; apply Permutation_in; [|apply Permutation_sym]; apply made_names_perm. Qed.
  Lemma made_names_NoDup : NoDup (unit_names P).
  Proof. eapply Permutation_NoDup; [apply Permutation_sym, made_names_perm|apply Hwf]. Qed.
  Lemma made_nunits : nunits P = length (g_nodes g).
  Proof. unfold nunits. rewrite <- (map_length u_name). apply Permutation_length. apply made_names_perm. Qed.

  Lemma made_funits f : In f (funits P) <->
    exists n, In n (g_nodes g) /\ preds g n <> [] /\ f = the_funit g at_ creg n.
  Proof. unfold funits. rewrite in_app_iff, (md_out _ _ _ _ Hm), isort_In.
    assert (K : forall o, In f (map (the_funit g at_ creg) (mp_cls g true o)) <->
                exists n, In n (g_nodes g) /\ preds g n <> [] /\ (0 <? out_degree g n) = o /\ f = the_funit g at_ creg n).
    { intros o. rewrite in_map_iff. split.
      - intros [n [<- Hn]]. apply mp_cls_In in Hn. destruct Hn as [H1 [H2 H3]]. exists n. split; auto. split; auto.
        unfold in_degree in H2. apply Nat.ltb_lt in H2. intros E. rewrite E in H2. simpl in H2. lia.
      - intros [n [H1 [H2 [H3 ->]]]]. exists n. split; auto. apply mp_cls_In. split; auto. split; auto.
        apply Nat.ltb_lt. unfold in_degree. destruct (preds g n); [congruence|simpl; lia]. }
    split.
    - intros [H|H].
      + apply K in H. destruct H as [n [H1 [H2 [_ H3]]]]. eauto.
      + apply (Permutation_in f (md_int _ _ _ _ Hm)) in H. apply K in H. destruct H as [n [H1 [H2 [_ H3]]]]. eauto.
    - intros [n [H1 [H2 H3]]]. destruct (0 <? out_degree g n) eqn:E.
      + right. apply (Permutation_in f (Permutation_sym (md_int _ _ _ _ Hm))). apply K. eauto.
      + left. apply K. eauto. Qed.

  Lemma made_ports u : In u (p_in P ++ p_inout P) <->
    exists n, In n (g_nodes g) /\ preds g n = [] /\ u = the_unit at_ creg n.
  Proof. rewrite in_app_iff, (md_in _ _ _ _ Hm), (md_inout _ _ _ _ Hm), !in_map_iff.
    assert (K : forall n o, In n (mp_cls g false o) <-> In n (g_nodes g) /\ preds g n = [] /\ (0 <? out_degree g n) = o).
    { intros n o. rewrite mp_cls_In. unfold in_degree. rewrite Nat.ltb_ge. split.
      - intros [H1 [H2 H3]]. split; auto. split; auto. destruct (preds g n); auto. simpl in H2. lia.
      - intros [H1 [H2 H3]]. rewrite H2. simpl. auto. }
    split.
    - intros [[n [<- H]]|[n [<- H]]]; apply K in H; exists n; tauto.
    - intros [n [H1 [H2 ->]]]. destruct (0 <? out_degree g n) eqn:E; [left|right]; exists n; split; auto;
        apply K; auto. Qed.

  Lemma made_all_units u : In u (all_units P) <-> exists n, In n (g_nodes g) /\ u = the_unit at_ creg n.
  Proof. unfold all_units. rewrite app_assoc, in_app_iff, <- map_app. fold (funits P). rewrite made_ports, in_map_iff.
    split.
    - intros [[n [H1 [H2 H3]]]|[f [<- Hf]]]; eauto. apply made_funits in Hf. destruct Hf as [n [H1 [H2 ->]]].
      exists n. auto.
    - intros [n [H1 ->]]. destruct (preds g n) eqn:E.
      + left. eauto.
      + right. exists (the_funit g at_ creg n). split; auto. apply made_funits. exists n. split; auto.
        split; auto. congruence. Qed.

  Lemma made_find_unit n : In n (g_nodes g) -> find_unit P n = Some (the_unit at_ creg n).
  Proof. intros Hn. unfold find_unit. destruct (find _ (all_units P)) as [u|] eqn:E.
    - apply find_some in E. destruct E as [E1 E2]. apply String.eqb_eq in E2.
      apply made_all_units in E1. destruct E1 as [m [_ ->]]. simpl in E2. subst. auto.
    - exfalso. assert (Hu : In (the_unit at_ creg n) (all_units P)) by (apply made_all_units; eauto).
      apply (find_none _ _ E) in Hu. simpl in Hu. rewrite String.eqb_refl in Hu. discriminate. Qed.
  Lemma made_find_unit_none n : ~ In n (g_nodes g) -> find_unit P n = None.
  Proof. intros Hn. unfold find_unit. destruct (find _ (all_units P)) as [u|] eqn:E; auto.
    apply find_some in E. destruct E as [E1 E2]. apply String.eqb_eq in E2.
    apply made_all_units in E1. destruct E1 as [m [Hm' ->]]. simpl in E2. subst. tauto. Qed.

  Lemma made_supports u c : supports P u c = true <-> In u (g_nodes g) /\ In c (caps_of at_ u).
  Proof. unfold supports. destruct (in_dec_str u (g_nodes g)) as [Hu|Hu].
    - rewrite made_find_unit by auto. simpl. rewrite mem_str_In, sort_str_In. unfold caps_of. tauto.
    - rewrite made_find_unit_none by auto. split; [discriminate|tauto]. Qed.
  Lemma made_has_rl u : has_rl P u = true <-> In u (g_nodes g) /\ a_rl (attr_of at_ u) = true.
  Proof. unfold has_rl. destruct (in_dec_str u (g_nodes g)) as [Hu|Hu].
    - rewrite made_find_unit by auto. simpl. tauto.
    - rewrite made_find_unit_none by auto. split; [discriminate|tauto]. Qed.
  Lemma made_has_wl u : has_wl P u = true <-> In u (g_nodes g) /\ a_wl (attr_of at_ u) = true.
  Proof. unfold has_wl. destruct (in_dec_str u (g_nodes g)) as [Hu|Hu].
    - rewrite made_find_unit by auto. simpl. tauto.
    - rewrite made_find_unit_none by auto. split; [discriminate|tauto]. Qed.
  Lemma made_has_rl_eq u : In u (g_nodes g) -> has_rl P u = a_rl (attr_of at_ u).
  Proof. intros Hu. unfold has_rl. rewrite made_find_unit by auto. reflexivity. Qed.
  Lemma made_has_wl_eq u : In u (g_nodes g) -> has_wl P u = a_wl (attr_of at_ u).
  Proof. intros Hu. unfold has_wl. rewrite made_find_unit by auto. reflexivity. Qed.

  Lemma made_preds_of u : preds_of P u = sort_str (preds g u).
  Proof. unfold preds_of. destruct (find _ (funits P)) as [f|] eqn:E.
    - apply find_some in E. destruct E as [E1 E2]. apply String.eqb_eq in E2.
      apply made_funits in E1. destruct E1 as [n [_ [_ ->]]]. simpl in E2. subst. reflexivity.
    - destruct (preds g u) as [|p ps] eqn:Ep; auto. exfalso.
      assert (Hu : In u (g_nodes g)).
      { apply (gwf_preds_in g Hwf p u). rewrite Ep. left; auto. }
      assert (Hf : In (the_funit g at_ creg u) (funits P)).
      { apply made_funits. exists u. split; auto. split; auto. congruence. }
      apply (find_none _ _ E) in Hf. simpl in Hf. rewrite String.eqb_refl in Hf. discriminate. Qed.
  Lemma made_preds_of_In u p : In p (preds_of P u) <-> In p (preds g u).
  Proof. rewrite made_preds_of. apply sort_str_In. Qed.
  Lemma made_succs_of_In u s : In s (succs_of P u) <-> In s (succs g u).
  Proof. unfold succs_of. rewrite in_map_iff. split.
    - intros [f [<- Hf]]. apply filter_In in Hf. destruct Hf as [H1 H2]. apply mem_str_In in H2.
      apply made_funits in H1. destruct H1 as [n [_ [_ ->]]]. simpl in *. rewrite sort_str_In in H2.
      apply (gwf_sym g Hwf). auto.
    - intros Hs. apply (gwf_sym g Hwf) in Hs. exists (the_funit g at_ creg s). split; auto.
      apply filter_In. split.
      + apply made_funits. exists s. split; [apply (gwf_preds_in g Hwf u s Hs)|]. split; auto.
        intros E. rewrite E in Hs. destruct Hs.
      + simpl. apply mem_str_In. rewrite sort_str_In. auto. Qed.

  Lemma made_out_names o : In o (out_names P) <-> In o (g_nodes g) /\ succs g o = [].
  Proof. unfold out_names. rewrite in_app_iff, (md_inout _ _ _ _ Hm), (md_out _ _ _ _ Hm).
    rewrite map_map. simpl. rewrite map_id.
    assert (K : forall i, In o (mp_cls g i false) <-> In o (g_nodes g) /\ (0 <? in_degree g o) = i /\ succs g o = []).
    { intros i. rewrite mp_cls_In. unfold out_degree. rewrite Nat.ltb_ge. split.
      - intros [H1 [H2 H3]]. split; auto. split; auto. destruct (succs g o); auto. simpl in H3. lia.
      - intros [H1 [H2 H3]]. rewrite H3. simpl. auto. }
    split.
    - intros [H|H].
      + apply K in H. tauto.
      + apply in_map_iff in H. destruct H as [f [<- H]]. apply isort_In, in_map_iff in H.
        destruct H as [n [<- H]]. simpl. apply K in H. tauto.
    - intros [H1 H2]. destruct (0 <? in_degree g o) eqn:E.
      + right. apply in_map_iff. exists (the_funit g at_ creg o). split; auto. apply isort_In, in_map_iff. exists o.
        split; auto. apply K. auto.
      + left. apply K. auto. Qed.
End Made.
