(* C16_text.v -- text-level facts for C16: split_char / join_tab / csv_line / print_table. *)
From Coq Require Import String Ascii List Lia Bool Arith.
From PS Require Import Base Bag Sim Cli Diag TextSpec.

(* ---------- no_char ---------- *)
Lemma no_char_app p a b : no_char p (a ++ b)%string = no_char p a && no_char p b.
Proof. induction a as [|c a IH]; simpl; auto. rewrite IH, andb_assoc. reflexivity. Qed.

Lemma no_char_weaken (p q : ascii -> bool) s :
  (forall c, q c = true -> p c = true) -> no_char p s = true -> no_char q s = true.
Proof.
  intros Hpq. induction s as [|c s IH]; simpl; auto.
  intros H. apply andb_true_iff in H. destruct H as [H1 H2].
  apply andb_true_iff. split; auto.
  destruct (q c) eqn:E; auto. rewrite (Hpq c E) in H1. discriminate.
Qed.

Definition isc (c : ascii) : ascii -> bool := fun x => Ascii.eqb x c.

Lemma field_ok_tab s : field_ok s = true -> no_char (isc TAB) s = true.
Proof. apply no_char_weaken. unfold isc. intros c ->. reflexivity. Qed.
Lemma field_ok_lf s : field_ok s = true -> no_char (isc LF) s = true.
Proof. apply no_char_weaken. unfold isc. intros c ->. rewrite orb_true_r. reflexivity. Qed.

(* ---------- split_char ---------- *)
Lemma split_char_nonnil c s : split_char c s <> [].
Proof.
  destruct s as [|a s]; simpl; [discriminate|].
  destruct (split_char c s); [discriminate|]. destruct (Ascii.eqb a c); discriminate.
Qed.

Lemma split_char_free c s : no_char (isc c) s = true -> split_char c s = [s].
Proof.
  induction s as [|a s IH]; simpl; auto.
  intros H. apply andb_true_iff in H. destruct H as [H1 H2]. rewrite (IH H2).
  unfold isc in H1. destruct (Ascii.eqb a c); [discriminate|reflexivity].
Qed.

Lemma split_char_sep c l rest : no_char (isc c) l = true ->
  split_char c (l ++ String c rest)%string = l :: split_char c rest.
Proof.
  induction l as [|a l IH]; intros H.
  - cbn [append split_char]. destruct (split_char c rest) eqn:E.
    + exfalso. eapply split_char_nonnil; eauto.
    + rewrite Ascii.eqb_refl. reflexivity.
  - cbn [no_char] in H. apply andb_true_iff in H. destruct H as [H1 H2].
    cbn [append split_char]. rewrite (IH H2).
    unfold isc in H1. destruct (Ascii.eqb a c); [discriminate|reflexivity].
Qed.

(* ---------- join_tab ---------- *)
Lemma join_tab_cons2 x y t : join_tab (x :: y :: t) = (x ++ String TAB (join_tab (y :: t)))%string.
Proof. reflexivity. Qed.

Lemma C16_fields_roundtrip_lemma :
  forall fields, fields <> [] -> forallb field_ok fields = true ->
    split_char TAB (join_tab fields) = fields.
Proof.
  induction fields as [|x t IH]; intros Hne H; [congruence|].
  cbn [forallb] in H. apply andb_true_iff in H. destruct H as [Hx Ht].
  destruct t as [|y t].
  - cbn [join_tab]. apply split_char_free. apply field_ok_tab; auto.
  - rewrite join_tab_cons2, split_char_sep by (apply field_ok_tab; auto).
    rewrite IH; auto. discriminate.
Qed.

Lemma join_tab_lf_free fields :
  forallb field_ok fields = true -> no_char (isc LF) (join_tab fields) = true.
Proof.
  induction fields as [|x t IH]; intros H; [reflexivity|].
  cbn [forallb] in H. apply andb_true_iff in H. destruct H as [Hx Ht].
  destruct t as [|y t].
  - cbn [join_tab]. apply field_ok_lf; auto.
  - rewrite join_tab_cons2, no_char_app. cbn [no_char].
    rewrite (field_ok_lf _ Hx), (IH Ht). reflexivity.
Qed.

(* ---------- decimal numerals ---------- *)
Definition badc (c : ascii) : bool :=
  Ascii.eqb c TAB || Ascii.eqb c LF || Ascii.eqb c (ascii_of_nat 13) || Ascii.eqb c """"%char.

Lemma digit_ok k : k < 10 -> badc (digit k) = false.
Proof. intros H. do 10 (destruct k as [|k]; [reflexivity|]). lia. Qed.

Lemma nat_to_str_aux_ok fuel : forall n acc,
  field_ok acc = true -> field_ok (nat_to_str_aux fuel n acc) = true.
Proof.
  induction fuel as [|f IH]; intros n acc H; [exact H|].
  cbn [nat_to_str_aux].
  assert (Hacc : field_ok (String (digit (n mod 10)) acc) = true).
  { unfold field_ok in *. cbn [no_char]. rewrite H, andb_true_r.
    fold (badc (digit (n mod 10))). rewrite digit_ok; auto.
    apply Nat.mod_upper_bound. discriminate. }
  destruct (n / 10 =? 0); auto.
Qed.
Lemma nat_to_str_ok n : field_ok (nat_to_str n) = true.
Proof. unfold nat_to_str. apply nat_to_str_aux_ok. reflexivity. Qed.

(* ---------- csv_line / print_table ---------- *)
Fixpoint sconcat (l : list string) : string :=
  match l with [] => EmptyString | x :: t => (x ++ sconcat t)%string end.

Lemma sapp_assoc (a b c : string) : ((a ++ b) ++ c = a ++ (b ++ c))%string.
Proof. induction a; simpl; congruence. Qed.
Lemma sapp_nil_r (a : string) : (a ++ "")%string = a.
Proof. induction a; simpl; congruence. Qed.

Lemma fold_append l : forall acc, fold_left append l acc = (acc ++ sconcat l)%string.
Proof.
  induction l as [|x t IH]; intros acc; simpl.
  - rewrite sapp_nil_r. reflexivity.
  - rewrite IH, sapp_assoc. reflexivity.
Qed.

Lemma fold_append_nil l : fold_left append l EmptyString = sconcat l.
Proof. rewrite fold_append. reflexivity. Qed.

Definition LFs : string := String LF EmptyString.

Lemma csv_line_cons2 a b t : csv_line (a :: b :: t) = (join_tab (a :: b :: t) ++ LFs)%string.
Proof. destruct a; reflexivity. Qed.
Lemma csv_line_head c s t : csv_line (String c s :: t) = (join_tab (String c s :: t) ++ LFs)%string.
Proof. reflexivity. Qed.

Lemma split_lines ls : Forall (fun l => no_char (isc LF) l = true) ls ->
  split_char LF (sconcat (map (fun l => (l ++ LFs)%string) ls)) = ls ++ [EmptyString].
Proof.
  induction 1 as [|l ls Hl Hls IH]; [reflexivity|].
  cbn [map sconcat]. unfold LFs at 1. rewrite sapp_assoc. cbn [append].
  rewrite split_char_sep by exact Hl. rewrite IH. reflexivity.
Qed.

Lemma C16_print_lines_lemma :
  forall rows, forallb (forallb field_ok) rows = true ->
    let T := fold_left Nat.max (map (@length string) rows) 0 in
    0 < T ->
    split_char LF (print_table rows)
    = map join_tab ((EmptyString :: map nat_to_str (seq 1 T))
                    :: map (fun ir => (("I" ++ nat_to_str (S (fst ir)))%string :: snd ir))
                           (combine (seq 0 (length rows)) rows))
      ++ [EmptyString].
Proof.
  intros rows Hrows T HT.
  unfold print_table. fold T. rewrite fold_append_nil.
  set (hdr := EmptyString :: map nat_to_str (seq 1 T)).
  set (body := map (fun ir => (("I" ++ nat_to_str (S (fst ir)))%string :: snd ir))
                   (combine (seq 0 (length rows)) rows)).
  assert (E : csv_line hdr
              :: map (fun ir => csv_line (("I" ++ nat_to_str (S (fst ir)))%string :: snd ir))
                     (combine (seq 0 (length rows)) rows)
              = map (fun l => (l ++ LFs)%string) (map join_tab (hdr :: body))).
  { cbn [map]. f_equal.
    - unfold hdr. destruct T as [|T']; [lia|]. cbn [seq map]. apply csv_line_cons2.
    - unfold body. rewrite !map_map. apply map_ext. intros ir. apply csv_line_head. }
  rewrite E. apply split_lines.
  apply Forall_forall. intros l Hl. apply in_map_iff in Hl. destruct Hl as [f [<- Hf]].
  apply join_tab_lf_free. destruct Hf as [<-|Hf].
  - unfold hdr. cbn [forallb]. apply forallb_forall. intros x Hx.
    apply in_map_iff in Hx. destruct Hx as [n [<- _]]. apply nat_to_str_ok.
  - unfold body in Hf. apply in_map_iff in Hf. destruct Hf as [[i r] [<- Hir]].
    cbn [fst snd forallb]. apply andb_true_iff. split.
    + pose proof (nat_to_str_ok (S i)) as H. unfold field_ok in *. cbn [append no_char].
      rewrite H. reflexivity.
    + apply in_combine_r in Hir. rewrite forallb_forall in Hrows. apply Hrows; auto.
Qed.
