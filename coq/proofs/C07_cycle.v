(* C07_cycle.v -- one cycle old -> r3: the invariants (U), freshness and duplicate-free keys are
   preserved, and the four C07 facts hold between the old and the new record. *)
From Coq Require Import Lia Permutation Sorted.
From PS Require Import Base Bag RegAccess Sim Diag Lists C07_lists C07_walk C07_step C07_parts.

Local Notation nm f := (u_name (f_model f)).

Section Cycle.
Variable P : proc.
Variable prog : list instr.
Hypothesis Hwf : wf_procb P = true.
Variable old : record.
Hypothesis HUold : U old.
Hypothesis Hkold : ukeys old.
Variable ent0 : nat.
Hypothesis HFold : FR old ent0.
Variables (qs : queues) (r1 r2 r3 : record) (busy : bool) (ent : nat) (cl : list (string * nat)).
Hypothesis E1 : mov_flights P prog old = (r1, busy).
Hypothesis E2 : fill_inputs (S (length prog)) prog (in_ports_sorted P) r1 busy ent0 = (r2, ent).
Hypothesis E3 : chk_hazards_units P old prog qs r2 [] = Ok (r3, cl).

Lemma Hnd : NoDup (unit_names P).
Proof. apply wf_nodup, Hwf. Qed.

Lemma mov_Inv : Inv P prog old (dn (funits P) []) (r1, busy).
Proof. rewrite <- E1. unfold mov_flights. apply (steps_Inv P prog Hnd old HUold).
  - apply flush_Inv; auto.
  - apply wf_okl; auto. Qed.

Lemma r1_old j k : loc r1 j k -> exists k', loc old j k'.
Proof. destruct mov_Inv as (_ & _ & H & _). apply H. Qed.

Lemma FR_r1 : FR r1 ent0.
Proof. intros k j H. destruct (r1_old _ _ H) as [k' H']. eapply HFold; eauto. Qed.

Lemma U_r1 : U r1.
Proof. destruct mov_Inv as (H & _). exact H. Qed.

Lemma inputs_props :
  U r2 /\ FR r2 ent /\
  (forall k i, loc r2 i k -> loc r1 i k \/ ent0 <= i) /\
  (forall k i, loc r1 i k -> loc r2 i k) /\
  (forall k, ~ In k (map u_name (in_ports_sorted P)) -> get r2 k = get r1 k).
Proof. eapply fill_inputs_props; eauto using U_r1, FR_r1. Qed.

Lemma loc_r3 i k : loc r3 i k <-> loc r2 i k.
Proof. unfold loc. rewrite (hazards_ixs _ _ _ _ _ _ _ _ E3). tauto. Qed.

Lemma cyc_inv : ukeys r3 /\ U r3 /\ FR r3 ent.
Proof. destruct inputs_props as (H1 & H2 & _). split; [|split].
  - destruct (hazards_get _ _ _ _ _ _ _ _ E3) as [K _]. unfold ukeys. rewrite K.
    pose proof (fill_inputs_ukeys prog (in_ports_sorted P) (S (length prog)) r1 busy ent0) as X.
    rewrite E2 in X. apply X. pose proof (mov_flights_ukeys P prog old Hkold) as Y.
    rewrite E1 in Y. exact Y.
  - destruct H1 as [A B]. split.
    + intros k. rewrite (hazards_ixs _ _ _ _ _ _ _ _ E3). apply A.
    + intros k1 k2 i X Y. apply loc_r3 in X, Y. eauto.
  - intros k i X. apply loc_r3 in X. eauto. Qed.

Lemma r3_r1 i k : loc r3 i k -> i < ent0 -> loc r1 i k.
Proof. intros H Hi. apply loc_r3 in H. destruct inputs_props as (_ & _ & X & _).
  destruct (X _ _ H); auto. lia. Qed.
Lemma r1_r3 i k : loc r1 i k -> loc r3 i k.
Proof. intros H. apply loc_r3. destruct inputs_props as (_ & _ & _ & X & _). auto. Qed.

(* a non-'D' entry of an output-boundary unit retires *)
Lemma cyc_out u i l :
  In (i, l) (get old u) -> l <> LD -> In u (out_names P) -> ~ loc r3 i u.
Proof. intros Hin Hl Hout H3.
  assert (Hlo : loc old i u) by (apply loc_In; eauto).
  assert (H1 : loc r1 i u) by (apply (r3_r1 i u H3); eapply HFold; eauto).
  pose proof (steps_mono P prog Hnd old HUold (funits P) [] (flush P old, false)
                (flush_Inv P prog old HUold) (wf_okl P Hwf) u i Hlo) as X.
  unfold mov_flights in E1. unfold funits in X. rewrite E1 in X. specialize (X H1). cbn [fst] in X.
  apply loc_In in X. destruct X as [l0 X]. rewrite flush_get in X.
  apply mem_str_In in Hout. rewrite Hout in X. apply filter_In in X. destruct X as [X1 X2].
  simpl in X2. assert (l0 = l) by (eapply U_label; eauto). subst.
  destruct l; simpl in X2; congruence. Qed.

(* staying after a non-'D' cycle means 'S' *)
Lemma cyc_label u i l l' :
  In (i, l) (get old u) -> l <> LD -> In (i, l') (get r3 u) -> l' = LS.
Proof. intros Hin Hl H3. eapply hazards_LS; eauto. unfold regs_loaded. apply existsb_exists.
  exists (i, l). split; auto. simpl. rewrite Nat.eqb_refl. destruct l; simpl; congruence. Qed.

(* the successors of a unit in which a non-'D' entry stayed *)
Lemma cyc_succ u i l s :
  In (i, l) (get old u) -> l <> LD -> loc r3 i u ->
  In s (succs_of P u) -> supports P s (cat_of prog i) = true ->
  (width_of P s <= length (get r3 s) \/
   (mem_needed P s (cat_of prog i) = true /\
    exists j k, j <> i /\ loc r3 j k /\ ~ loc old j k /\ mem_needed P k (cat_of prog j) = true)) /\
  (forall j, loc r3 j s -> i < j ->
     loc old j s \/ (mem_needed P s (cat_of prog i) = true /\ mem_needed P s (cat_of prog j) = false)).
Proof. intros Hin Hl Hl3 Hs Hsup.
  unfold succs_of in Hs. apply in_map_iff in Hs. destruct Hs as [f [<- Hf]].
  apply filter_In in Hf. destruct Hf as [Hf Hu]. apply mem_str_In in Hu.
  destruct (in_split f (funits P) Hf) as [l1 [l2 Hsp]].
  pose proof (wf_okl P Hwf) as Hok. rewrite Hsp in Hok. apply okl_app in Hok.
  destruct Hok as [Hok1 [Hokf Hok2]].
  pose proof (steps_Inv P prog Hnd old HUold l1 [] (flush P old, false)
                (flush_Inv P prog old HUold) Hok1) as HIb.
  destruct (fold_left (fill_unit prog) l1 (flush P old, false)) as [rb bb] eqn:Eb.
  pose proof (step_Inv P prog Hnd old HUold _ _ f HIb Hokf) as HIa.
  destruct (fill_unit prog (rb, bb) f) as [ra ba] eqn:Ea.
  assert (E1' : fold_left (fill_unit prog) l2 (ra, ba) = (r1, busy)).
  { rewrite <- E1. unfold mov_flights. change (p_out P ++ p_int P) with (funits P).
    rewrite Hsp, fold_left_app. simpl. rewrite Eb, Ea. reflexivity. }
  assert (Hlo : loc old i u) by (apply loc_In; eauto).
  assert (Hi0 : i < ent0) by (eapply HFold; eauto).
  assert (Hl1 : loc r1 i u) by (exact (r3_r1 i u Hl3 Hi0)).
  assert (Hla : loc ra i u).
  { pose proof (steps_mono P prog Hnd old HUold l2 _ (ra, ba) HIa Hok2 u i Hlo) as X.
    rewrite E1' in X. apply X; auto. }
  destruct HIb as (HUb & HSb & _ & _). cbn [fst snd] in *.
  pose proof Hokf as (_ & Hmd & Hnp & Hpre). destruct (Hpre u Hu) as [Hune Hud].
  destruct (fill_unit_char prog f rb bb ra ba HUb (okf_me P _ _ Hokf) Hnp Ea)
    as (M & used & Hb & G1 & G2 & G3 & G4 & G5 & G6).
  pose proof (loc_after rb f ra M G1 G2) as LA.
  apply LA in Hla. destruct Hla as [[X _]|[_ [Hlb HnM]]]; [contradiction|].
  apply loc_In in Hlb. destruct Hlb as [l0 Hl0].
  assert (Hl0' : In (i, l0) (get old u)) by (apply (HSb u Hud); auto).
  assert (l0 = l) by (exact (U_label old u i l0 l HUold Hl0' Hin)). subst l0.
  assert (Hv : valid prog f (i, l) = true).
  { unfold valid. simpl. apply andb_true_intro. split.
    - destruct l; try reflexivity; congruence.
    - unfold supports in Hsup. rewrite (find_unit_f P Hnd) in Hsup; auto. }
  destruct (G6 u (i, l) Hu Hl0 Hv) as [X|[HA HB]]; [simpl in X; contradiction|]. simpl in HA, HB.
  assert (Hs1 : get r1 (nm f) = get ra (nm f)).
  { pose proof (steps_keep P prog Hnd old HUold l2 _ (ra, ba) HIa Hok2 (nm f) (or_introl eq_refl)) as X.
    rewrite E1' in X. exact X. }
  assert (Hs2 : get r2 (nm f) = get r1 (nm f)).
  { destruct inputs_props as (_ & _ & _ & _ & X). apply X. intros Y. apply in_map_iff in Y.
    destruct Y as [u' [Eu Hu']]. apply isort_incl in Hu'. eapply in_port_not_funit; eauto. }
  assert (Hs3 : ixs r3 (nm f) = ixs ra (nm f)).
  { rewrite (hazards_ixs _ _ _ _ _ _ _ _ E3). unfold ixs. rewrite Hs2, Hs1. auto. }
  split.
  - destruct HA as [HA|[HA1 HA2]].
    + left. unfold width_of. rewrite (find_unit_f P Hnd); auto.
      assert (length (get r3 (nm f)) = length (get ra (nm f))).
      { rewrite <- (map_length fst (get r3 _)), <- (map_length fst (get ra _)).
        fold (ixs r3 (nm f)). fold (ixs ra (nm f)). rewrite Hs3. auto. }
      lia.
    + right. split; [rewrite (mem_needed_f P prog Hnd); auto|].
      pose proof (steps_flag prog l2 (ra, ba) HA2) as X. rewrite E1' in X. simpl in X.
      destruct mov_Inv as (_ & _ & _ & HG). destruct (HG X) as (k & j & _ & Hj1 & Hjo & Hjm).
      exists j, k. repeat split; auto; [|apply r1_r3; auto].
      intros ->. apply r1_r3 in Hj1. destruct cyc_inv as (_ & [_ UX] & _).
      rewrite (UX k u i Hj1 Hl3) in Hjo. tauto.
  - intros j Hj Hij. unfold loc in Hj. rewrite Hs3 in Hj. apply LA in Hj.
    destruct Hj as [[_ [Hj|Hj]]|[X _]]; [| |tauto].
    + left. apply loc_In in Hj. destruct Hj as [lj Hj]. apply loc_In. exists lj.
      apply (HSb (nm f) Hmd). auto.
    + destruct (HB j Hj) as [X|[X Y]]; [lia|right].
      rewrite !(mem_needed_f P prog Hnd); auto. Qed.
End Cycle.
