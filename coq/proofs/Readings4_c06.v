(* Readings4_c06.v -- Prop-level reading of C06: from the boolean checker C06_checkb (true of every model
   diagram, C06_issue_lemma) plus two invariants of every record of a model diagram (duplicate-free unit
   keys, every instruction in at most one unit) to the quantified statement of props/Readings4.v. *)
From Coq Require Import Lia Permutation Sorted.
From PS Require Import Base Bag RegAccess Sim Diag Readings_defs Readings4_defs Lists Run
  C06_lists C06_move C06_issue C06_proof C17_strord.

(* ---------- generic: sorted names ---------- *)
Lemma sleb_total a b : String.leb a b = true \/ String.leb b a = true.
Proof. destruct (String.compare a b) eqn:E.
  - left. apply sleb_iff. left. apply scompare_eq; auto.
  - left. apply sleb_iff; auto.
  - right. apply sleb_iff. right. apply scompare_gt_lt; auto. Qed.

Lemma SS_map {A B} (f : A -> B) (R : B -> B -> Prop) l :
  StronglySorted (fun a b => R (f a) (f b)) l -> StronglySorted R (map f l).
Proof. induction 1; simpl; constructor; auto. rewrite Forall_forall in *. intros x Hx.
  apply in_map_iff in Hx. destruct Hx as [w [<- Hw]]. auto. Qed.

(* in a list sorted by String.leb, everything strictly smaller than q comes before q *)
Lemma before_lt q : forall L, StronglySorted (fun a b => String.leb a b = true) L ->
  forall u, In u L -> String.ltb u q = true -> In u (before_name q L).
Proof. induction 1 as [|x t Hs IH Hall]; intros u Hin Hlt; [destruct Hin|]. simpl.
  destruct (String.eqb x q) eqn:E.
  - apply String.eqb_eq in E. subst x. exfalso. destruct Hin as [<-|Hin].
    + rewrite sltb_irrefl in Hlt. discriminate.
    + rewrite Forall_forall in Hall. apply Hall in Hin. apply sleb_iff in Hin. apply sltb_lt in Hlt.
      destruct Hin as [<-|Hin].
      * rewrite scompare_refl in Hlt. discriminate.
      * apply scompare_gt_lt in Hin. congruence.
  - destruct Hin as [<-|Hin]; [left; auto|right; apply IH; auto]. Qed.

Lemma ports_sorted P : StronglySorted (fun a b => String.leb a b = true) (in_ports_by_name P).
Proof. unfold in_ports_by_name, in_ports_sorted. apply SS_map.
  exact (isort_sorted unit_leb (fun a b => sleb_total _ _) (fun a b c => sleb_trans _ _ _) (p_inout P ++ p_in P)). Qed.

Lemma in_names_ports P u : In u (in_names P) -> In u (in_ports_by_name P).
Proof. unfold in_names, in_ports_by_name, in_ports_sorted. intros H. apply in_map_iff in H.
  destruct H as [w [<- Hw]]. apply in_map. apply (Permutation_in _ (isort_perm unit_leb _)).
  rewrite in_app_iff in *. tauto. Qed.

(* ---------- diagrams whose records have duplicate-free keys and place each instruction once ---------- *)
Section Diagram.
Variable d : diagram.
Hypothesis Hk : forall t, ukeys (rec_at d t).
Hypothesis Hu : forall t, uniq (rec_at d t).

Lemma shown_places t i u : shown d t i u -> exists l, In (u, l) (places (rec_at d t) i).
Proof. intros [l H]. unfold occ in H. exists l. unfold places. apply in_flat_map.
  exists (u, get (rec_at d t) u). split; [eapply get_in_rec; eauto|].
  cbn [fst snd]. apply in_map_iff. exists (i, l). split; auto. apply filter_In. split; auto.
  apply Nat.eqb_refl. Qed.

Lemma places_shown t i u l : In (u, l) (places (rec_at d t) i) -> shown d t i u.
Proof. intros H. unfold places in H. apply in_flat_map in H. destruct H as [[k es] [Hkv H]].
  cbn [fst snd] in H. apply in_map_iff in H. destruct H as [[j l'] [He1 He2]]. cbn [fst snd] in He1.
  inversion He1; subst. apply filter_In in He2. destruct He2 as [He2 He3]. cbn [fst] in He3.
  apply Nat.eqb_eq in He3. subst j. exists l. unfold occ. rewrite (get_ukeys _ _ _ (Hk t) Hkv). auto. Qed.

Lemma appears_shown t i : appears_in (rec_at d t) i = true <-> exists u, shown d t i u.
Proof. unfold appears_in. split.
  - destruct (places (rec_at d t) i) as [|[u l] tl] eqn:E; [discriminate|]. intros _. exists u.
    apply (places_shown t i u l). rewrite E. left; auto.
  - intros [u H]. apply shown_places in H. destruct H as [l H]. destruct (places _ i); [destruct H|auto]. Qed.

Lemma shown_lt t i u : shown d t i u -> t < length d.
Proof. intros [l H]. destruct (Nat.lt_ge_cases t (length d)); auto. unfold occ in H.
  rewrite rec_at_over in H by auto. destruct H. Qed.

Lemma shown_uniq t i u v : shown d t i u -> shown d t i v -> u = v.
Proof. intros [l1 H1] [l2 H2]. destruct (Hu t) as [_ U]. apply (U u v i); unfold ixs.
  - change i with (fst (i, l1)). apply in_map; auto.
  - change i with (fst (i, l2)). apply in_map; auto. Qed.

Lemma first_issued i t0 : first_cycle d i = Some t0 -> issued_at d i t0.
Proof. rewrite first_cycle_unfold. intros H. apply first_such_some in H. destruct H as [H1 [H2 H3]]. split.
  - apply appears_shown; auto.
  - intros t' u Ht Hs. assert (H : appears_in (rec_at d t') i = true) by (apply appears_shown; eauto).
    rewrite H3 in H by lia. discriminate. Qed.

Lemma issued_first i t0 : issued_at d i t0 -> first_cycle d i = Some t0.
Proof. intros [[u Hs] Hn]. rewrite first_cycle_unfold. apply first_such_intro.
  - apply shown_lt in Hs. lia.
  - apply appears_shown; eauto.
  - intros y Hy. destruct (appears_in (rec_at d y) i) eqn:E; auto. apply appears_shown in E.
    destruct E as [v Hv]. exfalso. apply (Hn y v); auto. lia. Qed.

Lemma first_none_shown i : first_cycle d i = None -> forall t u, ~ shown d t i u.
Proof. rewrite first_cycle_unfold. intros H t u Hs. pose proof (shown_lt _ _ _ Hs) as Hlt.
  assert (H0 : appears_in (rec_at d t) i = true) by (apply appears_shown; eauto).
  rewrite (first_such_none _ _ _ H t) in H0 by lia. discriminate. Qed.

Lemma first_appears i t0 : first_cycle d i = Some t0 -> appears d i = true.
Proof. intros H. pose proof (first_cycle_lt _ _ _ H) as Hlt. rewrite first_cycle_unfold in H.
  apply first_such_some in H. destruct H as [_ [H2 _]].
  unfold appears. apply existsb_exists. exists (rec_at d t0). split; [apply nth_In; auto|exact H2]. Qed.

Lemma mem_entries_enters P prog t k v : In (k, v) (mem_entries P prog d t) -> enters_mem P prog d t k v.
Proof. unfold mem_entries. intros H. apply in_flat_map in H. destruct H as [[u es] [Hkv H]]. cbn [fst snd] in H.
  apply in_flat_map in H. destruct H as [[j l] [He H]]. cbn [fst snd] in H.
  destruct (negb (has (prev_occ d t u) j) && mem_needed P u (cat_of prog j)) eqn:E; [|destruct H].
  destruct H as [H|[]]. inversion H; subst. apply andb_true_iff in E. destruct E as [E1 E2].
  apply negb_true_iff in E1. split; [|split]; auto.
  - exists l. unfold occ. rewrite (get_ukeys _ _ _ (Hk t) Hkv). auto.
  - intros [l' Hl']. assert (Hh : has (prev_occ d t v) k = true).
    { apply has_In. change k with (fst (k, l')). apply in_map; auto. }
    congruence. Qed.

(* ---------- reading the checker ---------- *)
Section Reading.
Variable P : proc.
Variable prog : list instr.
Hypothesis Hchk : C06_checkb P prog d = true.

Definition startv (i : nat) : option nat := match i with 0 => Some 0 | S i' => first_cycle d i' end.

Lemma instr_ok i : i < length prog -> C06_instr_ok P prog d i = true.
Proof. intros Hi. unfold C06_checkb in Hchk. rewrite forallb_forall in Hchk. apply Hchk. apply in_seq. lia. Qed.

Lemma ok_issued i t0 : i < length prog -> first_cycle d i = Some t0 ->
  exists s, startv i = Some s /\ s <= t0 /\
    (exists q l, place_at d t0 i = Some (q, l) /\ mem_str q (in_names P) = true /\
                 supports P q (cat_of prog i) = true /\ C06_first_ok P prog d i t0 q = true) /\
    forall t, s <= t < t0 -> C06_held_ok P prog d i t = true.
Proof. intros Hi Hf. pose proof (instr_ok i Hi) as H. unfold C06_instr_ok in H. cbv zeta in H.
  fold (startv i) in H. destruct (startv i) as [s|].
  - rewrite Hf in H. apply andb_true_iff in H. destruct H as [H H3]. apply andb_true_iff in H.
    destruct H as [H1 H2]. exists s. split; auto. split; [apply Nat.leb_le; auto|]. split.
    + destruct (place_at d t0 i) as [[q l]|]; [|discriminate]. exists q, l.
      apply andb_true_iff in H2. destruct H2 as [H2 H4]. apply andb_true_iff in H2. destruct H2. auto.
    + intros t Ht. rewrite forallb_forall in H3. apply H3. apply in_seq. lia.
  - rewrite (first_appears _ _ Hf) in H. discriminate. Qed.

Lemma ok_waiting i s : i < length prog -> startv i = Some s -> first_cycle d i = None ->
  forall t, s <= t < length d -> C06_held_ok P prog d i t = true.
Proof. intros Hi Hs Hf t Ht. pose proof (instr_ok i Hi) as H. unfold C06_instr_ok in H. cbv zeta in H.
  fold (startv i) in H. rewrite Hs, Hf in H. rewrite forallb_forall in H. apply H. apply in_seq. lia. Qed.

Lemma order_first i : i < length prog -> forall t0, first_cycle d i = Some t0 ->
  forall k, k < i -> exists tk, tk <= t0 /\ first_cycle d k = Some tk.
Proof. induction i as [|i IH]; intros Hi t0 Hf k Hki; [lia|].
  destruct (ok_issued (S i) t0 Hi Hf) as (s & Hs & Hle & _). cbn [startv] in Hs.
  destruct (Nat.eq_dec k i) as [->|Hne]; [eauto|].
  destruct (IH ltac:(lia) s Hs k ltac:(lia)) as (tk & H1 & H2). exists tk. split; [lia|auto]. Qed.

Lemma r_shown_issued i : forall t u, shown d t i u -> exists t0, t0 <= t /\ issued_at d i t0.
Proof. intros t u Hs. destruct (first_cycle d i) as [t0|] eqn:Ef.
  - exists t0. split; [|apply first_issued; auto].
    destruct (Nat.le_gt_cases t0 t); auto. exfalso.
    apply first_issued in Ef. destruct Ef as [_ Hn]. apply (Hn t u); auto.
  - exfalso. eapply first_none_shown; eauto. Qed.

Lemma r_order i : i < length prog ->
  forall t0 k, issued_at d i t0 -> k < i -> exists tk, tk <= t0 /\ issued_at d k tk.
Proof. intros Hi t0 k Hiss Hki. apply issued_first in Hiss.
  destruct (order_first i Hi t0 Hiss k Hki) as (tk & H1 & H2). exists tk. split; auto.
  apply first_issued; auto. Qed.

Lemma r_first i : i < length prog -> forall t0 q, issued_at d i t0 -> shown d t0 i q ->
  In q (in_names P) /\ supports P q (cat_of prog i) = true /\
  forall u, In u (in_names P) -> supports P u (cat_of prog i) = true -> String.ltb u q = true ->
    width_of P u <= length (filter (fun e => fst e <? i) (occ d t0 u))
    \/ (mem_needed P u (cat_of prog i) = true /\ exists k v, k < i /\ enters_mem P prog d t0 k v).
Proof. intros Hi t0 q Hiss Hsh. apply issued_first in Hiss.
  destruct (ok_issued i t0 Hi Hiss) as (s & _ & _ & (q' & l & Hpl & Hq1 & Hq2 & Hq3) & _).
  assert (Hq : q' = q).
  { unfold place_at in Hpl. destruct (places (rec_at d t0) i) as [|[a b] tl] eqn:E; [discriminate|].
    cbn [hd_error] in Hpl. inversion Hpl; subst. apply (shown_uniq t0 i); auto.
    apply (places_shown t0 i q' l). rewrite E. left; auto. }
  subst q'. split; [apply mem_str_In; auto|]. split; auto.
  intros u Hu1 Hu2 Hu3. unfold C06_first_ok in Hq3. rewrite forallb_forall in Hq3.
  specialize (Hq3 u (before_lt q _ (ports_sorted P) u (in_names_ports P u Hu1) Hu3)).
  rewrite Hu2 in Hq3. cbn [negb orb] in Hq3. apply orb_true_iff in Hq3. destruct Hq3 as [H|H].
  - left. apply Nat.leb_le; auto.
  - right. apply andb_true_iff in H. destruct H as [H1 H2]. split; auto.
    apply existsb_exists in H2. destruct H2 as [[k v] [H2 H3]]. cbn [fst] in H3. apply Nat.ltb_lt in H3.
    exists k, v. split; auto. apply mem_entries_enters; auto. Qed.

Lemma r_held i : i < length prog ->
  forall s t, next_from d i s -> s <= t -> t < length d -> (forall t' u, t' <= t -> ~ shown d t' i u) ->
  forall u, In u (in_names P) -> supports P u (cat_of prog i) = true ->
    width_of P u <= length (occ d t u)
    \/ (mem_needed P u (cat_of prog i) = true /\ exists k v, k <> i /\ enters_mem P prog d t k v).
Proof. intros Hi s t Hn Hst Ht Hns u Hu1 Hu2.
  assert (Hs : startv i = Some s).
  { destruct i as [|i']; unfold next_from in Hn; unfold startv; [congruence|apply issued_first; auto]. }
  assert (Hh : C06_held_ok P prog d i t = true).
  { destruct (first_cycle d i) as [t0|] eqn:Ef.
    - destruct (ok_issued i t0 Hi Ef) as (s' & Hs' & _ & _ & Hh). rewrite Hs in Hs'. inversion Hs'; subst s'.
      apply Hh. split; auto. destruct (Nat.lt_ge_cases t t0); auto. exfalso.
      apply first_issued in Ef. destruct Ef as [[v Hv] _]. apply (Hns t0 v); auto.
    - eapply ok_waiting; eauto. }
  unfold C06_held_ok in Hh. rewrite forallb_forall in Hh. specialize (Hh u (in_names_ports P u Hu1)).
  rewrite Hu2 in Hh. cbn [negb orb] in Hh. apply orb_true_iff in Hh. destruct Hh as [H|H].
  - left. apply Nat.leb_le. exact H.
  - right. apply andb_true_iff in H. destruct H as [H1 H2]. split; auto.
    destruct (mem_entries P prog d t) as [|[k v] tl] eqn:E; [discriminate|].
    assert (Hin : In (k, v) (mem_entries P prog d t)) by (rewrite E; left; auto).
    apply mem_entries_enters in Hin. exists k, v. split; auto.
    intros ->. destruct Hin as [[l Hl] _]. apply (Hns t v); auto. exists l; auto. Qed.
End Reading.
End Diagram.

(* ---------- every record of a model diagram: duplicate-free keys, each instruction in one unit ---------- *)
Lemma sim_records P prog fuel tg d : wf_procb P = true -> sim_result fuel P prog tg d ->
  forall t, ukeys (rec_at d t) /\ uniq (rec_at d t).
Proof. intros Hwf Hsim t.
  assert (H : simulate fuel P prog = Done d \/ simulate fuel P prog = Stalled d)
    by (destruct Hsim as [[_ H]|[_ H]]; auto).
  apply simulate_reach in H. destruct H as [s [Hr <-]].
  destruct (Nat.lt_ge_cases t (length (tbl s))) as [Hlt|Hge].
  - destruct (reach_tbl_prefix _ _ _ Hr t Hlt) as (s0 & s1 & H0 & H1 & H2 & _ & _ & H5).
    assert (Hr1 : reach P prog s1) by (eapply reach_step; eauto).
    pose proof (reach_Glob P prog s1 Hwf Hr1) as G. unfold rec_at. rewrite H5.
    split; [apply (g_keys _ _ _ _ G)|apply (g_uniq _ _ _ _ G)].
  - rewrite rec_at_over by auto. split; [constructor|apply uniq_nil]. Qed.

Section Final.
Variables (P : proc) (prog : list instr) (fuel : nat) (tg : dtag) (d : diagram).
Hypothesis Hwf : wf_procb P = true.
Hypothesis Hsim : sim_result fuel P prog tg d.

Let Hk : forall t, ukeys (rec_at d t) := fun t => proj1 (sim_records P prog fuel tg d Hwf Hsim t).
Let Hu : forall t, uniq (rec_at d t) := fun t => proj2 (sim_records P prog fuel tg d Hwf Hsim t).
Let Hchk : C06_checkb P prog d = true := C06_issue_lemma P prog fuel tg d Hwf Hsim.

Lemma C06_reading_shown_issued i :
  forall t u, shown d t i u -> exists t0, t0 <= t /\ issued_at d i t0.
Proof. exact (r_shown_issued d Hk i). Qed.

Lemma C06_reading_order i : i < length prog ->
  forall t0 k, issued_at d i t0 -> k < i -> exists tk, tk <= t0 /\ issued_at d k tk.
Proof. exact (r_order d Hk P prog Hchk i). Qed.

Lemma C06_reading_first i : i < length prog ->
  forall t0 q, issued_at d i t0 -> shown d t0 i q ->
    In q (in_names P) /\ supports P q (cat_of prog i) = true /\
    forall u, In u (in_names P) -> supports P u (cat_of prog i) = true -> String.ltb u q = true ->
      width_of P u <= length (filter (fun e => fst e <? i) (occ d t0 u))
      \/ (mem_needed P u (cat_of prog i) = true /\ exists k v, k < i /\ enters_mem P prog d t0 k v).
Proof. exact (r_first d Hk Hu P prog Hchk i). Qed.

Lemma C06_reading_held i : i < length prog ->
  forall s t, next_from d i s -> s <= t -> t < length d -> (forall t' u, t' <= t -> ~ shown d t' i u) ->
    forall u, In u (in_names P) -> supports P u (cat_of prog i) = true ->
      width_of P u <= length (occ d t u)
      \/ (mem_needed P u (cat_of prog i) = true /\ exists k v, k <> i /\ enters_mem P prog d t k v).
Proof. exact (r_held d Hk P prog Hchk i). Qed.
End Final.

Lemma C06_reading_lemma :
  forall (P : proc) (prog : list instr) (fuel : nat) (tg : dtag) (d : diagram),
    wf_procb P = true -> sim_result fuel P prog tg d ->
    forall i, i < length prog ->
      (forall t u, shown d t i u -> exists t0, t0 <= t /\ issued_at d i t0) /\
      (forall t0 k, issued_at d i t0 -> k < i -> exists tk, tk <= t0 /\ issued_at d k tk) /\
      (forall t0 q, issued_at d i t0 -> shown d t0 i q ->
         In q (in_names P) /\ supports P q (cat_of prog i) = true /\
         forall u, In u (in_names P) -> supports P u (cat_of prog i) = true -> String.ltb u q = true ->
           width_of P u <= length (filter (fun e => fst e <? i) (occ d t0 u))
           \/ (mem_needed P u (cat_of prog i) = true /\ exists k v, k < i /\ enters_mem P prog d t0 k v)) /\
      (forall s t, next_from d i s -> s <= t -> t < length d -> (forall t' u, t' <= t -> ~ shown d t' i u) ->
         forall u, In u (in_names P) -> supports P u (cat_of prog i) = true ->
           width_of P u <= length (occ d t u)
           \/ (mem_needed P u (cat_of prog i) = true /\ exists k v, k <> i /\ enters_mem P prog d t k v)).
Proof. intros P prog fuel tg d Hwf Hsim i Hi. split; [|split; [|split]].
  - eapply C06_reading_shown_issued; eauto.
  - eapply C06_reading_order; eauto.
  - eapply C06_reading_first; eauto.
  - eapply C06_reading_held; eauto. Qed.
