(* Exact4_c03_route.v -- the list-level heart of the exactness of C03_checkb: for a non-empty list of places
   (unit, label), the three route conjuncts of C03_instr_ok for a completed run
     segs_ok P cap true None (segments route) && nodupb (units of the segments) && last place = (output, U)
   hold exactly when clauses 3..7 of C03_route_prop hold of the route.
   Self-contained: model/, spec/Diag.v and the standard library only. *)
From Coq Require Import Lia.
From PS Require Import Base Bag RegAccess Sim Diag.

(* ---------- small facts ---------- *)
Lemma z_label_eqb (a b : label) : label_eqb a b = true <-> a = b.
Proof. destruct a, b; cbn; split; intros; congruence. Qed.

Lemma z_mem_str x l : mem_str x l = true <-> In x l.
Proof. unfold mem_str. rewrite existsb_exists. split.
  - intros [y [H1 H2]]. apply String.eqb_eq in H2. subst. auto.
  - intros H. exists x. split; auto. apply String.eqb_refl. Qed.

Lemma z_nodupb (l : list string) : nodupb String.eqb l = true <-> NoDup l.
Proof. induction l as [|a l IH]; cbn [nodupb].
  - split; auto. constructor.
  - rewrite andb_true_iff, negb_true_iff, IH. split.
    + intros [H1 H2]. constructor; auto. intros Hin. apply z_mem_str in Hin. unfold mem_str in Hin. congruence.
    + intros H. inversion H; subst. split; auto. destruct (existsb (String.eqb a) l) eqn:E; auto.
      exfalso. apply H2. apply z_mem_str. exact E. Qed.

Lemma z_last_cons {A} (x y : A) t d0 : last (x :: y :: t) d0 = last (y :: t) d0.
Proof. reflexivity. Qed.

Lemma z_last_map {A B} (g : A -> B) : forall l a, l <> [] -> last (map g l) (g a) = g (last l a).
Proof. induction l as [|x l IH]; intros a H; [congruence|]. destruct l as [|y l]; [reflexivity|].
  change (last (map g (x :: y :: l)) (g a)) with (last (map g (y :: l)) (g a)).
  rewrite z_last_cons. apply IH. discriminate. Qed.

Lemma z_last_nth {A} : forall (l : list A) d0, l <> [] -> nth_error l (length l - 1) = Some (last l d0).
Proof. induction l as [|x l IH]; intros d0 H; [congruence|]. destruct l as [|y l]; [reflexivity|].
  rewrite z_last_cons. rewrite <- (IH d0) by discriminate. cbn [length].
  replace (S (S (length l)) - 1) with (S (S (length l) - 1)) by lia. reflexivity. Qed.

(* ---------- segments: units = the unit list with adjacent repetitions merged ---------- *)
Fixpoint z_cmp (L : list string) : list string :=
  match L with
  | [] => []
  | u :: t => match t with
              | [] => [u]
              | u' :: _ => if String.eqb u u' then z_cmp t else u :: z_cmp t
              end
  end.

Lemma z_seg_cons u a t : segments ((u, a) :: t) =
  match segments t with
  | (u', ls) :: rest => if String.eqb u u' then (u, a :: ls) :: rest else (u, [a]) :: (u', ls) :: rest
  | [] => [(u, [a])]
  end.
Proof. reflexivity. Qed.

Lemma z_seg_head u a t : exists ls rest, segments ((u, a) :: t) = (u, a :: ls) :: rest.
Proof. rewrite z_seg_cons. destruct (segments t) as [|[u' ls] rest]; [eauto|]. destruct (String.eqb u u'); eauto. Qed.

Lemma z_seg_units l : map fst (segments l) = z_cmp (map fst l).
Proof. induction l as [|[u a] t IH]; [reflexivity|]. destruct t as [|[u' a'] t'].
  - reflexivity.
  - destruct (z_seg_head u' a' t') as (ls & rest & E). rewrite z_seg_cons. rewrite E in *.
    change (map fst ((u, a) :: (u', a') :: t')) with (u :: map fst ((u', a') :: t')).
    change (z_cmp (u :: map fst ((u', a') :: t')))
      with (if String.eqb u u' then z_cmp (map fst ((u', a') :: t')) else u :: z_cmp (map fst ((u', a') :: t'))).
    rewrite <- IH. destruct (String.eqb_spec u u'); [subst|]; reflexivity. Qed.

Lemma z_cmp_in L v : In v (z_cmp L) <-> In v L.
Proof. induction L as [|u t IH]; [tauto|]. destruct t as [|u' t'].
  - tauto.
  - change (z_cmp (u :: u' :: t')) with (if String.eqb u u' then z_cmp (u' :: t') else u :: z_cmp (u' :: t')).
    destruct (String.eqb_spec u u') as [->|Hne].
    + rewrite IH. cbn [In]. tauto.
    + cbn [In] in *. rewrite IH. tauto. Qed.

(* ---------- no revisit = duplicate-free merged unit list ---------- *)
Definition z_norev (L : list string) : Prop :=
  forall k m u, k < m -> nth_error L k = Some u -> nth_error L m = Some u ->
    forall j, k <= j <= m -> nth_error L j = Some u.

Lemma z_norev_tl u t : z_norev (u :: t) -> z_norev t.
Proof. intros H k m v Hkm Hk Hm j Hj. apply (H (S k) (S m) v ltac:(lia) Hk Hm (S j)). lia. Qed.

Lemma z_norev_nodup L : z_norev L <-> NoDup (z_cmp L).
Proof. induction L as [|u t IH]; [split; [constructor|intros _ k m v _ Hk; destruct k; discriminate]|].
  destruct t as [|u' t'].
  - split; [intros _; repeat constructor; auto|]. intros _ k m v Hkm Hk Hm. destruct m; [lia|]. destruct m; discriminate.
  - change (z_cmp (u :: u' :: t')) with (if String.eqb u u' then z_cmp (u' :: t') else u :: z_cmp (u' :: t')).
    destruct (String.eqb_spec u u') as [<-|Hne].
    + rewrite <- IH. split; [apply z_norev_tl|]. intros H k m v Hkm Hk Hm j Hj.
      destruct k as [|k].
      * cbn [nth_error] in Hk. inversion Hk; subst v. destruct j as [|j]; [reflexivity|].
        destruct m as [|m]; [lia|]. cbn [nth_error] in Hm |- *.
        destruct m as [|m]; [replace j with 0 by lia; reflexivity|].
        apply (H 0 (S m) u ltac:(lia) eq_refl Hm j). lia.
      * destruct m as [|m]; [lia|]. destruct j as [|j]; [lia|]. cbn [nth_error] in Hk, Hm |- *.
        apply (H k m v ltac:(lia) Hk Hm j). lia.
    + split.
      * intros H. constructor; [|apply IH; eapply z_norev_tl; eauto].
        rewrite z_cmp_in. intros Hin. apply In_nth_error in Hin. destruct Hin as [m Hm].
        pose proof (H 0 (S m) u ltac:(lia) eq_refl Hm 1 ltac:(lia)) as H1. cbn in H1. congruence.
      * intros H. apply NoDup_cons_iff in H. destruct H as [Hni Hnd]. apply IH in Hnd. rewrite z_cmp_in in Hni.
        intros k m v Hkm Hk Hm j Hj. destruct m as [|m]; [lia|]. cbn [nth_error] in Hm. destruct k as [|k].
        -- cbn [nth_error] in Hk. inversion Hk; subst v. exfalso. apply Hni. eapply nth_error_In; eauto.
        -- destruct j as [|j]; [lia|]. cbn [nth_error] in Hk |- *. apply (Hnd k m v ltac:(lia) Hk Hm j). lia. Qed.

(* ---------- the label discipline and the links ---------- *)
Section Route.
Variable P : proc.
Variable cap : string.

Definition z_ltrans (a b : label) : Prop := (a = LD /\ b <> LS) \/ (a <> LD /\ b = LS).
Definition z_link (x y : string * label) : Prop :=
  (fst x = fst y /\ z_ltrans (snd x) (snd y)) \/
  (fst x <> fst y /\ snd x <> LD /\ snd y <> LS /\ In (fst x) (preds_of P (fst y))).
Fixpoint z_chain (l : list (string * label)) : Prop :=
  match l with
  | x :: ((y :: _) as t) => z_link x y /\ z_chain t
  | _ => True
  end.
(* the labels of a unit segment from some place on: a suffix of D* U S* containing the U, or only S *)
Definition z_headok (a : label) (ls : list label) : bool :=
  match a with LS => all_lab LS ls | _ => seg_ok true ls end.

Lemma z_headok_one a : z_headok a [a] = true <-> a <> LD.
Proof. destruct a; cbn; split; intros; congruence. Qed.

Lemma z_headok_step a b lbs :
  z_headok a (a :: b :: lbs) = true <-> (z_ltrans a b /\ z_headok b (b :: lbs) = true).
Proof. unfold z_ltrans. destruct a, b; cbn [z_headok seg_ok all_lab label_eqb andb]; split;
  try (intros H; split; [|exact H]; (left; split; congruence) || (right; split; congruence));
  try (intros [_ H]; exact H); try discriminate; try (intros [[[? ?]|[? ?]] _]; congruence). Qed.

Lemma z_segok_head b lbs : seg_ok true (b :: lbs) = true <-> (b <> LS /\ z_headok b (b :: lbs) = true).
Proof. destruct b; cbn [z_headok seg_ok]; split; try discriminate; try (intros [? ?]; congruence);
  try (intros H; split; [discriminate|exact H]); try (intros [_ H]; exact H). Qed.

Lemma z_segs_ok_cons prev u ls t :
  segs_ok P cap true prev ((u, ls) :: t) =
  supports P u cap
  && match prev with None => mem_str u (in_names P) | Some p => mem_str p (preds_of P u) end
  && seg_ok true ls && segs_ok P cap true (Some u) t.
Proof. destruct t; reflexivity. Qed.

Lemma z_main : forall t y, exists lbs rest,
  segments (y :: t) = (fst y, snd y :: lbs) :: rest /\
  ((supports P (fst y) cap = true /\ z_headok (snd y) (snd y :: lbs) = true
    /\ segs_ok P cap true (Some (fst y)) rest = true)
   <-> (z_chain (y :: t) /\ (forall x, In x (y :: t) -> supports P (fst x) cap = true)
        /\ snd (last (y :: t) (EmptyString, LD)) <> LD)).
Proof. induction t as [|y' t' IH]; intros [u a].
  - exists [], []. split; [reflexivity|]. cbn [fst snd last z_chain segs_ok]. rewrite z_headok_one. split.
    + intros (H1 & H2 & _). split; auto. split; auto. intros x [<-|[]]. exact H1.
    + intros (_ & H1 & H2). split; [apply (H1 (u, a)); left; auto|]. auto.
  - destruct (IH y') as (lbs & rest & E & Hiff). destruct y' as [v b]. cbn [fst snd] in *.
    rewrite z_seg_cons, E. rewrite z_last_cons.
    change (z_chain ((u, a) :: (v, b) :: t')) with (z_link (u, a) (v, b) /\ z_chain ((v, b) :: t')).
    unfold z_link. cbn [fst snd].
    destruct (String.eqb_spec u v) as [<-|Hne].
    + exists (b :: lbs), rest. split; [reflexivity|]. rewrite z_headok_step. split.
      * intros (H1 & (H2 & H3) & H4). destruct (proj1 Hiff (conj H1 (conj H3 H4))) as (G1 & G2 & G3).
        split; [split; auto|]. split; auto. intros x [<-|Hx]; auto.
      * intros ((Hl & G1) & G2 & G3). destruct Hl as [[_ Hl]|[Hl _]]; [|congruence].
        destruct (proj2 Hiff (conj G1 (conj (fun x Hx => G2 x (or_intror Hx)) G3))) as (H1 & H3 & H4).
        auto.
    + exists [], ((v, b :: lbs) :: rest). split; [reflexivity|].
      rewrite z_headok_one, z_segs_ok_cons, !andb_true_iff, z_segok_head, z_mem_str. split.
      * intros (H1 & H2 & (((H3 & H4) & (H5 & H6)) & H7)).
        destruct (proj1 Hiff (conj H3 (conj H6 H7))) as (G1 & G2 & G3).
        split; [split; auto; right; auto|]. split; auto. intros x [<-|Hx]; auto.
      * intros ((Hl & G1) & G2 & G3). destruct Hl as [[Hl _]|(_ & Hl1 & Hl2 & Hl3)]; [congruence|].
        destruct (proj2 Hiff (conj G1 (conj (fun x Hx => G2 x (or_intror Hx)) G3))) as (H1 & H3 & H4).
        split; [apply (G2 (u, a)); left; auto|]. split; auto. Qed.

Lemma z_segs_ok_iff x t :
  segs_ok P cap true None (segments (x :: t)) = true <->
  (In (fst x) (in_names P) /\ snd x <> LS /\ z_chain (x :: t)
   /\ (forall y, In y (x :: t) -> supports P (fst y) cap = true)
   /\ snd (last (x :: t) (EmptyString, LD)) <> LD).
Proof. destruct (z_main t x) as (lbs & rest & E & Hiff). rewrite E, z_segs_ok_cons.
  rewrite !andb_true_iff, z_segok_head, z_mem_str. split.
  - intros (((H1 & H2) & (H3 & H4)) & H5). destruct (proj1 Hiff (conj H1 (conj H4 H5))) as (G1 & G2 & G3). auto.
  - intros (H2 & H3 & G). destruct (proj2 Hiff G) as (H1 & H4 & H5). auto. Qed.

Lemma z_chain_nth l : z_chain l <->
  forall k x y, nth_error l k = Some x -> nth_error l (S k) = Some y -> z_link x y.
Proof. induction l as [|a l IH]; [split; [intros _ k x y H; destruct k; discriminate|intros _; exact I]|].
  destruct l as [|b l].
  - split; [|cbn; auto]. intros _ k x y _ H. destruct k; discriminate.
  - change (z_chain (a :: b :: l)) with (z_link a b /\ z_chain (b :: l)). rewrite IH. split.
    + intros [H1 H2] k x y Hx Hy. destruct k as [|k].
      * cbn in Hx, Hy. inversion Hx; inversion Hy; subst; auto.
      * apply (H2 k); auto.
    + intros H. split; [apply (H 0); reflexivity|]. intros k x y Hx Hy. apply (H (S k)); auto. Qed.

(* clauses 3..7 of C03_route_prop, for capability cap *)
Definition z_clauses (route : list (string * label)) : Prop :=
  (exists u0 l0, hd_error route = Some (u0, l0) /\ In u0 (in_names P) /\ l0 <> LS) /\
  (forall k u l, nth_error route k = Some (u, l) -> supports P u cap = true) /\
  (forall k u l u' l', nth_error route k = Some (u, l) -> nth_error route (S k) = Some (u', l') ->
     (u = u' /\ ((l = LD /\ l' <> LS) \/ (l <> LD /\ l' = LS)))
     \/ (u <> u' /\ l <> LD /\ l' <> LS /\ In u (preds_of P u'))) /\
  (forall k m u l l', k < m -> nth_error route k = Some (u, l) -> nth_error route m = Some (u, l') ->
     forall j, k <= j <= m -> exists l'', nth_error route j = Some (u, l'')) /\
  (exists u, last route (EmptyString, LD) = (u, LU) /\ In u (out_names P)).

Definition z_route_checkb (route : list (string * label)) : bool :=
  segs_ok P cap true None (segments route)
  && nodupb String.eqb (map fst (segments route))
  && match last route (EmptyString, LD) with (u, l) => mem_str u (out_names P) && label_eqb l LU end.

Lemma z_nth_fst (route : list (string * label)) k u :
  nth_error (map fst route) k = Some u <-> exists l, nth_error route k = Some (u, l).
Proof. rewrite nth_error_map. destruct (nth_error route k) as [[v l]|]; cbn; split.
  - intros H. inversion H; subst. eauto.
  - intros [l' H]. inversion H; subst. reflexivity.
  - discriminate.
  - intros [l' H]. discriminate. Qed.

Lemma z_norev_route (route : list (string * label)) :
  z_norev (map fst route) <->
  (forall k m u l l', k < m -> nth_error route k = Some (u, l) -> nth_error route m = Some (u, l') ->
     forall j, k <= j <= m -> exists l'', nth_error route j = Some (u, l'')).
Proof. split.
  - intros H k m u l l' Hkm Hk Hm j Hj. apply z_nth_fst. apply (H k m u Hkm); auto; apply z_nth_fst; eauto.
  - intros H k m u Hkm Hk Hm j Hj. apply z_nth_fst in Hk, Hm. destruct Hk as [l Hk], Hm as [l' Hm].
    apply z_nth_fst. eapply H; eauto. Qed.

Theorem z_route_exact route : route <> [] -> (z_route_checkb route = true <-> z_clauses route).
Proof. intros Hne. destruct route as [|x t]; [congruence|]. unfold z_route_checkb, z_clauses.
  rewrite !andb_true_iff, z_segs_ok_iff, z_nodupb, z_seg_units, <- z_norev_nodup, z_norev_route, z_chain_nth.
  set (R := x :: t) in *. split.
  - intros ((H1 & H2) & H3). destruct H1 as (A1 & A2 & A3 & A4 & A5).
    split; [|split; [|split; [|split]]].
    + exists (fst x), (snd x). subst R. destruct x; cbn. auto.
    + intros k u l Hk. apply (A4 (u, l)). eapply nth_error_In; eauto.
    + intros k u l u' l' Hk Hk'. apply (A3 k (u, l) (u', l') Hk Hk').
    + exact H2.
    + destruct (last R (EmptyString, LD)) as [u l]. apply andb_true_iff in H3. destruct H3 as [G1 G2].
      apply z_label_eqb in G2. apply z_mem_str in G1. subst l. eauto.
  - intros ((u0 & l0 & B1 & B2 & B3) & B4 & B5 & B6 & (uo & B7 & B8)).
    split; [split; auto|].
    + subst R. destruct x as [xu xl]. cbn in B1. inversion B1; subst. cbn [fst snd].
      split; auto. split; auto. split; [|split].
      * intros k [u l] [u' l'] Hk Hk'. apply (B5 k u l u' l' Hk Hk').
      * intros [u l] Hy. apply In_nth_error in Hy. destruct Hy as [k Hk]. apply (B4 k u l Hk).
      * rewrite B7. cbn. discriminate.
    + rewrite B7. apply andb_true_iff. split; [apply z_mem_str; auto|reflexivity]. Qed.

End Route.
