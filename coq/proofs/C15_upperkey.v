(* C15_upperkey.v -- the repaired load_isa (/repo 8da1782) detects duplicate mnemonics on the UPPER-cased form, the key
   the instruction set is stored under; model/Isa.v detects them through ic_find (lower-cased form, as the code did
   before the repair).  On the model's characters the two tests are the same test, so Isa.create_isa is also a model
   of the repaired code.  (For Python's own str.upper they differ exactly on the letters the model leaves alone -
   sharp s, micro sign, dotless i ... - which is the defect D4 of DESIGN.md.) *)
From Coq Require Import Ascii.
From PS Require Import Base Str Isa.

Lemma all_ascii (P : ascii -> Prop) :
  (forall b0 b1 b2 b3 b4 b5 b6 b7, P (Ascii b0 b1 b2 b3 b4 b5 b6 b7)) -> forall c, P c.
Proof. intros H [b0 b1 b2 b3 b4 b5 b6 b7]. apply H. Qed.

Lemma lower_upper_ascii c : lower_ascii (upper_ascii c) = lower_ascii c.
Proof. revert c. apply all_ascii. intros [] [] [] [] [] [] [] []; vm_compute; reflexivity. Qed.
Lemma upper_lower_ascii c : upper_ascii (lower_ascii c) = upper_ascii c.
Proof. revert c. apply all_ascii. intros [] [] [] [] [] [] [] []; vm_compute; reflexivity. Qed.

Lemma lower_upper s : lower (upper s) = lower s.
Proof. induction s as [|c s IH]; cbn; [reflexivity|]. rewrite lower_upper_ascii. unfold lower, upper in IH. rewrite IH. reflexivity. Qed.
Lemma upper_lower s : upper (lower s) = upper s.
Proof. induction s as [|c s IH]; cbn; [reflexivity|]. rewrite upper_lower_ascii. unfold lower, upper in IH. rewrite IH. reflexivity. Qed.

Lemma upper_eq_iff_lower_eq a b : upper a = upper b <-> lower a = lower b.
Proof.
  split; intros H.
  - rewrite <- (lower_upper a), <- (lower_upper b), H. reflexivity.
  - rewrite <- (upper_lower a), <- (upper_lower b), H. reflexivity.
Qed.

Lemma upper_eqb_ic_eqb a b : String.eqb (upper a) (upper b) = ic_eqb a b.
Proof.
  unfold ic_eqb. destruct (String.eqb_spec (upper a) (upper b)) as [E|E];
    destruct (String.eqb_spec (lower a) (lower b)) as [F|F]; try reflexivity.
  - apply upper_eq_iff_lower_eq in E. contradiction.
  - apply upper_eq_iff_lower_eq in F. contradiction.
Qed.

(* the registry of the repaired code: IndexedSet keyed by raw_str.upper(); first stored spelling *)
Fixpoint upper_find (x : string) (l : list string) : option string :=
  match l with [] => None | y :: t => if String.eqb (upper x) (upper y) then Some y else upper_find x t end.

Lemma upper_find_ic_find x l : upper_find x l = ic_find x l.
Proof. induction l as [|y t IH]; cbn; [reflexivity|]. rewrite upper_eqb_ic_eqb, IH. reflexivity. Qed.

(* _create_isa of the repaired code, transliterated *)
Fixpoint create_isa_upperkey (spec : list (string * string)) (caps : list string) (instrs : list string) : isa_res :=
  match spec with
  | [] => IsaOk []
  | (ins, cap) :: t =>
      match upper_find ins instrs with
      | Some old => IsaErr (IsaDup old ins)
      | None =>
          match ic_find cap caps with
          | None => IsaErr (IsaUndefCap cap)
          | Some std =>
              match create_isa_upperkey t caps (instrs ++ [ins]) with
              | IsaOk m => IsaOk ((upper ins, std) :: m)
              | IsaErr e => IsaErr e
              end
          end
      end
  end.

Lemma create_isa_upperkey_eq_lemma : forall spec caps instrs,
  create_isa_upperkey spec caps instrs = create_isa spec caps instrs.
Proof.
  induction spec as [|[ins cap] t IH]; intros caps instrs; cbn [create_isa_upperkey create_isa]; [reflexivity|].
  rewrite upper_find_ic_find. destruct (ic_find ins instrs); [reflexivity|].
  destruct (ic_find cap caps); [|reflexivity]. rewrite IH. reflexivity.
Qed.

(* and the entries of an accepted instruction set are pairwise distinct keys: one entry per declared instruction *)
Lemma create_isa_keys_lemma : forall spec caps instrs m,
  create_isa spec caps instrs = IsaOk m -> map fst m = map (fun r => upper (fst r)) spec.
Proof.
  induction spec as [|[ins cap] t IH]; intros caps instrs m H; cbn in H.
  - inversion H; reflexivity.
  - destruct (ic_find ins instrs); [discriminate|]. destruct (ic_find cap caps); [|discriminate].
    destruct (create_isa t caps (instrs ++ [ins])) eqn:E; [|discriminate]. inversion H; subst. cbn. f_equal. eapply IH; eauto.
Qed.
