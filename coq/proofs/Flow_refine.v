(* Flow_refine.v -- the detailed flow check (model/Flow.v) reports what Loader.chk_flow reports on the graphs
   the loader passes: assembly of the stage characterisations. *)
From Coq Require Import Lia Permutation.
From PS Require Import Base Str Sim Graph Loader Flow FlowSpec Lists Graph_facts
  Flow_refine_str Flow_refine_graph Flow_refine_stages Flow_refine_split Flow_refine_caps.

(* ====================================================================== *)
(* facts on the loader's graph                                             *)
(* ====================================================================== *)
Section G.
  Variable g : graph.
  Hypothesis Hg : gwf g.
  Hypothesis Hac : acyclic g.
  Let outs := filter (fun n => out_degree g n =? 0) (g_nodes g).

  Lemma outs_In o : In o outs <-> In o (g_nodes g) /\ succs g o = [].
  Proof. unfold outs. rewrite filter_In, Nat.eqb_eq. unfold out_degree. rewrite length_zero_nil. tauto. Qed.
  Lemma node_reaches_out x : In x (g_nodes g) -> exists o, In o outs /\ rpath (succs g) x o.
  Proof. intros Hx. destruct (reach_sink g x Hg Hac Hx) as [y [H1 H2]]. exists y. split; auto.
    apply outs_In. split; auto. eapply rpath_nodes; eauto. Qed.
  Lemma single_out_not_in o p : 1 < length (g_nodes g) -> outs = [o] -> In p (g_nodes g) -> in_degree g p = 0 ->
    p <> o.
  Proof. intros Hlen Ho Hp Hd E. subst o.
    assert (Hq : exists q, In q (g_nodes g) /\ q <> p).
    { pose proof (gwf_nodup g Hg) as Hnd. destruct (g_nodes g) as [|x [|y t]]; simpl in Hlen; try lia.
      inversion Hnd; subst. destruct (string_dec x p) as [->|Hn].
      - exists y. split; [right; left; auto|]. intros ->. apply H1. left; auto.
      - exists x. split; [left; auto|auto]. }
    destruct Hq as [q [Hq Hne]]. destruct (node_reaches_out q Hq) as [o [Ho1 Ho2]].
    rewrite Ho in Ho1. destruct Ho1 as [<-|[]].
    inversion Ho2; subst; [congruence|].
    apply (gwf_sym g Hg) in H0. apply length_zero_nil in Hd. unfold in_degree in Hd. rewrite Hd in H0. destruct H0. Qed.
End G.

(* ====================================================================== *)
(* the stages up to aug_out_ports                                          *)
(* ====================================================================== *)
Lemma aug_out_ports_other a ports : (forall p, ports <> [p]) -> aug_out_ports a ports = unify_ports a ports.
Proof. intros H. destruct ports as [|p [|q t]]; auto. exfalso. apply (H p). auto. Qed.

Section Setup.
  Variable g : graph.
  Variable at_ : attrs.
  Variable c : string.
  Hypothesis Hg : gwf g.
  Hypothesis Hdag : is_dag g = true.
  Hypothesis Hlen : 1 < length (g_nodes g).
  Hypothesis Hw : forall n, In n (g_nodes g) -> 0 < a_width (attr_of at_ n).
  Let outs := filter (fun n => out_degree g n =? 0) (g_nodes g).
  Let cg := cap_graph g at_ c.
  Let idx := aidx cg.
  Let a0 := anal_graph cg at_.
  Let Hcg : gwf cg := cap_graph_gwf g at_ c.
  Let Hac : acyclic g := proj1 (is_dag_acyclic g Hg) Hdag.
  Let N := length (g_nodes cg).

  Lemma cg_node n : In n (g_nodes cg) <-> In n (g_nodes g).
  Proof. apply cap_graph_nodes; auto. Qed.
  Lemma outs_nodes o : In o outs -> In o (g_nodes g).
  Proof. intros H. apply (outs_In g) in H. tauto. Qed.
  Lemma idx_node n : In n (g_nodes g) -> In (idx n) (g_nodes (ag a0)).
  Proof. intros H. unfold a0. rewrite anal_nodes by auto. apply aidx_in. apply cg_node; auto. Qed.
  Lemma idx_inj x y : In x (g_nodes g) -> In y (g_nodes g) -> idx x = idx y -> x = y.
  Proof. intros Hx Hy. apply aidx_inj; apply cg_node; auto. Qed.
  Lemma a0_pos x : In x (g_nodes (ag a0)) -> 0 < aw a0 x.
  Proof. intros H. unfold a0 in H. rewrite anal_nodes in H by auto. apply aidx_surj in H; auto.
    destruct H as [n [Hn ->]]. unfold a0. rewrite anal_aw by auto. apply Hw, cg_node; auto. Qed.
  Lemma a0_preds_nil p : In p (g_nodes g) -> in_degree g p = 0 -> forall x, ~ In (idx p) (succs (ag a0) x).
  Proof. intros Hp Hd x Hx. apply anal_succs in Hx; auto. destruct Hx as [x0 [y0 [H1 [H2 H3]]]].
    pose proof (gwf_in _ Hcg _ _ H1) as [H4 H5]. apply idx_inj in H3; auto; [|apply cg_node; auto]. subst y0.
    apply (gwf_sym _ Hcg) in H1. unfold cg in H1. rewrite cap_graph_preds_nil in H1; auto. Qed.

  (* abstract reachability = reachability in a0 *)
  Lemma reach_abs_a0 p o : In p (g_nodes g) -> In o (g_nodes g) ->
    (rpath (cap_succs g at_ c) p o <-> rpath (succs (ag a0)) (idx p) (idx o)).
  Proof. intros Hp Ho. rewrite (rpath_ext (cap_succs g at_ c) (succs cg)).
    - apply anal_rpath; auto; apply cg_node; auto.
    - intros x y. apply cap_graph_cap_succs; auto. Qed.

  Record stage1 (ins : list string) (a1 : agraph) (u : string) : Prop := {
    s1_gwf : gwf (ag a1);
    s1_below : forall x, In x (g_nodes (ag a1)) -> exists j, j < length (g_nodes (ag a1)) /\ x = nid j;
    s1_pos : forall x, In x (g_nodes (ag a1)) -> 0 < aw a1 x;
    s1_u : In u (g_nodes (ag a1));
    s1_idx : forall n, In n (g_nodes g) -> In (idx n) (g_nodes (ag a1));
    s1_reach : forall p, In p (g_nodes g) ->
       (rpath (succs (ag a1)) (idx p) u <-> exists o, In o outs /\ rpath (succs (ag a0)) (idx p) (idx o));
    s1_neq : forall p, In p ins -> idx p <> u;
    s1_deg : forall p, In p (g_nodes g) -> in_degree g p = 0 -> in_degree (ag a1) (idx p) = 0 }.

  Lemma a0_below x : In x (g_nodes (ag a0)) -> exists j, j < length (g_nodes (ag a0)) /\ x = nid j.
  Proof. unfold a0. rewrite anal_nodes by auto. rewrite map_length, seq_length. apply in_nids. Qed.

  Lemma stage1_holds ins :
    (forall p, In p ins -> In p (g_nodes g) /\ in_degree g p = 0) ->
    stage1 ins (fst (aug_out_ports a0 (map idx outs))) (snd (aug_out_ports a0 (map idx outs))).
  Proof. intros Hins.
    assert (Hga0 : gwf (ag a0)) by (apply anal_gwf; auto).
    destruct (node_reaches_out g Hg Hac) with (x := hd EmptyString (g_nodes g)) as [o1 [Ho1 _]].
    { destruct (g_nodes g); simpl in *; [lia|auto]. }
    fold outs in Ho1.
    destruct (list_eq_dec string_dec outs [o1]) as [E1|E1].
    - (* a single output port *)
      rewrite E1. simpl. constructor; auto.
      + apply a0_below.
      + apply a0_pos.
      + apply idx_node, outs_nodes; auto.
      + apply idx_node.
      + intros p Hp. split; [intros H; exists o1; split; auto|].
        intros [o [Ho H]]. rewrite E1 in Ho. destruct Ho as [<-|[]]. auto.
      + intros p Hp E. destruct (Hins p Hp) as [H1 H2]. apply idx_inj in E; auto; [|apply outs_nodes; auto].
        revert E. apply (single_out_not_in g Hg Hac); auto.
      + intros p Hp Hd. apply length_zero_nil. apply nil_no_In. intros x Hx.
        apply (gwf_sym _ Hga0) in Hx. revert Hx. apply a0_preds_nil; auto.
    - (* several: a new node *)
      rewrite aug_out_ports_other.
      2:{ intros p E. destruct outs as [|o [|o2 t]]; try discriminate. destruct Ho1 as [<-|[]]. auto. }
      set (ports := map idx outs).
      assert (Hports : incl ports (g_nodes (ag a0))).
      { intros x Hx. apply in_map_iff in Hx. destruct Hx as [o [<- Ho]]. apply idx_node, outs_nodes; auto. }
      assert (Hu0 : ~ In (nid (length (g_nodes (ag a0)))) (g_nodes (ag a0))).
      { intros Hc. apply a0_below in Hc. destruct Hc as [j [Hj E]]. apply nid_inj in E. lia. }
      destruct (unify_spec a0 ports Hga0 Hports Hu0) as [U1 [U2 [U3 [U4 [U5 U6]]]]].
      set (u := nid (length (g_nodes (ag a0)))) in *.
      set (a1 := fst (unify_ports a0 ports)) in *. rewrite U1.
      assert (Hnu : forall x, In x (g_nodes (ag a0)) -> x <> u) by (intros x Hx ->; auto).
      constructor; auto.
      + intros x Hx. rewrite U3 in Hx. rewrite U3, app_length. cbn [length].
        apply in_snoc in Hx. destruct Hx as [Hx| ->].
        * apply a0_below in Hx. destruct Hx as [j [Hj ->]]. exists j. split; auto. lia.
        * exists (length (g_nodes (ag a0))). split; auto. lia.
      + intros x Hx. rewrite U3 in Hx. apply in_snoc in Hx. destruct Hx as [Hx| ->].
        * rewrite U5 by auto. apply a0_pos; auto.
        * assert (Hp1 : In (idx o1) ports) by (apply in_map; auto).
          pose proof (U6 _ Hp1). pose proof (a0_pos _ (Hports _ Hp1)). lia.
      + rewrite U3. apply in_snoc; auto.
      + intros n Hn. rewrite U3. apply in_snoc. left. apply idx_node; auto.
      + intros p Hp. assert (Hs : In (idx p) (g_nodes (ag a0))) by (apply idx_node; auto). split.
        * intros Hr.
          assert (G : forall z, rpath (succs (ag a1)) (idx p) z ->
                       (z <> u /\ rpath (succs (ag a0)) (idx p) z) \/
                       (z = u /\ exists x, In x ports /\ rpath (succs (ag a0)) (idx p) x)).
          { clear Hr. intros z Hr. induction Hr as [|s y z Hr IH Hz].
            - left. split; auto. apply rp_refl.
            - apply U4 in Hz. destruct (IH Hs) as [[Hy Hp0]|[Hy _]].
              + destruct Hz as [Hz|[Hz ->]].
                * left. split; [apply Hnu; apply (gwf_in _ Hga0) in Hz; tauto|]. eapply rp_step; eauto.
                * right. split; auto. eauto.
              + subst y. exfalso. destruct Hz as [Hz|[Hz _]].
                * apply (gwf_in _ Hga0) in Hz. tauto.
                * auto. }
          destruct (G u Hr) as [[Hc _]|[_ [x [Hx Hp0]]]]; [congruence|].
          apply in_map_iff in Hx. destruct Hx as [o [<- Ho]]. eauto.
        * intros [o [Ho Hr]]. eapply rp_step.
          -- eapply rpath_incl; [|apply Hr]. intros x y Hxy. apply U4. auto.
          -- apply U4. right. split; auto. apply in_map; auto.
      + intros p Hp. apply Hnu. apply idx_node. apply Hins; auto.
      + intros p Hp Hd. apply length_zero_nil. apply nil_no_In. intros x Hx.
        apply (gwf_sym _ U2) in Hx. apply U4 in Hx. destruct Hx as [Hx|[_ Hx]].
        * revert Hx. apply a0_preds_nil; auto.
        * revert Hx. apply Hnu. apply idx_node; auto. Qed.

  (* ====================================================================== *)
  (* one port                                                                *)
  (* ====================================================================== *)
  Definition reaches_out (p : string) : bool :=
    existsb (fun o => mem_str o (reach_from (S (length (g_nodes g))) (cap_succs g at_ c) [p] [p])) outs.
  Lemma reaches_out_spec p : In p (g_nodes g) ->
    (reaches_out p = true <-> exists o, In o outs /\ rpath (cap_succs g at_ c) p o).
  Proof. intros Hp. unfold reaches_out. rewrite existsb_exists.
    assert (G : forall o, mem_str o (reach_from (S (length (g_nodes g))) (cap_succs g at_ c) [p] [p]) = true
                          <-> rpath (cap_succs g at_ c) p o).
    { intros o. rewrite mem_str_In. apply reach_from_graph; auto.
      intros y z Hz. unfold cap_succs in Hz. destruct (has_cap at_ c y); [|destruct Hz].
      apply filter_In in Hz. tauto. }
    split; intros [o [H1 H2]]; exists o; split; auto; apply G; auto. Qed.

  Section Port.
    Variable ins : list string.
    Variables a1 a2 : agraph.
    Variable u : string.
    Variable m : list (string * string).
    Hypothesis Hins : forall p, In p ins -> In p (g_nodes g) /\ in_degree g p = 0.
    Hypothesis H1 : stage1 ins a1 u.
    Hypothesis H2 : sinv a1 (g_nodes (ag a1)) a2 m.
    Let a := dist_edge_caps a2.
    Let t := assoc u m u.

    Lemma flow_no_error p : In p ins ->
      String.eqb (idx p) t || negb (has_node (ag a) (idx p)) || negb (has_node (ag a) t) = false.
    Proof. intros Hp. destruct (Hins p Hp) as [Hp1 Hp2].
      assert (Hs : In (idx p) (g_nodes (ag a1))) by (apply (s1_idx _ _ _ H1); auto).
      assert (E1 : String.eqb (idx p) t = false).
      { apply String.eqb_neq. apply (split_out_neq a1 (s1_below _ _ _ H1) a2 m H2); auto.
        - apply (s1_u _ _ _ H1).
        - apply (s1_neq _ _ _ H1); auto. }
      assert (E2 : has_node (ag a) (idx p) = true).
      { apply has_node_In. apply (split_old_node a1 a2 m H2); auto. }
      assert (E3 : has_node (ag a) t = true).
      { apply has_node_In. apply (split_out_node a1 a2 m H2). apply (s1_u _ _ _ H1). }
      rewrite E1, E2, E3. reflexivity. Qed.

    Lemma flow_caps_positive x y k : capacity a x y = Some k -> 0 < k.
    Proof. apply capacity_pos; [apply (si_gwf _ _ _ _ H2)|apply (si_pos _ _ _ _ H2)]. Qed.

    Lemma flow_no_unbounded p : In p ins ->
      mem_str t (reach_from (S (length (g_nodes (ag a)))) (inf_succs a) [idx p] [idx p]) = false.
    Proof. intros Hp. destruct (Hins p Hp) as [Hp1 Hp2].
      assert (Hs : In (idx p) (g_nodes (ag a1))) by (apply (s1_idx _ _ _ H1); auto).
      assert (Hd : in_degree (ag a1) (idx p) = 0) by (apply (s1_deg _ _ _ H1); auto).
      apply mem_str_false. intros Hc.
      apply (reach_from_graph (ag a)) in Hc.
      - apply rpath_stuck in Hc.
        + revert Hc. apply not_eq_sym. apply (split_out_neq a1 (s1_below _ _ _ H1) a2 m H2); auto.
          * apply (s1_u _ _ _ H1).
          * apply (s1_neq _ _ _ H1); auto.
        + apply inf_succs_source.
          * apply (split_old_node a1 a2 m H2); auto.
          * apply (split_preds_nil a1 (s1_gwf _ _ _ H1) (s1_below _ _ _ H1) a2 m H2); auto.
          * apply (split_out_degree a1 a2 m H2); auto.
      - apply (si_gwf _ _ _ _ H2).
      - apply (split_old_node a1 a2 m H2); auto.
      - intros y z Hz. unfold inf_succs in Hz. apply filter_In in Hz. tauto. Qed.

    Lemma flow_reach_preserved p : In p ins ->
      (mem_str t (reach_from (S (length (g_nodes (ag a)))) (pos_succs a) [idx p] [idx p]) = true
       <-> reaches_out p = true).
    Proof. intros Hp. destruct (Hins p Hp) as [Hp1 Hp2].
      assert (Hs : In (idx p) (g_nodes (ag a1))) by (apply (s1_idx _ _ _ H1); auto).
      rewrite mem_str_In, (reach_from_graph (ag a)).
      - rewrite (rpath_ext (pos_succs a) (succs (ag a2))).
        2:{ intros x y. apply pos_succs_all; [apply (si_gwf _ _ _ _ H2)|apply (si_pos _ _ _ _ H2)]. }
        unfold t. fold (outm m u).
        rewrite (split_rpath a1 (s1_gwf _ _ _ H1) (s1_below _ _ _ H1) a2 m H2) by (auto; apply (s1_u _ _ _ H1)).
        rewrite (s1_reach _ _ _ H1) by auto. rewrite reaches_out_spec by auto.
        split; intros [o [Ho Hr]]; exists o; split; auto; apply reach_abs_a0; auto; apply outs_nodes; auto.
      - apply (si_gwf _ _ _ _ H2).
      - apply (split_old_node a1 a2 m H2); auto.
      - intros y z Hz. unfold pos_succs in Hz. apply filter_In in Hz. tauto. Qed.

    Lemma flow_port_res p : In p ins ->
      max_flow_res a (idx p) t = if reaches_out p then FlowPositive else FlowZero.
    Proof. intros Hp. unfold max_flow_res. rewrite flow_no_error, flow_no_unbounded by auto.
      pose proof (flow_reach_preserved p Hp) as Hr.
      destruct (mem_str t _); destruct (reaches_out p); auto.
      - destruct Hr as [Hr _]. specialize (Hr eq_refl). discriminate.
      - destruct Hr as [_ Hr]. specialize (Hr eq_refl). discriminate. Qed.
  End Port.

  Lemma first_bad_abs (res : string -> flow_res) l :
    (forall p, In p l -> res p = if reaches_out p then FlowPositive else FlowZero) ->
    first_bad c (map (fun p => (p, res p)) l) = flow_abs (chk_flow g at_ c outs l).
  Proof. induction l as [|p l IH]; intros H; [reflexivity|].
    cbn [map first_bad chk_flow]. rewrite (H p) by (left; auto). fold (reaches_out p).
    destruct (reaches_out p); [|reflexivity]. apply IH. intros q Hq. apply H. right; auto. Qed.

  Lemma flow_check_refines_section ins :
    (forall p, In p ins -> In p (g_nodes g) /\ in_degree g p = 0) ->
    chk_flow_detailed g at_ c outs ins = flow_abs (chk_flow g at_ c outs ins).
  Proof. intros Hins. unfold chk_flow_detailed, port_flows, flow_setup.
    fold cg. change (fun n => nid (index_of (g_nodes cg) n 0)) with idx. fold a0.
    pose proof (stage1_holds ins Hins) as S1.
    destruct (aug_out_ports a0 (map idx outs)) as [a1 u]. simpl in S1.
    pose proof (split_nodes_sinv a1 (s1_gwf _ _ _ S1) (s1_below _ _ _ S1) (s1_pos _ _ _ S1)) as S2.
    destruct (split_nodes a1) as [a2 m]. simpl in S2.
    apply first_bad_abs. intros p Hp. apply (flow_port_res ins a1 a2 u m Hins S1 S2 p Hp). Qed.
End Setup.

Lemma flow_check_refines_lemma :
  forall (g : graph) (at_ : attrs) (c : string) (outs ins : list string),
    gwf g -> is_dag g = true -> 1 < length (g_nodes g) ->
    (forall n, In n (g_nodes g) -> 0 < a_width (attr_of at_ n)) ->
    outs = filter (fun n => out_degree g n =? 0) (g_nodes g) ->
    (forall p, In p ins -> In p (g_nodes g) /\ in_degree g p = 0 /\ has_cap at_ c p = true) ->
    chk_flow_detailed g at_ c outs ins = flow_abs (chk_flow g at_ c outs ins).
Proof. intros g at_ c outs ins Hg Hdag Hlen Hw -> Hins.
  apply flow_check_refines_section; auto. intros p Hp. destruct (Hins p Hp) as [H1 [H2 _]]. auto. Qed.
