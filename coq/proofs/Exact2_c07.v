(* Exact2_c07 -- the checker C07_checkb decides exactly the Prop-level statement C07_prop on every diagram of
   the decodable shape (duplicate-free unit keys per record, duplicate-free instruction indices per unit
   list).  No further hypothesis is needed.  Uses only model/, spec/, proofs/Lists.v, proofs/Exact_c04.v. *)
From Coq Require Import Lia.
From PS Require Import Base Bag RegAccess Sim Diag Lists Readings_defs Exact_defs Exact2_defs Exact_c04.

(* ---------- small bridges ---------- *)
Lemma y_label_eqb (a b : label) : label_eqb a b = true <-> a = b.
Proof. destruct a, b; cbn [label_eqb]; split; intros H; try reflexivity; try discriminate. Qed.

Lemma y_occ_rec (d : diagram) t u e : In e (occ d t u) -> In (u, occ d t u) (rec_at d t).
Proof. unfold occ. apply x_get_In. Qed.

Lemma y_rec_at_nonempty (d : diagram) t x : In x (rec_at d t) -> t < length d.
Proof. intros H. destruct (Nat.lt_ge_cases t (length d)) as [Ht|Ht]; auto.
  rewrite x_rec_at_over in H; auto. destruct H. Qed.

Lemma y_occ_nodup (d : diagram) t u : diagram_shape d -> NoDup (map fst (occ d t u)).
Proof. intros Hs. destruct (occ d t u) as [|e es] eqn:E; [constructor|].
  assert (Hin : In e (occ d t u)) by (rewrite E; left; auto).
  apply y_occ_rec in Hin. pose proof (y_rec_at_nonempty _ _ _ Hin) as Ht.
  destruct (Hs _ (x_rec_at_In d t Ht)) as [_ He]. rewrite <- E. apply (He u); auto. Qed.

Lemma y_find_In (es : list entry) i e : find (fun e => fst e =? i) es = Some e -> In e es /\ fst e = i.
Proof. intros H. apply find_some in H. destruct H as [H1 H2]. apply Nat.eqb_eq in H2. auto. Qed.

Lemma y_lab_in_In (es : list entry) i l : lab_in es i = Some l -> In (i, l) es.
Proof. unfold lab_in. destruct (find (fun e : nat * label => fst e =? i) es) as [[j l']|] eqn:E; cbn beta iota; [|discriminate].
  intros H. inversion H; subst. apply y_find_In in E. cbn [fst snd] in *. destruct E as [E ->]. auto. Qed.

Lemma y_lab_in_none (es : list entry) i : lab_in es i = None -> ~ exists l, In (i, l) es.
Proof. unfold lab_in. destruct (find (fun e : nat * label => fst e =? i) es) as [e|] eqn:E; cbn beta iota; [discriminate|].
  intros _ [l Hl]. pose proof (find_none _ _ E _ Hl) as H. cbn [fst] in H.
  rewrite Nat.eqb_refl in H. discriminate. Qed.

Lemma y_nodup_fst_inj (es : list entry) i l l' :
  NoDup (map fst es) -> In (i, l) es -> In (i, l') es -> l = l'.
Proof. induction es as [|[j m] t IH]; cbn [map fst In]; [tauto|].
  intros H. inversion H as [|? ? Hni Hnd]; subst. intros [H1|H1] [H2|H2].
  - congruence.
  - inversion H1; subst. exfalso. apply Hni. change i with (fst (i, l')). apply in_map; auto.
  - inversion H2; subst. exfalso. apply Hni. change i with (fst (i, l)). apply in_map; auto.
  - auto. Qed.

Lemma y_In_lab_in (es : list entry) i l : NoDup (map fst es) -> In (i, l) es -> lab_in es i = Some l.
Proof. intros Hnd Hin. destruct (lab_in es i) as [l'|] eqn:E.
  - apply y_lab_in_In in E. f_equal. apply (y_nodup_fst_inj es i l' l); auto.
  - exfalso. apply (y_lab_in_none _ _ E). eauto. Qed.

Lemma y_full_at P d t s : full_at P d t s = true <-> width_of P s <= length (occ d t s).
Proof. unfold full_at. apply Nat.leb_le. Qed.

Lemma y_exists_mem P prog d t i : record_shape (rec_at d t) ->
  (existsb (fun p : nat * string => negb (fst p =? i)) (mem_entries P prog d t) = true <->
   exists k v, k <> i /\ enters_mem P prog d t k v).
Proof. intros Hs. rewrite existsb_exists. split.
  - intros [[k v] [Hin H]]. cbn [fst] in H. apply negb_true_iff in H. apply Nat.eqb_neq in H.
    exists k, v. split; auto. apply x_mem_entries_iff; auto.
  - intros [k [v [Hk He]]]. exists (k, v). split; [apply x_mem_entries_iff; auto|].
    cbn [fst]. apply negb_true_iff. apply Nat.eqb_neq; auto. Qed.

(* ---------- the two clauses about one successor ---------- *)
Definition y_blocked (P : proc) (prog : list instr) (d : diagram) (t i : nat) (s : string) : Prop :=
  width_of P s <= length (occ d (S t) s) \/
  (mem_needed P s (cat_of prog i) = true /\ exists k v, k <> i /\ enters_mem P prog d (S t) k v).
Definition y_oldest (P : proc) (prog : list instr) (d : diagram) (t i : nat) (s : string) : Prop :=
  forall j lj, In (j, lj) (occ d (S t) s) -> i < j -> ~ (exists l0, In (j, l0) (occ d t s)) ->
    mem_needed P s (cat_of prog i) = true /\ mem_needed P s (cat_of prog j) = false.

Lemma y_blocked_iff P prog d t i s : record_shape (rec_at d (S t)) ->
  (full_at P d (S t) s
   || (mem_needed P s (cat_of prog i)
       && existsb (fun p : nat * string => negb (fst p =? i)) (mem_entries P prog d (S t))) = true
   <-> y_blocked P prog d t i s).
Proof. intros Hs. unfold y_blocked. rewrite orb_true_iff, andb_true_iff, y_full_at, (y_exists_mem _ _ _ _ _ Hs).
  tauto. Qed.

Lemma y_oldest_iff P prog d t i s :
  (forallb (fun e' : entry => negb (i <? fst e') || has (occ d t s) (fst e')
                      || (mem_needed P s (cat_of prog i) && negb (mem_needed P s (cat_of prog (fst e')))))
           (occ d (S t) s) = true
   <-> y_oldest P prog d t i s).
Proof. unfold y_oldest. rewrite forallb_forall. split.
  - intros H j lj Hj Hij Hno. specialize (H _ Hj). cbn [fst] in H.
    apply orb_true_iff in H. destruct H as [H|H].
    + apply orb_true_iff in H. destruct H as [H|H].
      * apply negb_true_iff in H. apply Nat.ltb_ge in H. lia.
      * exfalso. apply Hno. apply x_has_iff; auto.
    + apply andb_true_iff in H. destruct H as [H1 H2]. apply negb_true_iff in H2. auto.
  - intros H [j lj] Hj. cbn [fst].
    destruct (Nat.ltb_spec i j) as [Hij|Hij]; cbn [negb orb]; auto.
    destruct (has (occ d t s) j) eqn:Eh; cbn [orb]; auto.
    destruct (H j lj Hj Hij) as [H1 H2].
    + intros Hex. apply x_has_iff in Hex. congruence.
    + rewrite H1, H2. reflexivity. Qed.

Lemma y_succs_iff P prog d t i u : record_shape (rec_at d (S t)) ->
  (forallb (fun s =>
       negb (supports P s (cat_of prog i))
       || ((full_at P d (S t) s
            || (mem_needed P s (cat_of prog i)
                && existsb (fun p : nat * string => negb (fst p =? i)) (mem_entries P prog d (S t))))
           && forallb (fun e' : entry => negb (i <? fst e') || has (occ d t s) (fst e')
                                 || (mem_needed P s (cat_of prog i)
                                     && negb (mem_needed P s (cat_of prog (fst e')))))
                      (occ d (S t) s)))
     (succs_of P u) = true
   <-> forall s, In s (succs_of P u) -> supports P s (cat_of prog i) = true ->
         y_blocked P prog d t i s /\ y_oldest P prog d t i s).
Proof. intros Hs. rewrite forallb_forall. split.
  - intros H s Hin Hsup. specialize (H s Hin). rewrite Hsup in H. cbn [negb orb] in H.
    apply andb_true_iff in H. destruct H as [H1 H2].
    split; [apply (y_blocked_iff _ _ _ _ _ _ Hs); auto|apply y_oldest_iff; auto].
  - intros H s Hin. destruct (supports P s (cat_of prog i)) eqn:Hsup; cbn [negb orb]; auto.
    destruct (H s Hin Hsup) as [H1 H2]. apply andb_true_iff.
    split; [apply (y_blocked_iff _ _ _ _ _ _ Hs); auto|apply y_oldest_iff; auto]. Qed.

(* ---------- one entry ---------- *)
Definition y_entry_prop (P : proc) (prog : list instr) (d : diagram) (t : nat) (u : string) (i : nat) : Prop :=
  (In u (out_names P) -> ~ exists l', In (i, l') (occ d (S t) u)) /\
  (~ In u (out_names P) -> forall l', In (i, l') (occ d (S t) u) ->
     l' = LS /\
     forall s, In s (succs_of P u) -> supports P s (cat_of prog i) = true ->
       y_blocked P prog d t i s /\ y_oldest P prog d t i s).

Lemma y_entry_iff P prog d t u i l : diagram_shape d -> S t < length d -> l <> LD ->
  (C07_entry_ok P prog d t u (i, l) = true <-> y_entry_prop P prog d t u i).
Proof. intros Hs Ht Hl.
  assert (Hr : record_shape (rec_at d (S t))) by (apply Hs, x_rec_at_In; auto).
  pose proof (y_occ_nodup d (S t) u Hs) as Hnd.
  unfold C07_entry_ok, y_entry_prop. cbn [fst snd].
  destruct (label_eqb l LD) eqn:El; [apply y_label_eqb in El; contradiction|].
  destruct (Nat.leb_spec (length d) (S t)) as [Hc|_]; [lia|].
  destruct (mem_str u (out_names P)) eqn:Eo.
  - apply mem_str_In in Eo. rewrite negb_true_iff. split.
    + intros H. split; [|tauto]. intros _ Hex. apply x_has_iff in Hex. congruence.
    + intros [H _]. destruct (has (occ d (S t) u) i) eqn:Eh; auto.
      exfalso. apply (H Eo). apply x_has_iff; auto.
  - assert (Hno : ~ In u (out_names P)) by (intros X; apply mem_str_In in X; congruence).
    destruct (lab_in (occ d (S t) u) i) as [l0|] eqn:Elab.
    + rewrite andb_true_iff, y_label_eqb, (y_succs_iff _ _ _ _ _ _ Hr). split.
      * intros [-> H]. split; [tauto|]. intros _ l' Hl'. split; auto.
        apply (y_In_lab_in _ _ _ Hnd) in Hl'. congruence.
      * intros [_ H]. apply y_lab_in_In in Elab. destruct (H Hno l0 Elab); auto.
    + split; auto. intros _. split; [tauto|]. intros _ l' Hl'. exfalso.
      apply (y_lab_in_none _ _ Elab). eauto. Qed.

(* ---------- the checker ---------- *)
Lemma C07_prop_unfold P prog d :
  C07_prop P prog d <->
  forall t u i l, S t < length d -> In (i, l) (occ d t u) -> l <> LD -> y_entry_prop P prog d t u i.
Proof. reflexivity. Qed.

Lemma C07_checker_sound_shape :
  forall P prog d, diagram_shape d -> C07_checkb P prog d = true -> C07_prop P prog d.
Proof. intros P prog d Hs Hc. apply C07_prop_unfold. intros t u i l Ht Hin Hl.
  unfold C07_checkb in Hc. rewrite forallb_forall in Hc.
  assert (Ht0 : In t (seq 0 (length d))) by (apply in_seq; lia).
  specialize (Hc t Ht0). rewrite forallb_forall in Hc.
  specialize (Hc _ (y_occ_rec _ _ _ _ Hin)). cbn [fst snd] in Hc. rewrite forallb_forall in Hc.
  specialize (Hc _ Hin). apply (y_entry_iff P prog d t u i l Hs Ht Hl); auto. Qed.

Lemma C07_checker_complete_shape :
  forall P prog d, diagram_shape d -> C07_prop P prog d -> C07_checkb P prog d = true.
Proof. intros P prog d Hs Hp. rewrite C07_prop_unfold in Hp.
  unfold C07_checkb. apply forallb_forall. intros t Ht0. apply in_seq in Ht0.
  assert (Ht : t < length d) by lia.
  apply forallb_forall. intros [u es] Hkv. cbn [fst snd]. apply forallb_forall. intros [i l] Hin.
  destruct (Hs _ (x_rec_at_In d t Ht)) as [Hk _].
  assert (Hocc : occ d t u = es) by (unfold occ; apply x_get_nodup; auto).
  destruct (label_eqb l LD) eqn:El.
  { unfold C07_entry_ok. cbn [fst snd]. rewrite El. reflexivity. }
  destruct (Nat.leb_spec (length d) (S t)) as [Hc|Hc].
  { unfold C07_entry_ok. cbn [fst snd]. rewrite El.
    destruct (Nat.leb_spec (length d) (S t)); [reflexivity|lia]. }
  assert (Hl : l <> LD) by (intros ->; discriminate).
  apply (y_entry_iff P prog d t u i l Hs Hc Hl). apply (Hp t u i l Hc); auto. rewrite Hocc; auto. Qed.

Lemma C07_checker_exact_lemma :
  forall P prog d, diagram_shape d -> (C07_checkb P prog d = true <-> C07_prop P prog d).
Proof. intros P prog d Hs. split;
  [apply C07_checker_sound_shape|apply C07_checker_complete_shape]; auto. Qed.

Print Assumptions C07_checker_exact_lemma.
