(* C12_desc.v -- what make_desc (the ProcessorDesc constructor) delivers. *)
From Coq Require Import Lia Permutation.
From PS Require Import Base Str Sim Graph Loader Diag LoaderSpec Lists C17_strord Graph_facts C12_lists C12_graph.

Lemma norm_names l : map fname (map norm_funit l) = map fname l.
Proof. rewrite map_map. reflexivity. Qed.

Lemma make_desc_spec ins outs inouts ints P :
  NoDup (map fname ints) -> make_desc ins outs inouts ints = Some P ->
  p_in P = ins /\ p_inout P = inouts /\ p_out P = isort funit_leb (map norm_funit outs) /\
  Permutation (p_int P) (map norm_funit ints) /\ NoDup (map fname (p_int P)) /\
  sink_first (p_int P) [] = true.
Proof. intros Hnd. unfold make_desc.
  destruct (post_order (map norm_funit ints)) as [res|] eqn:E; [|discriminate].
  intros HP; inversion HP; subst P; clear HP. simpl.
  destruct (post_order_spec (map norm_funit ints) res) as [A1 [A2 A3]]; auto.
  { rewrite norm_names; auto. }
  repeat split; auto. Qed.

Lemma norm_preds_sorted f l : In f (map norm_funit l) -> sortedb String.leb (f_preds f) = true.
Proof. intros H. apply in_map_iff in H. destruct H as [f0 [<- _]]. simpl. apply sort_str_sorted. Qed.

(* the order part of the checker only needs the shape delivered by make_desc *)
Lemma order_check P outs ints :
  p_out P = isort funit_leb (map norm_funit outs) ->
  Permutation (p_int P) (map norm_funit ints) ->
  sink_first (p_int P) [] = true ->
  C12_order_checkb P = true.
Proof. intros Ho Hi Hs. unfold C12_order_checkb. rewrite Hs. simpl.
  apply andb_true_iff. split.
  - rewrite Ho. apply (isort_sorted fname).
  - apply forallb_forall. intros f Hf. unfold funits in Hf. apply in_app_iff in Hf.
    destruct Hf as [Hf|Hf].
    + rewrite Ho in Hf. apply isort_incl in Hf. eapply norm_preds_sorted; eauto.
    + apply (Permutation_in f Hi) in Hf. eapply norm_preds_sorted; eauto. Qed.

Lemma C12_post_order_lemma :
  forall ins outs inouts ints P,
    NoDup (map (fun f => u_name (f_model f)) ints) ->
    make_desc ins outs inouts ints = Some P ->
    C12_parts_checkb ins outs inouts ints P = true.
Proof. intros ins outs inouts ints P Hnd HP.
  destruct (make_desc_spec ins outs inouts ints P Hnd HP) as [A1 [A2 [A3 [A4 [A5 A6]]]]].
  unfold C12_parts_checkb.
  rewrite (order_check P outs ints A3 A4 A6), A1, A2.
  rewrite !(list_eqb_refl unit_eqb) by apply unit_eqb_refl.
  assert (N : nodupb String.eqb (map (fun f => u_name (f_model f)) (p_int P)) = true)
    by (apply nodupb_NoDup; exact A5).
  rewrite N.
  assert (L1 : length (p_out P) =? length outs = true).
  { apply Nat.eqb_eq. rewrite A3, <- (Permutation_length (isort_perm funit_leb _)), map_length. auto. }
  assert (L2 : length (p_int P) =? length ints = true).
  { apply Nat.eqb_eq. rewrite (Permutation_length A4), map_length. auto. }
  rewrite L1, L2. simpl. rewrite !andb_true_r. apply andb_true_iff. split.
  - apply forallb_forall. intros f Hf. apply existsb_funit_eqb. rewrite A3 in Hf.
    apply isort_incl in Hf. auto.
  - apply forallb_forall. intros f Hf. apply existsb_funit_eqb. apply (Permutation_in f A4); auto. Qed.
