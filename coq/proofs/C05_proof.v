(* C05 (single memory port): at most one (instruction, unit) pair starts a memory stage per cycle. *)
From Coq Require Import Lia.
From PS Require Import Base Bag RegAccess Sim Diag Lists Run.

(* ---------- generic facts ---------- *)
Lemma nodupb_NoDup l : nodupb String.eqb l = true -> NoDup l.
Proof. induction l as [|x t IH]; simpl; intros H; constructor.
  - apply andb_prop in H. destruct H as [H _]. intros Hin. apply mem_str_In in Hin.
    unfold mem_str in Hin. rewrite Hin in H. discriminate.
  - apply IH. apply andb_prop in H; tauto. Qed.

Definition ukeys (r : record) := NoDup (map fst r).

Lemma set_keys_in {A} (r : list (string * A)) k v x :
  In x (map fst (set r k v)) -> x = k \/ In x (map fst r).
Proof. induction r as [|[k' v'] t IH]; simpl.
  - intros [H|[]]; auto.
  - destruct (String.eqb k k') eqn:E; simpl; intros [H|H]; auto.
    apply IH in H. tauto. Qed.

Lemma set_ukeys (r : record) k v : ukeys r -> ukeys (set r k v).
Proof. unfold ukeys. induction r as [|[k' v'] t IH]; simpl; intros H.
  - constructor; auto.
  - destruct (String.eqb k k') eqn:E; simpl.
    + apply String.eqb_eq in E; subst; exact H.
    + inversion H; subst. constructor; auto.
      intros Hin. apply set_keys_in in Hin. destruct Hin as [->|Hin]; auto.
      rewrite String.eqb_refl in E; discriminate. Qed.

Lemma get_ukeys (r : record) k es : ukeys r -> In (k, es) r -> get r k = es.
Proof. unfold ukeys. induction r as [|[k' v'] t IH]; simpl; [tauto|].
  intros H. inversion H as [|? ? Hni Hnd']; subst. intros [Heq|Hin].
  - inversion Heq; subst. rewrite String.eqb_refl; auto.
  - destruct (String.eqb_spec k k'); subst; auto.
    exfalso. apply Hni. change k' with (fst (k', es)). apply in_map; auto. Qed.

Lemma get_In {A} (r : list (string * list A)) k e : In e (get r k) -> In (k, get r k) r.
Proof. induction r as [|[k' v'] t IH]; simpl; [tauto|].
  destruct (String.eqb_spec k k'); subst; auto. Qed.

Lemma flat_map_nil {A B} (f : A -> list B) l : (forall x, In x l -> f x = []) -> flat_map f l = [].
Proof. induction l as [|a l IH]; simpl; intros H; auto.
  rewrite H, IH; auto. Qed.

(* ---------- counting the memory-stage starts of a working record ---------- *)
Section Count.
Variable P : proc.
Variable prog : list instr.
Variable nw : string -> nat -> bool.          (* "was not in this unit in the previous record" *)
Hypothesis Hnd : NoDup (unit_names P).

Definition wf (k : string) (e : entry) : list (nat * string) :=
  if nw k (fst e) && mem_needed P k (cat_of prog (fst e)) then [(fst e, k)] else [].
Definition ml (k : string) (es : list entry) : list (nat * string) := flat_map (wf k) es.
Definition mr (r : record) : list (nat * string) := flat_map (fun kv => ml (fst kv) (snd kv)) r.
Definition cntl k es := length (ml k es).
Definition cnt r := length (mr r).
Definition b2n (b : bool) : nat := if b then 1 else 0.

Lemma b2n_le b : b2n b <= 1.
Proof. destruct b; simpl; lia. Qed.

Lemma cntl_app k a b : cntl k (a ++ b) = cntl k a + cntl k b.
Proof. unfold cntl, ml. rewrite flat_map_app, app_length. auto. Qed.
Lemma cntl_filter k f es : cntl k (filter f es) <= cntl k es.
Proof. unfold cntl, ml. induction es as [|a es IH]; cbn [filter flat_map]; auto.
  destruct (f a); cbn [flat_map]; rewrite ?app_length; lia. Qed.
Lemma cntl_del k : forall es n, cntl k (del_nth n es) <= cntl k es.
Proof. unfold cntl, ml. induction es as [|a es IH]; intros [|n]; cbn [del_nth flat_map];
  rewrite ?app_length; try lia. specialize (IH n). lia. Qed.
Lemma cntl_one_le k i l : cntl k [(i, l)] <= 1.
Proof. unfold cntl, ml, wf. cbn [flat_map fst]. rewrite app_nil_r.
  destruct (nw k i && _); simpl; lia. Qed.
Lemma cntl_one_0 k i l : mem_needed P k (cat_of prog i) = false -> cntl k [(i, l)] = 0.
Proof. intros H. unfold cntl, ml, wf. cbn [flat_map fst]. rewrite H, andb_false_r. reflexivity. Qed.

Lemma cnt_set (r : record) k (v : list entry) : cnt (set r k v) + cntl k (get r k) = cnt r + cntl k v.
Proof. unfold cnt, mr, cntl. induction r as [|[k' v'] t IH]; cbn [set get].
  - cbn [flat_map fst snd ml length]. rewrite app_nil_r. unfold ml. lia.
  - destruct (String.eqb_spec k k'); subst.
    + cbn [flat_map fst snd]. rewrite !app_length. lia.
    + cbn [flat_map fst snd]. rewrite !app_length. lia. Qed.
Lemma cnt_set_le (r : record) k (v : list entry) : cntl k v <= cntl k (get r k) -> cnt (set r k v) <= cnt r.
Proof. pose proof (cnt_set r k v). lia. Qed.
Lemma cnt_append (r : record) k i l : cnt (set r k (get r k ++ [(i, l)])) = cnt r + cntl k [(i, l)].
Proof. pose proof (cnt_set r k (get r k ++ [(i, l)])) as H. rewrite cntl_app in H. lia. Qed.

Lemma flush_cnt r : cnt (flush P r) <= cnt r.
Proof. unfold flush. generalize (out_names P). intros ns. revert r.
  induction ns as [|n ns IH]; intros r; cbn [fold_left]; auto.
  eapply Nat.le_trans; [apply IH|]. apply cnt_set_le, cntl_filter. Qed.
Lemma flush_ukeys r : ukeys r -> ukeys (flush P r).
Proof. unfold flush. generalize (out_names P). intros ns. revert r.
  induction ns as [|n ns IH]; intros r H; cbn [fold_left]; auto.
  apply IH, set_ukeys, H. Qed.

Lemma clr_cnt moved : forall r, cnt (clr r moved) <= cnt r.
Proof. unfold clr. generalize (isort (fun a b => snd b <=? snd a) moved). intros l.
  induction l as [|c l IH]; intros r; cbn [fold_left]; auto.
  eapply Nat.le_trans; [apply IH|]. apply cnt_set_le, cntl_del. Qed.
Lemma clr_ukeys moved : forall r, ukeys r -> ukeys (clr r moved).
Proof. unfold clr. generalize (isort (fun a b => snd b <=? snd a) moved). intros l.
  induction l as [|c l IH]; intros r H; cbn [fold_left]; auto.
  apply IH, set_ukeys, H. Qed.

Lemma mem_needed_unit u c : In u (all_units P) -> mem_needed P (u_name u) c = mem_str c (u_mem u).
Proof. intros Hin. unfold mem_needed, find_unit.
  rewrite (find_nodup u_name (all_units P) u Hnd Hin). reflexivity. Qed.
Lemma mn_dst f c : In f (p_out P ++ p_int P) ->
  mem_needed P (u_name (f_model f)) c = mem_str c (u_mem (f_model f)).
Proof. intros H. apply mem_needed_unit. unfold all_units. rewrite !in_app_iff.
  apply in_app_iff in H. destruct H as [H|H]; [right; right; left|right; right; right]; apply in_map; auto. Qed.
Lemma mn_in u c : In u (p_inout P ++ p_in P) -> mem_needed P (u_name u) c = mem_str c (u_mem u).
Proof. intros H. apply mem_needed_unit. unfold all_units. rewrite !in_app_iff.
  apply in_app_iff in H. tauto. Qed.

Lemma walk_cnt f busy :
  (forall c, mem_needed P (u_name (f_model f)) c = mem_str c (u_mem (f_model f))) ->
  forall cs r used moved, cnt r <= b2n (busy || used) ->
    cnt (fst (fst (walk prog f busy cs r used moved)))
    <= b2n (busy || snd (fst (walk prog f busy cs r used moved))).
Proof. intros Hmn. induction cs as [|c t IH]; intros r used moved Hc; cbn [walk]; auto.
  destruct (length (get r (u_name (f_model f))) =? u_width (f_model f)); auto.
  destruct (mem_str (cat_of prog (ix_of r c)) (u_mem (f_model f))) eqn:En.
  - destruct (busy || used) eqn:Eb; cbn [andb]; [apply IH; rewrite Eb; auto|].
    apply IH. rewrite orb_true_r, orb_true_r. cbn [b2n]. rewrite cnt_append.
    pose proof (cntl_one_le (u_name (f_model f)) (ix_of r c) LU). simpl in Hc. lia.
  - rewrite andb_false_r. apply IH. rewrite orb_false_r, cnt_append, cntl_one_0; [lia|].
    rewrite Hmn; auto. Qed.
Lemma walk_ukeys f busy : forall cs r used moved, ukeys r ->
  ukeys (fst (fst (walk prog f busy cs r used moved))).
Proof. induction cs as [|c t IH]; intros r used moved H; cbn [walk]; auto.
  destruct (_ =? _); auto. destruct (_ && _); auto. apply IH, set_ukeys, H. Qed.

Definition J (st : record * bool) := cnt (fst st) <= b2n (snd st).

Lemma fill_unit_J st f : In f (p_out P ++ p_int P) -> J st -> J (fill_unit prog st f).
Proof. intros Hin Hj. destruct st as [r busy]. unfold J in *. cbn [fst snd] in Hj. unfold fill_unit.
  assert (Hc : cnt r <= b2n (busy || false)) by (rewrite orb_false_r; auto).
  pose proof (walk_cnt f busy (fun c => mn_dst f c Hin)
                (isort (fun a b => ix_of r a <=? ix_of r b) (cands prog f r)) r false [] Hc) as Hw.
  destruct (walk prog f busy _ r false []) as [[r' used] moved]. cbn [fst snd] in *.
  eapply Nat.le_trans; [apply clr_cnt|auto]. Qed.
Lemma fill_unit_ukeys st f : ukeys (fst st) -> ukeys (fst (fill_unit prog st f)).
Proof. intros H. destruct st as [r busy]. unfold fill_unit. cbn [fst] in H.
  pose proof (walk_ukeys f busy (isort (fun a b => ix_of r a <=? ix_of r b) (cands prog f r)) r false [] H) as Hw.
  destruct (walk prog f busy _ r false []) as [[r' used] moved]. cbn [fst snd] in *.
  apply clr_ukeys; auto. Qed.

Lemma mov_flights_J r : cnt r = 0 -> J (mov_flights P prog r).
Proof. intros H0. unfold mov_flights.
  assert (G: forall l st, incl l (p_out P ++ p_int P) -> J st -> J (fold_left (fill_unit prog) l st)).
  { induction l as [|f l IH]; intros st Hi Hs; cbn [fold_left]; auto.
    apply IH; [intros x Hx; apply Hi; right; auto|]. apply fill_unit_J; auto. apply Hi; left; auto. }
  apply G; [apply incl_refl|]. unfold J. cbn [fst snd b2n]. pose proof (flush_cnt r). lia. Qed.
Lemma mov_flights_ukeys r : ukeys r -> ukeys (fst (mov_flights P prog r)).
Proof. intros H. unfold mov_flights. generalize (p_out P ++ p_int P). intros l.
  assert (G: forall st, ukeys (fst st) -> ukeys (fst (fold_left (fill_unit prog) l st))).
  { induction l as [|f l IH]; intros st Hs; cbn [fold_left]; auto. apply IH, fill_unit_ukeys, Hs. }
  apply G. cbn [fst]. apply flush_ukeys, H. Qed.

Lemma try_ports_J ix : forall ports r mu r' m', incl ports (p_inout P ++ p_in P) ->
  cnt r <= b2n mu -> try_ports (cat_of prog ix) ports r mu ix = Some (r', m') -> cnt r' <= b2n m'.
Proof. induction ports as [|u t IH]; intros r mu r' m' Hi Hc H; cbn [try_ports] in H; [discriminate|].
  assert (Ht: incl t (p_inout P ++ p_in P)) by (intros x Hx; apply Hi; right; auto).
  destruct (mem_str (cat_of prog ix) (u_caps u)); [|eapply IH; eauto].
  destruct (length (get r (u_name u)) =? u_width u).
  - rewrite orb_true_r in H. eapply IH; eauto.
  - rewrite orb_false_r in H.
    destruct (mem_str (cat_of prog ix) (u_mem u)) eqn:En.
    + destruct mu; cbn [andb] in H; [eapply IH; eauto|].
      inversion H; subst; clear H. cbn [orb b2n]. rewrite cnt_append.
      pose proof (cntl_one_le (u_name u) ix LU). simpl in Hc. lia.
    + rewrite andb_false_r in H. inversion H; subst; clear H.
      rewrite orb_false_r, cnt_append, cntl_one_0; [lia|].
      rewrite mn_in; auto. apply Hi; left; auto. Qed.
Lemma try_ports_ukeys cat ix : forall ports r mu r' m', ukeys r ->
  try_ports cat ports r mu ix = Some (r', m') -> ukeys r'.
Proof. induction ports as [|u t IH]; intros r mu r' m' Hk H; cbn [try_ports] in H; [discriminate|].
  destruct (mem_str cat (u_caps u)); [|eapply IH; eauto].
  destruct (_ || _); [eapply IH; eauto|]. inversion H; subst. apply set_ukeys, Hk. Qed.

Lemma fill_inputs_cnt : forall fuel r mu ent, cnt r <= b2n mu ->
  cnt (fst (fill_inputs fuel prog (in_ports_sorted P) r mu ent)) <= 1.
Proof. induction fuel as [|f IH]; intros r mu ent Hc; cbn [fill_inputs].
  - cbn [fst]. pose proof (b2n_le mu). lia.
  - destruct (nth_error prog ent) as [ins|] eqn:En; [|cbn [fst]; pose proof (b2n_le mu); lia].
    assert (Hcat : i_cat ins = cat_of prog ent) by (unfold cat_of; rewrite En; auto).
    rewrite Hcat.
    destruct (try_ports (cat_of prog ent) (in_ports_sorted P) r mu ent) as [[r' m']|] eqn:E;
      [|cbn [fst]; pose proof (b2n_le mu); lia].
    apply IH. eapply try_ports_J; eauto. apply isort_incl. Qed.
Lemma fill_inputs_ukeys : forall fuel r mu ent, ukeys r ->
  ukeys (fst (fill_inputs fuel prog (in_ports_sorted P) r mu ent)).
Proof. induction fuel as [|f IH]; intros r mu ent Hk; cbn [fill_inputs]; auto.
  destruct (nth_error prog ent) as [ins|]; auto.
  destruct (try_ports _ _ r mu ent) as [[r' m']|] eqn:E; auto.
  apply IH. eapply try_ports_ukeys; eauto. Qed.

(* hazards only relabel *)
Lemma ml_cons k i l t :
  ml k ((i, l) :: t) = (if nw k i && mem_needed P k (cat_of prog i) then [(i, k)] else []) ++ ml k t.
Proof. reflexivity. Qed.
Lemma stall_unit_ml k u old qs : forall es cl es' cl',
  stall_unit u old prog qs es cl = Ok (es', cl') -> ml k es' = ml k es.
Proof. induction es as [|[i l] t IH]; intros cl es' cl' H; cbn [stall_unit] in H.
  - inversion H; auto.
  - destruct (regs_loaded old i).
    + destruct (stall_unit u old prog qs t cl) as [[t' c']|] eqn:E; [|discriminate].
      inversion H; subst. rewrite !ml_cons. f_equal; eauto.
    + destruct (nth_error prog i) as [ins|]; [|discriminate].
      destruct (regs_avail u i ins qs) as [[regs|]|]; [| |discriminate].
      * destruct (stall_unit u old prog qs t _) as [[t' c']|] eqn:E; [|discriminate].
        inversion H; subst. rewrite !ml_cons. f_equal; eauto.
      * destruct (stall_unit u old prog qs t cl) as [[t' c']|] eqn:E; [|discriminate].
        inversion H; subst. rewrite !ml_cons. f_equal; eauto.
Qed.
Lemma hazards_mr old qs : forall r cl r' cl',
  chk_hazards_units P old prog qs r cl = Ok (r', cl') -> mr r' = mr r /\ map fst r' = map fst r.
Proof. induction r as [|[n es] t IH]; intros cl r' cl' H; cbn [chk_hazards_units] in H.
  - inversion H; auto.
  - destruct es as [|e es].
    + destruct (chk_hazards_units P old prog qs t cl) as [[t' c']|] eqn:E2; [|discriminate].
      inversion H; subst. destruct (IH _ _ _ E2) as [H1 H2].
      unfold mr in *. cbn [flat_map map fst snd]. rewrite H1, H2. auto.
    + destruct (find_unit P n); [|discriminate].
      destruct (stall_unit u (get old n) prog qs (e :: es) cl) as [[es' c']|] eqn:E; [|discriminate].
      destruct (chk_hazards_units P old prog qs t c') as [[t' c'']|] eqn:E2; [|discriminate].
      inversion H; subst. destruct (IH _ _ _ E2) as [H1 H2].
      unfold mr in *. cbn [flat_map map fst snd]. rewrite H1, H2.
      rewrite (stall_unit_ml n _ _ _ _ _ _ _ E). auto. Qed.

(* a record whose entries are all old has count 0 *)
Lemma cnt_old old : ukeys old -> (forall k e, In e (get old k) -> nw k (fst e) = false) -> cnt old = 0.
Proof. intros Hk Hold. unfold cnt, mr. rewrite flat_map_nil; auto.
  intros [k es] Hin. cbn [fst snd]. unfold ml. apply flat_map_nil. intros e He.
  unfold wf. rewrite (Hold k e); auto. rewrite (get_ukeys old k es); auto. Qed.

(* one successful or stalled cycle *)
Lemma cycle_cnt old qs ent0 r1 busy r2 ent r3 cl :
  ukeys old -> (forall k e, In e (get old k) -> nw k (fst e) = false) ->
  mov_flights P prog old = (r1, busy) ->
  fill_inputs (S (length prog)) prog (in_ports_sorted P) r1 busy ent0 = (r2, ent) ->
  chk_hazards_units P old prog qs r2 [] = Ok (r3, cl) ->
  cnt r3 <= 1 /\ ukeys r3.
Proof. intros Hk Hold E1 E2 E3.
  pose proof (mov_flights_J old (cnt_old old Hk Hold)) as H1.
  pose proof (mov_flights_ukeys old Hk) as K1. rewrite E1 in H1, K1. unfold J in H1. cbn [fst snd] in *.
  pose proof (fill_inputs_cnt (S (length prog)) r1 busy ent0 H1) as H2.
  pose proof (fill_inputs_ukeys (S (length prog)) r1 busy ent0 K1) as K2. rewrite E2 in H2, K2.
  cbn [fst] in *. destruct (hazards_mr _ _ _ _ _ _ E3) as [H3 K3].
  unfold cnt in *. unfold ukeys in *. rewrite H3, K3. auto. Qed.
End Count.

(* ---------- lifting to runs ---------- *)
Lemma wf_proc_nodup P : wf_procb P = true -> NoDup (unit_names P).
Proof. unfold wf_procb. intros H. apply andb_prop in H. destruct H as [H _].
  apply andb_prop in H. destruct H as [H _]. apply andb_prop in H. destruct H as [H _].
  apply nodupb_NoDup; auto. Qed.

Lemma reach_ukeys P prog s : NoDup (unit_names P) -> reach P prog s -> ukeys (last (tbl s) []).
Proof. intros Hnd. induction 1 as [|s s' Hr IH Hc Hrun].
  - cbn. constructor.
  - destruct (run_cycle_inl _ _ _ _ Hrun) as (r1 & busy & r2 & ent & r3 & cl & qs' & E1 & E2 & E3 & _ & _ & ->).
    cbn [tbl]. rewrite last_last.
    destruct (cycle_cnt P prog (fun _ _ => false) Hnd _ _ _ _ _ _ _ _ _ IH (fun _ _ _ => eq_refl) E1 E2 E3); auto. Qed.

Lemma has_In (es : list entry) e : In e es -> has es (fst e) = true.
Proof. intros H. unfold has. apply existsb_exists. exists e. split; auto. apply Nat.eqb_refl. Qed.

Lemma C05_len P prog s : NoDup (unit_names P) -> reach P prog s ->
  forall t, t < length (tbl s) -> length (mem_entries P prog (tbl s) t) <= 1.
Proof. intros Hnd Hr t Ht.
  destruct (reach_tbl_prefix P prog s Hr t Ht) as (s0 & s1 & Hr0 & Hc0 & Hrun & Ht0 & Ht1 & Hnth).
  destruct (run_cycle_inl _ _ _ _ Hrun) as (r1 & busy & r2 & ent & r3 & cl & qs' & E1 & E2 & E3 & _ & _ & ->).
  cbn [tbl] in *. rewrite last_last in Hnth.
  assert (Hold: forall k e, In e (get (last (tbl s0) []) k) ->
                            negb (has (prev_occ (tbl s) t k) (fst e)) = false).
  { intros k e He. destruct t as [|t'].
    - rewrite Ht0 in He. cbn in He. tauto.
    - assert (Ht' : t' < length (tbl s)) by lia.
      destruct (reach_tbl_prefix P prog s Hr t' Ht') as (s0' & s1' & _ & _ & _ & _ & Ht1' & Hnth').
      rewrite Ht0, <- Ht1', <- Hnth' in He. cbn [prev_occ]. unfold occ, rec_at.
      rewrite (has_In _ _ He). reflexivity. }
  destruct (cycle_cnt P prog (fun k i => negb (has (prev_occ (tbl s) t k) i)) Hnd _ _ _ _ _ _ _ _ _
              (reach_ukeys P prog s0 Hnd Hr0) Hold E1 E2 E3) as [Hc _].
  unfold mem_entries, rec_at. rewrite Hnth. exact Hc. Qed.

Lemma sim_result_reach fuel P prog tg d : sim_result fuel P prog tg d -> exists s, reach P prog s /\ tbl s = d.
Proof. intros [[_ H]|[_ H]]; eapply simulate_reach; eauto. Qed.

Lemma C05_mem_port_lemma :
  forall (P : proc) (prog : list instr) (fuel : nat) (tg : dtag) (d : diagram),
    wf_procb P = true -> sim_result fuel P prog tg d -> C05_checkb P prog d = true.
Proof. intros P prog fuel tg d Hwf Hsim. destruct (sim_result_reach _ _ _ _ _ Hsim) as (s & Hr & <-).
  unfold C05_checkb. apply forallb_forall. intros t Ht. apply in_seq in Ht. apply Nat.leb_le.
  apply C05_len; auto; [apply wf_proc_nodup; auto|lia]. Qed.

Definition enters_mem (P : proc) (prog : list instr) (d : diagram) (t i : nat) (u : string) : Prop :=
  (exists l, In (i, l) (occ d t u)) /\ ~ (exists l, In (i, l) (prev_occ d t u))
  /\ mem_needed P u (cat_of prog i) = true.

Lemma enters_mem_lt P prog d t i u : enters_mem P prog d t i u -> t < length d.
Proof. intros [[l Hl] _]. destruct (Nat.lt_ge_cases t (length d)) as [H|H]; auto.
  unfold occ, rec_at in Hl. rewrite nth_overflow in Hl; auto. cbn in Hl. tauto. Qed.

Lemma enters_mem_In P prog d t i u : enters_mem P prog d t i u -> In (i, u) (mem_entries P prog d t).
Proof. intros [[l Hl] [Hn Hm]]. unfold mem_entries. apply in_flat_map.
  exists (u, occ d t u). split; [apply (get_In _ _ _ Hl)|]. cbn [fst snd].
  apply in_flat_map. exists (i, l). split; auto. cbn [fst]. rewrite Hm.
  destruct (has (prev_occ d t u) i) eqn:Eh; [|left; auto].
  exfalso. apply Hn. unfold has in Eh. apply existsb_exists in Eh. destruct Eh as [[j l'] [H1 H2]].
  cbn [fst] in H2. apply Nat.eqb_eq in H2. subst j. eauto. Qed.

Lemma C05_mem_port_pairs_lemma :
  forall (P : proc) (prog : list instr) (fuel : nat) (tg : dtag) (d : diagram),
    wf_procb P = true -> sim_result fuel P prog tg d ->
    forall t i u j v, enters_mem P prog d t i u -> enters_mem P prog d t j v -> i = j /\ u = v.
Proof. intros P prog fuel tg d Hwf Hsim t i u j v H1 H2.
  pose proof (C05_mem_port_lemma P prog fuel tg d Hwf Hsim) as Hc.
  unfold C05_checkb in Hc. rewrite forallb_forall in Hc.
  assert (Hl : length (mem_entries P prog d t) <= 1).
  { apply Nat.leb_le, Hc, in_seq. apply enters_mem_lt in H1. lia. }
  apply enters_mem_In in H1. apply enters_mem_In in H2.
  destruct (mem_entries P prog d t) as [|a [|b m]]; cbn in *; try tauto; try lia.
  destruct H1 as [H1|[]], H2 as [H2|[]]. subst a. inversion H2; auto. Qed.

(* ---------- non-vacuity ---------- *)
Open Scope string_scope.
Definition c5_in  := {| u_name := "in";  u_width := 2; u_caps := ["MEM"]; u_rl := true;  u_wl := false; u_mem := ["MEM"] |}.
Definition c5_out := {| u_name := "out"; u_width := 1; u_caps := ["MEM"]; u_rl := false; u_wl := true;  u_mem := [] |}.
Definition c5_P := {| p_in := [c5_in]; p_out := [{| f_model := c5_out; f_preds := ["in"] |}]; p_inout := []; p_int := [] |}.
Definition c5_prog := [ {| i_srcs := ["R1"]; i_dst := "R2"; i_cat := "MEM" |};
                        {| i_srcs := ["R2"]; i_dst := "R3"; i_cat := "MEM" |} ].
Lemma C05_nonvacuous_lemma :
  exists P prog d, wf_procb P = true /\ simulate 100 P prog = Done d /\
                   exists t i u, enters_mem P prog d t i u.
Proof. exists c5_P, c5_prog. eexists. split; [|split].
  - vm_compute. reflexivity.
  - vm_compute. reflexivity.
  - exists 0, 0, "in". unfold enters_mem. split; [|split].
    + exists LU. vm_compute. auto.
    + intros [l Hl]. vm_compute in Hl. exact Hl.
    + vm_compute. reflexivity. Qed.
