(* C11_weak.v -- the exact culprit check C11_error_ok implies the weaker reading C11_error_okw of Domain.v
   (any case-insensitively clashing pair of unit names, the first defined earlier). *)
From Coq Require Import Lia ZArith.
From PS Require Import Base Str Sim Graph Loader Diag LoaderSpec Domain Lists LD_base C11_proof.

Lemma first_dup_pair : forall l seen o n,
  first_dup l seen = Some (o, n) ->
  (In o seen /\ In n l /\ ic_eqb o n = true) \/ dup_pair l o n = true.
Proof.
  induction l as [|x t IH]; intros seen o n H; cbn [first_dup] in H; [discriminate|].
  destruct (ic_find x seen) as [o'|] eqn:E.
  - injection H as -> ->. apply ic_find_some in E. destruct E as [Hin Hl].
    left. split; [exact Hin|]. split; [left; reflexivity|].
    apply ic_eqb_iff. symmetry. exact Hl.
  - apply IH in H. destruct H as [[Ho [Hn Hic]]|H].
    + apply in_app_iff in Ho. destruct Ho as [Ho|Ho].
      * left. split; [exact Ho|]. split; [right; exact Hn|exact Hic].
      * destruct Ho as [<-|[]]. right. cbn [dup_pair].
        rewrite String.eqb_refl, Hic.
        assert (Hex : existsb (String.eqb n) t = true).
        { apply existsb_exists. exists n. split; [exact Hn|apply String.eqb_refl]. }
        rewrite Hex. reflexivity.
    + right. cbn [dup_pair]. rewrite H. apply orb_true_r.
Qed.

Lemma C11_error_okw_of_ok : forall (d : desc) (e : load_err),
  C11_error_ok d e = true -> C11_error_okw d e = true.
Proof.
  intros d e H. destruct e; cbn [C11_error_okw]; try exact H.
  cbn [C11_error_ok] in H.
  destruct (first_dup (d_names d) []) as [[o n]|] eqn:E; [|discriminate].
  apply andb_true_iff in H. destruct H as [H1 H2].
  apply String.eqb_eq in H1. apply String.eqb_eq in H2. subst.
  apply first_dup_pair in E. destruct E as [[[] _]|E]. exact E.
Qed.

Lemma C11_error_sound_weak_lemma : forall d e,
  acl_knownb d = true -> load_proc_desc d = LoadErr e -> C11_error_okw d e = true.
Proof.
  intros d e Hacl Hload. apply C11_error_okw_of_ok. apply C11_error_sound_lemma; assumption.
Qed.

Print Assumptions C11_error_okw_of_ok.
Print Assumptions C11_error_sound_weak_lemma.
