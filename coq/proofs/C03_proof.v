(* C03_proof.v -- C03 (one legal gap-free route per instruction): the track of every instruction,
   maintained along reachable states, and the derivation of C03_checkb. *)
From Coq Require Import Lia.
From PS Require Import Base Bag RegAccess Sim Diag Lists Run C03_lists C03_step.
From PS Require Export C03_inv.
From PS Require Import C03_track.

(* ---------- a rank of units that strictly decreases along every connection ---------- *)
Fixpoint idx (x : string) (l : list string) : nat :=
  match l with [] => 0 | y :: t => if String.eqb x y then 0 else S (idx x t) end.

Lemma idx_lt : forall l seen f p, okorder seen l -> NoDup (map fname l) -> In f l -> In p (f_preds f) ->
  idx (fname f) (map fname l) < idx p (map fname l).
Proof. induction l as [|g t IH]; intros seen f p Hok Hnd Hf Hp; [destruct Hf|].
  simpl in Hnd. inversion Hnd; subst. destruct Hok as [Ho1 Ho2]. cbn [map idx]. destruct Hf as [->|Hf].
  - rewrite String.eqb_refl. destruct (String.eqb_spec p (fname f)) as [E|E]; [|lia].
    exfalso. apply (Ho1 p Hp). left; auto.
  - destruct (okorder_in _ _ f p Ho2 Hf Hp) as [G1 G2].
    destruct (String.eqb_spec (fname f) (fname g)) as [E|E].
    + exfalso. apply H1. rewrite <- E. apply in_map; auto.
    + destruct (String.eqb_spec p (fname g)) as [E'|E']; [exfalso; apply G2; left; auto|].
      apply -> Nat.succ_lt_mono. eapply IH; eauto. Qed.

Section Routes.
Variable P : proc.
Hypothesis Hwf : wf_procb P = true.
Variable prog : list instr.

Definition rk (u : string) : nat := idx u (map fname (funits P)).
Lemma rk_lt p u : In p (preds_of P u) -> rk u < rk p.
Proof. intros H. apply preds_of_in in H. destruct H as (f & Hf & Hp & <-). unfold rk.
  eapply idx_lt; eauto; [apply (okorder_funits P Hwf)|apply (funit_names_nodup P Hwf)]. Qed.

Lemma out_names_nodup : NoDup (out_names P).
Proof. pose proof (wf_names P Hwf) as H. rewrite (unit_names_eq P) in H. apply NoDup_app_r in H.
  rewrite app_assoc in H. apply NoDup_app_l in H. exact H. Qed.

(* ---------- instructions showing 'U' in an output-boundary unit of a record ---------- *)
Notation isLU := (fun e : entry => label_eqb (snd e) LU).
Definition outU (r : record) : list nat :=
  flat_map (fun n => map fst (filter isLU (get r n))) (out_names P).

Lemma fold_sum_len {A B} (g : A -> nat) (h : A -> list B) : (forall x, length (h x) = g x) ->
  forall l a, fold_left (fun n x => n + g x) l a = a + length (flat_map h l).
Proof. intros Hg. induction l as [|x l IH]; intros a; simpl; [lia|]. rewrite IH, app_length, Hg. lia. Qed.
Lemma count_outputs_len r : count_outputs P r = length (outU r).
Proof. unfold count_outputs, outU.
  rewrite (fold_sum_len (fun n => length (filter isLU (get r n))) (fun n => map fst (filter isLU (get r n)))).
  - reflexivity.
  - intros x. apply map_length. Qed.
Lemma outU_in r i : In i (outU r) <-> exists u, In u (out_names P) /\ In (i, LU) (get r u).
Proof. unfold outU. rewrite in_flat_map. split.
  - intros (u & Hu & H). exists u. split; auto. apply in_map_iff in H. destruct H as [[j l] [E H]].
    apply filter_In in H. simpl in *. subst. destruct H as [H1 H2]. destruct l; try discriminate. auto.
  - intros (u & Hu & H). exists u. split; auto. apply in_map_iff. exists (i, LU). split; auto.
    apply filter_In. auto. Qed.
Lemma outU_nodup r : Uq r -> NoDup (outU r).
Proof. intros [U1 U2]. unfold outU. pose proof out_names_nodup as Hnd.
  induction (out_names P) as [|n ns IH]; simpl; [constructor|]. inversion Hnd; subst.
  apply NoDup_app_intro; auto.
  - apply NoDup_map_filter. auto.
  - intros x Hx Hy. apply in_flat_map in Hy. destruct Hy as (n' & Hn' & Hy).
    assert (n = n'); [|subst; auto]. apply (U2 n n' x).
    + apply in_map_iff in Hx. destruct Hx as [e [E He]]. apply filter_In in He. apply in_map_iff. exists e. tauto.
    + apply in_map_iff in Hy. destruct Hy as [e [E He]]. apply filter_In in He. apply in_map_iff. exists e. tauto. Qed.

(* ---------- the per-instruction track invariant ---------- *)
Definition dflt : nat * (string * label) := (0, (EmptyString, LD)).
Definition cap (i : nat) : string := cat_of prog i.

Definition TI (s : state) (i : nat) : Prop :=
  let d := tbl s in let tr := track d i in let old := last d [] in
  contiguous (map fst tr) = true /\
  chain P (map snd tr) /\
  (forall x, In x tr -> supports P (fst (snd x)) (cap i) = true) /\
  (i < entered s -> tr <> []) /\
  (forall x t', tr = x :: t' -> In (fst (snd x)) (in_names P) /\ snd (snd x) <> LS) /\
  (tr <> [] ->
     (exists u l, last tr dflt = (length d - 1, (u, l)) /\ In (i, l) (get old u)) \/
     (~ inrec old i /\ exists t u, last tr dflt = (t, (u, LU)) /\ In u (out_names P))).

Definition Dn (s : state) (i : nat) : Prop :=
  exists t u, track (tbl s) i <> [] /\ last (track (tbl s) i) dflt = (t, (u, LU)) /\ In u (out_names P).
Definition OI (s : state) : Prop :=
  forall u i l, In u (out_names P) -> In (i, l) (get (last (tbl s) []) u) -> l <> LS.
Definition EI (s : state) : Prop :=
  exists L, NoDup L /\ length L = exited s /\ forall i, In i L -> i < entered s /\ Dn s i.
Definition SI (s : state) : Prop := RI prog s /\ (forall i, TI s i) /\ OI s /\ EI s.

Lemma track_lt s i : RI prog s -> track (tbl s) i <> [] -> i < entered s.
Proof. intros [HF _] H. destruct (track (tbl s) i) as [|[t [u l]] tr] eqn:E; [congruence|].
  assert (Hin : In (t, (u, l)) (track (tbl s) i)) by (rewrite E; left; auto).
  apply track_in in Hin. destruct Hin as [Ht Hin]. rewrite Forall_forall in HF.
  destruct (HF (rec_at (tbl s) t)) as (HK & _ & Hlt); [apply nth_In; auto|].
  apply Hlt. exists u, l. apply (places_get _ _ _ _ HK). auto. Qed.

Lemma last_map {A B} (g : A -> B) : forall l a, l <> [] -> last (map g l) (g a) = g (last l a).
Proof. induction l as [|x l IH]; intros a H; [congruence|]. destruct l as [|y l]; [reflexivity|].
  change (last (map g (x :: y :: l)) (g a)) with (last (map g (y :: l)) (g a)).
  change (last (x :: y :: l) a) with (last (y :: l) a). apply IH. discriminate. Qed.

Lemma SI_init : SI (init_state prog).
Proof. split; [split; simpl; [constructor|lia]|]. split; [|split].
  - intros i. unfold TI. cbn [tbl init_state entered]. rewrite track_nil. simpl.
    split; auto. split; auto. split; [tauto|]. split; [lia|]. split; [discriminate|congruence].
  - intros u i l _ []. 
  - exists []. split; [constructor|]. split; auto. intros i []. Qed.

Lemma last_In {A} (l : list A) a : l <> [] -> In (last l a) l.
Proof. intros H. destruct (exists_last H) as (l' & x & ->). rewrite last_last. apply in_or_app. right; left; auto. Qed.

Lemma SI_step s s' : SI s -> run_cycle P prog s = inl s' -> SI s'.
Proof. intros (HR & HT & HO & HE) Hrun.
  destruct (RI_step P Hwf prog s s' HR Hrun) as (r3 & Htbl & HR' & Hent & Hex & S4 & S1 & S2 & S3).
  cbv zeta in S4, S1, S2, S3. unfold OI in HO.
  pose proof (RI_last prog s HR) as (HKo & HUo & Hlto).
  set (old := last (tbl s) []) in *.
  assert (Hr3 : rec_ok (entered s') r3).
  { destruct HR' as [HF _]. rewrite Htbl in HF. apply Forall_app in HF. destruct HF as [_ HF]. inversion HF; auto. }
  destruct Hr3 as (HK3 & HU3 & Hlt3).
  assert (Hlast' : last (tbl s') [] = r3) by (rewrite Htbl; apply last_last).
  assert (Hlen' : length (tbl s') - 1 = length (tbl s)) by (rewrite Htbl, app_length; simpl; lia).
  assert (Hgone : forall i, i < entered s -> ~ inrec old i -> ~ inrec r3 i).
  { intros i Hi Hno (u & l' & Hin).
    destruct (S1 _ _ _ Hin) as [(l & G & _)|[(_ & h & l & _ & G & _)|(_ & G & _)]].
    - apply Hno. exists u, l; auto.
    - apply Hno. exists h, l; auto.
    - lia. }
  assert (Hflush : forall u i l, In u (out_names P) -> In (i, l) (get old u) -> l <> LD -> ~ inrec r3 i).
  { intros u i l Hu Hin Hl (u' & l' & Hin').
    destruct (S1 _ _ _ Hin') as [(l0 & G & G2 & _)|[(_ & h & l0 & Hp & G & _)|(_ & G & _)]].
    - destruct (Uq_same _ _ _ _ _ _ HUo Hin G) as [<- <-]. auto.
    - destruct (Uq_same _ _ _ _ _ _ HUo Hin G) as [<- _]. apply (preds_not_out P Hwf _ _ Hp Hu).
    - assert (i < entered s) by (apply Hlto; exists u, l; auto). lia. }
  assert (HT' : forall i, TI s' i).
  { intros i. destruct (HT i) as (T1 & T2 & T3 & T4 & T5 & T6). unfold TI. cbv zeta.
    rewrite Hlast', Hlen', Htbl, track_snoc. fold old in T6.
    set (tr := track (tbl s) i) in *.
    destruct (places_spec r3 i HK3 HU3) as [[Ep Hno]|(u & l' & Ep & Hin)]; rewrite Ep; cbn [map].
    - rewrite app_nil_r. split; auto. split; auto. split; auto. split; [|split; auto].
      + intros Hi. destruct (Nat.lt_ge_cases i (entered s)) as [Hlt|Hge]; [apply T4; exact Hlt|].
        exfalso. apply Hno. apply S4. lia.
      + intros Hne. destruct (T6 Hne) as [(u & l & E & Hin)|(Hn & t & u & E & Hu)].
        * right. split; auto. destruct (S2 _ _ _ Hin) as [G|(G1 & G2 & G3)]; [contradiction|].
          exists (length (tbl s) - 1), u. split; auto. rewrite E.
          assert (l = LU) by (specialize (HO u i l G1 Hin); destruct l; congruence). subst; auto.
        * right. split; auto. exists t, u. auto.
    - assert (Hinold : forall u0 l0, In (i, l0) (get old u0) ->
                tr <> [] /\ last tr dflt = (length (tbl s) - 1, (u0, l0)) /\
                S (length (tbl s) - 1) = length (tbl s) /\ supports P u0 (cap i) = true).
      { intros u0 l0 Hio. assert (Hne : tr <> []) by (apply T4; apply Hlto; exists u0, l0; auto). split; auto.
        destruct (T6 Hne) as [(u1 & l1 & E & Hin1)|(Hn & _)]; [|exfalso; apply Hn; exists u0, l0; auto].
        destruct (Uq_same _ _ _ _ _ _ HUo Hio Hin1) as [<- <-]. split; auto. split.
        - destruct (length (tbl s)) eqn:El; [|lia]. apply length_zero_iff_nil in El. exfalso.
          unfold old in Hio. rewrite El in Hio. destruct Hio.
        - specialize (T3 (last tr dflt) (last_In tr dflt Hne)). rewrite E in T3. exact T3. }
      assert (Hprev : (tr = [] /\ In u (in_names P) /\ l' <> LS /\ supports P u (cap i) = true) \/
                (tr <> [] /\ exists u0 l0, last tr dflt = (length (tbl s) - 1, (u0, l0)) /\
                   S (length (tbl s) - 1) = length (tbl s) /\ link P (u0, l0) (u, l') /\
                   supports P u (cap i) = true)).
      { destruct (S1 _ _ _ Hin) as [(l & G & G2 & G3 & G4)|[(Hl' & h & l & Hp & G & Hl & Hs)|(Hl' & Hi & Hu & Hs)]].
        - destruct (Hinold _ _ G) as (I1 & I2 & I3 & I4). right. split; auto. exists u, l.
          split; auto. split; auto. split; auto. left. split; auto. unfold ltrans. simpl.
          destruct l; [left; split; auto|right; split; [discriminate|apply G3; discriminate]..].
        - destruct (Hinold _ _ G) as (I1 & I2 & I3 & I4). right. split; auto. exists h, l.
          split; auto. split; auto. split; auto. right. simpl. split; auto.
          intros ->. apply (preds_irrefl P Hwf _ Hp).
        - left. split; auto. destruct tr eqn:Etr; auto. exfalso.
          assert (i < entered s); [|lia]. apply track_lt; auto. fold tr. rewrite Etr. discriminate. }
      split; [|split; [|split; [|split; [|split]]]].
      + rewrite map_app. apply contiguous_snoc; auto. cbn [map fst]. intros Hne.
        destruct Hprev as [[-> _]|(Hne' & u0 & l0 & E & El & _)]; [exfalso; apply Hne; reflexivity|].
        change 0 with (fst dflt). rewrite last_map by auto. rewrite E. simpl. lia.
      + rewrite map_app. apply chain_snoc with (d0 := snd dflt); auto. cbn [map snd]. intros Hne.
        destruct Hprev as [[-> _]|(Hne' & u0 & l0 & E & El & Hlk & _)]; [exfalso; apply Hne; reflexivity|].
        rewrite last_map by auto. rewrite E. exact Hlk.
      + intros x Hx. apply in_app_iff in Hx. destruct Hx as [Hx|[<-|[]]]; auto. simpl.
        destruct Hprev as [(_ & _ & _ & G)|(_ & _ & _ & _ & _ & _ & G)]; auto.
      + intros _ H. apply app_eq_nil in H. destruct H; discriminate.
      + intros x t' E. destruct Hprev as [(-> & G1 & G2 & _)|(Hne & _)].
        * simpl in E. inversion E; subst. simpl. auto.
        * destruct tr as [|y tr0] eqn:Etr; [congruence|]. simpl in E. inversion E; subst. eapply T5; eauto.
      + intros _. left. exists u, l'. rewrite last_last. auto. }
  assert (HLgone : forall i, i < entered s -> Dn s i -> ~ inrec r3 i).
  { intros i Hi (t & u & Hne & El & Hu). destruct (HT i) as (_ & _ & _ & _ & _ & T6). fold old in T6.
    destruct (T6 Hne) as [(u1 & l1 & E & Hin1)|(Hn & _)].
    - rewrite El in E. inversion E; subst. eapply Hflush; eauto. discriminate.
    - apply Hgone; auto. }
  split; auto. split; auto. split.
  - intros u i l Hu Hin. rewrite Hlast' in Hin.
    destruct (S1 _ _ _ Hin) as [(l0 & G & G2 & G3 & G4)|[(Hl' & _)|(Hl' & _)]]; auto.
  - destruct HE as (L & HLnd & HLlen & HL). exists (L ++ outU r3). split; [|split].
    + apply NoDup_app_intro; auto; [apply outU_nodup; auto|].
      intros x Hx Hy. destruct (HL x Hx) as [Hx1 Hx2]. apply (HLgone x Hx1 Hx2).
      apply outU_in in Hy. destruct Hy as (u & _ & Hy). exists u, LU. auto.
    + rewrite app_length, HLlen, Hex, count_outputs_len. reflexivity.
    + intros i Hi. apply in_app_iff in Hi. destruct Hi as [Hi|Hi].
      * destruct (HL i Hi) as [Hi1 Hi2]. split; [lia|]. pose proof (HLgone i Hi1 Hi2) as Hno.
        destruct Hi2 as (t & u & Hne & El & Hu). exists t, u. rewrite Htbl, track_snoc.
        destruct (places_spec r3 i HK3 HU3) as [[Ep _]|(u2 & l2 & _ & Hin2)]; [|exfalso; apply Hno; exists u2, l2; auto].
        rewrite Ep. simpl. rewrite app_nil_r. auto.
      * apply outU_in in Hi. destruct Hi as (u & Hu & Hin). split; [apply Hlt3; exists u, LU; auto|].
        exists (length (tbl s)), u. rewrite Htbl, track_snoc.
        destruct (places_spec r3 i HK3 HU3) as [[_ Hno]|(u2 & l2 & Ep & Hin2)]; [exfalso; apply Hno; exists u, LU; auto|].
        destruct (Uq_same _ _ _ _ _ _ HU3 Hin Hin2) as [<- <-]. rewrite Ep. simpl. rewrite last_last.
        split; auto. intros H. apply app_eq_nil in H. destruct H; discriminate. Qed.

Lemma reach_SI s : reach P prog s -> SI s.
Proof. induction 1 as [|s s' Hr IH Hc Hrun]; [apply SI_init|eapply SI_step; eauto]. Qed.

Lemma all_done s : SI s -> loop_cond prog s = false -> forall i, i < length prog -> Dn s i.
Proof. intros (HR & _ & _ & (L & Hnd & Hlen & HL)) Hc i Hi.
  unfold loop_cond in Hc. apply orb_false_iff in Hc. destruct Hc as [Hc1 Hc2].
  apply Nat.ltb_ge in Hc1, Hc2. destruct HR as [_ Hle].
  assert (Hincl : incl (seq 0 (entered s)) L).
  { apply NoDup_length_incl; auto.
    - rewrite seq_length. lia.
    - intros x Hx. apply in_seq. destruct (HL x Hx). lia. }
  apply HL. apply Hincl. apply in_seq. lia. Qed.

Lemma instr_ok_of_state s tg i : SI s ->
  (tg = TDone /\ loop_cond prog s = false) \/ tg = TStalled ->
  i < length prog -> C03_instr_ok P prog tg (tbl s) i = true.
Proof. intros HS Htg Hi. pose proof HS as (HR & HT & HO & HE).
  pose proof (RI_last prog s HR) as (HKo & HUo & Hlto).
  pose proof (HT i) as HTi. unfold TI in HTi. cbv zeta in HTi. unfold dflt in HTi.
  unfold C03_instr_ok. destruct (track (tbl s) i) as [|x t] eqn:Etr; cbv beta iota zeta.
  - destruct Htg as [[-> Hc]| ->]; auto. exfalso.
    destruct (all_done s HS Hc i Hi) as (t0 & u & Hne & _). auto.
  - destruct HTi as (T1 & T2 & T3 & T4 & T5 & T6).
    match goal with |- context [segs_ok P _ ?b None _] => set (retired := b) end.
    assert (Hret : retired = true ->
              exists t0 u, last (x :: t) (0, (EmptyString, LD)) = (t0, (u, LU)) /\ In u (out_names P)).
    { unfold retired. destruct Htg as [[-> Hc]| ->].
      - intros _. destruct (all_done s HS Hc i Hi) as (t0 & u & _ & El & Hu). rewrite Etr in El. eauto.
      - rewrite rec_at_last. intros Hn.
        destruct (places_spec (last (tbl s) []) i HKo HUo) as [[Ep Hno]|(u & l & Ep & _)].
        + destruct (T6 ltac:(discriminate)) as [(u & l & _ & Hin)|(_ & t0 & u & El & Hu)]; [|eauto].
          exfalso; apply Hno; exists u, l; auto.
        + rewrite Ep in Hn. discriminate. }
    destruct (T5 x t eq_refl) as [T5a T5b].
    destruct (segs_final P (cat_of prog i) rk rk_lt retired (snd x) (map snd t) (EmptyString, LD)) as [G1 G2]; auto.
    + intros z Hz. change (snd x :: map snd t) with (map snd (x :: t)) in Hz. apply in_map_iff in Hz.
      destruct Hz as [x0 [<- Hx0]]. apply T3; auto.
    + intros Hr. destruct (Hret Hr) as (t0 & u & El & _).
      change (snd x :: map snd t) with (map snd (x :: t)).
      change (EmptyString, LD) with (snd (0, (EmptyString, LD))).
      rewrite last_map by discriminate. rewrite El. simpl. discriminate.
    + rewrite !andb_true_iff. split; [split; [split|]|]; auto.
      destruct retired eqn:Er; auto. cbn [negb orb]. destruct (Hret eq_refl) as (t0 & u & El & Hu).
      rewrite El. cbv beta iota. apply andb_true_iff. split; [apply mem_str_In; auto|reflexivity]. Qed.

Lemma checkb_of_state s tg : reach P prog s ->
  (tg = TDone /\ loop_cond prog s = false) \/ tg = TStalled ->
  C03_checkb P prog tg (tbl s) = true.
Proof. intros Hreach Htg. pose proof (reach_SI s Hreach) as HS. pose proof HS as (HR & HT & HO & HE).
  destruct HR as [HF Hle]. rewrite Forall_forall in HF.
  unfold C03_checkb. cbv zeta. rewrite !andb_true_iff. split; [split|].
  - apply forallb_forall. intros r Hr. apply forallb_forall. intros [k v] Hkv. apply forallb_forall.
    intros [j l] He. simpl. apply Nat.ltb_lt. destruct (HF r Hr) as (HK & _ & Hlt).
    assert (j < entered s); [|lia]. apply Hlt. exists k, l. simpl in He.
    assert (Eg : @get entry r k = v) by (apply get_in; auto). rewrite Eg. exact He.
  - apply forallb_forall. intros i _. destruct (appears (tbl s) (S i)) eqn:E; auto. simpl.
    apply appears_track. apply appears_track in E. apply (track_lt s (S i)) in E; [|split; [apply Forall_forall|]; auto].
    destruct (HT i) as (_ & _ & _ & T4 & _). apply T4. lia.
  - apply forallb_forall. intros i Hi. apply in_seq in Hi. apply instr_ok_of_state; auto. lia. Qed.

End Routes.

Lemma C03_routes_lemma :
  forall (P : proc) (prog : list instr) (fuel : nat) (tg : dtag) (d : diagram),
    wf_procb P = true -> sim_result fuel P prog tg d -> C03_checkb P prog tg d = true.
Proof. intros P prog fuel tg d Hwf [[-> H]|[-> H]].
  - apply simulate_done in H. destruct H as (s & Hr & <- & Hc). apply checkb_of_state; auto.
  - apply simulate_stalled in H. destruct H as (s & Hr & <- & _). apply checkb_of_state; auto. Qed.
