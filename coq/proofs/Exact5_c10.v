(* Exact5_c10.v -- the C10 / C11-acceptance judges are implied by the checkers the theorems are stated with. *)
From PS Require Import Base Str Sim Graph Loader Diag LoaderSpec C12Exact C10Exact Lists.

Lemma list_eqb_str_eq a : forall b, list_eqb String.eqb a b = true -> a = b.
Proof.
  induction a as [|x s IH]; intros [|y t]; simpl; try discriminate; auto.
  intros H. apply andb_prop in H. destruct H as [H1 H2].
  apply String.eqb_eq in H1. subst. f_equal. auto.
Qed.
Lemma same_members_refl a : same_members a a = true.
Proof.
  unfold same_members. assert (H : forallb (fun x => mem_str x a) a = true).
  { apply forallb_forall. intros x Hx. apply mem_str_In. exact Hx. }
  rewrite H. reflexivity.
Qed.
Lemma unit_eqb_same a b : unit_eqb a b = true -> unit_same a b = true.
Proof.
  unfold unit_eqb, unit_same. intros H.
  repeat (apply andb_prop in H; destruct H as [H ?]).
  repeat match goal with Hx : list_eqb String.eqb _ _ = true |- _ => apply list_eqb_str_eq in Hx end.
  repeat match goal with Hx : _ = _ :> list string |- _ => rewrite Hx; clear Hx end.
  rewrite !same_members_refl.
  repeat match goal with Hx : _ = true |- _ => rewrite Hx; clear Hx end.
  reflexivity.
Qed.

Lemma C10_check_implies_judge_lemma : forall d P, C10_checkb d P = true -> C10_judgeb d P = true.
Proof.
  intros d P. unfold C10_checkb, C10_judgeb. cbv zeta. intros H.
  repeat (apply andb_prop in H; destruct H as [H ?]).
  match goal with Hx : forallb _ (all_units P) = true |- _ => rename Hx into Hu end.
  assert (Hu' : forallb (fun u => match d_unit d (u_name u) with
                                   | Some x => unit_same u (expected_unit (mk_ctx d) x)
                                   | None => false end) (all_units P) = true).
  { apply forallb_forall. intros u Hin. rewrite forallb_forall in Hu. specialize (Hu u Hin).
    destruct (d_unit d (u_name u)); [apply unit_eqb_same; exact Hu|discriminate]. }
  repeat (apply andb_true_intro; split); assumption.
Qed.

Lemma C11_accept_implies_judge_lemma : forall d P, C11_accept_ok d P = true -> C11_accept_judgeb d P = true.
Proof.
  intros d P. unfold C11_accept_ok, C11_accept_judgeb. intros H.
  apply andb_prop in H. destruct H as [H H3]. apply andb_prop in H. destruct H as [H1 H2].
  rewrite H1, H2, (C10_check_implies_judge_lemma d P H3). reflexivity.
Qed.
