(* E2E_proof.v -- composition of the property theorems along the whole pipeline:
   loader (C09) + locks_ok => wf_procb; read_program + compile_program (C15) => wf_progb;
   then C08 gives the run and C01..C08, C16 apply to it. *)
From Coq Require Import String Ascii List Lia Bool Permutation.
From PS Require Import Base Str Bag RegAccess Sim Program Isa Graph Loader Cli Diag LoaderSpec TextSpec
  Lists Graph_facts C12_lists C15_proof
  C01_proof C02_proof C03_proof C04_proof C05_proof C06_proof C07_proof C08_proof C09_proof C16_proof.

(* ---------- the processor guard ---------- *)
Lemma E2E_wf_procb d P :
  load_proc_desc d = LoadOk P -> locks_ok P = true -> wf_procb P = true.
Proof.
  intros Hl Hk. destruct (C09_accepted_is_simulable_lemma d P Hl) as (H1 & H2 & H3).
  unfold wf_procb. rewrite H1, H3, H2, Hk. reflexivity.
Qed.

(* ---------- the program guard ---------- *)
Lemma sorted_uniq_nodupb l : nodupb String.eqb (sorted_uniq l) = true.
Proof.
  apply C12_lists.nodupb_NoDup. unfold sorted_uniq, sort_str.
  eapply Permutation_NoDup; [apply isort_perm|]. apply dedup_by_NoDup.
Qed.

Lemma create_instr_srcs line txt reg pi reg' :
  create_instr line txt reg = inl (pi, reg') -> exists srcs, pi_srcs pi = sorted_uniq srcs.
Proof.
  unfold create_instr. destruct (split_ws1 txt) as [ins [rest|]]; [|discriminate].
  destruct (get_operands (split_operands rest) 1 line ins reg) as [[[|dst srcs] r]|e]; try discriminate.
  intros H. inversion H; subst. exists srcs. reflexivity.
Qed.

Lemma read_lines_srcs lines : forall n reg p,
  read_lines lines n reg = ProgOk p ->
  Forall (fun pi => nodupb String.eqb (pi_srcs pi) = true) p.
Proof.
  induction lines as [|l t IH]; intros n reg p H; cbn [read_lines] in H.
  - inversion H; subst. constructor.
  - destruct (strip l) eqn:Es.
    + eapply IH; eauto.
    + destruct (create_instr n (String a s) reg) as [[pi reg']|e] eqn:Ec; [|discriminate].
      destruct (read_lines t (S n) reg') as [p'|e] eqn:Er; [|discriminate].
      inversion H; subst. constructor.
      * apply create_instr_srcs in Ec. destruct Ec as [srcs ->]. apply sorted_uniq_nodupb.
      * eapply IH; eauto.
Qed.

Lemma E2E_wf_progb lines p isa hw :
  read_program lines = ProgOk p -> compile_program p isa = CompOk hw -> wf_progb hw = true.
Proof.
  intros Hr Hc. apply read_lines_srcs in Hr. apply C15_compile_ok_lemma in Hc.
  unfold wf_progb. induction Hc as [|pi hi p hw (Hs & _ & _) Hc IH]; [reflexivity|].
  inversion Hr; subst. cbn [forallb]. rewrite Hs, H1. cbn [andb]. apply IH; auto.
Qed.

Lemma E2E_guards_lemma :
  forall d P spec isa lines p hw,
    load_proc_desc d = LoadOk P -> locks_ok P = true ->
    load_isa spec (get_abilities P) = IsaOk isa ->
    read_program lines = ProgOk p -> compile_program p isa = CompOk hw ->
    wf_procb P = true /\ wf_progb hw = true.
Proof.
  intros d P spec isa lines p hw Hl Hk _ Hr Hc. split.
  - eapply E2E_wf_procb; eauto.
  - eapply E2E_wf_progb; eauto.
Qed.

(* ---------- the pipeline ---------- *)
Lemma get_In_nodup {A} (r : list (string * list A)) u es :
  NoDup (map fst r) -> In (u, es) r -> get r u = es.
Proof.
  induction r as [|[k v] t IH]; intros Hnd Hin; [destruct Hin|].
  cbn [map fst] in Hnd. inversion Hnd; subst. cbn [get].
  destruct Hin as [Heq|Hin].
  - inversion Heq; subst. rewrite String.eqb_refl. reflexivity.
  - destruct (String.eqb_spec u k) as [->|Hn].
    + exfalso. apply H1. apply in_map_iff. exists (k, es). auto.
    + apply IH; auto.
Qed.

Lemma E2E_pipeline_lemma :
  forall d P spec isa lines p hw,
    load_proc_desc d = LoadOk P -> locks_ok P = true ->
    load_isa spec (get_abilities P) = IsaOk isa ->
    read_program lines = ProgOk p -> compile_program p isa = CompOk hw ->
    exists tg dg,
      sim_result (S (cycle_bound P hw)) P hw tg dg /\ length dg <= cycle_bound P hw /\
      C01_checkb P hw tg dg = true /\ C02_checkb P hw dg = true /\ C03_checkb P hw tg dg = true /\
      C04_checkb P dg = true /\ C05_checkb P hw dg = true /\ C06_checkb P hw dg = true /\
      C07_checkb P hw dg = true /\ C08_checkb P hw tg dg = true /\
      (tg = TDone ->
       exists rows, sim_rows dg (length hw) = Some rows /\ length rows = length hw /\
                    forall k t, k < length hw -> nth t (nth k rows []) EmptyString = cell_text dg t k).
Proof.
  intros d P spec isa lines p hw Hl Hk Hi Hr Hc.
  destruct (E2E_guards_lemma d P spec isa lines p hw Hl Hk Hi Hr Hc) as [HP Hw].
  destruct (C08_terminates_within_bound_lemma P hw HP Hw) as (tg & dg & Hs & Hlen).
  exists tg, dg. split; [exact Hs|]. split; [exact Hlen|].
  split; [eapply C01_checker_accepts_lemma; eauto|].
  split; [eapply C02_checker_accepts_lemma; eauto|].
  split; [eapply C03_routes_lemma; eauto|].
  split.
  { apply C04_checkb_spec_lemma. intros r Hr' u es Hin.
    destruct (C03_unique_place_lemma P hw _ tg dg HP Hs r Hr') as [Hnd _].
    rewrite <- (get_In_nodup r u es Hnd Hin).
    assert (Hun : NoDup (unit_names P)).
    { destruct (C09_accepted_is_simulable_lemma d P Hl) as (H1 & _). clear - H1.
      revert H1. generalize (unit_names P). intros l. induction l as [|x l IH]; cbn [nodupb]; intros H.
      - constructor.
      - apply andb_true_iff in H. destruct H as [H1 H2]. constructor; auto.
        intros Hx. apply negb_true_iff in H1.
        assert (existsb (String.eqb x) l = true).
        { apply existsb_exists. exists x. split; auto. apply String.eqb_refl. }
        congruence. }
    eapply (C04_width_lemma P Hun hw); [|exact Hr'].
    destruct Hs as [[_ Hs]|[_ Hs]]; eauto. }
  split; [eapply C05_mem_port_lemma; eauto|].
  split; [eapply C06_issue_lemma; eauto|].
  split; [eapply C07_advance_lemma; eauto|].
  split; [eapply C08_checker_accepts_lemma; eauto|].
  intros ->. destruct Hs as [[_ Hs]|[Hd _]]; [|discriminate].
  destruct (C16_cells_lemma P hw _ dg HP Hs) as (rows & H1 & H2 & H3).
  exists rows. split; [exact H1|]. split; [exact H2|].
  intros k t Hk'. destruct (H3 k Hk') as [H4 _]. apply H4.
Qed.
