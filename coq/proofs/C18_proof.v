(* C18_proof.v -- case-insensitive strings: equality, hash, order, containment, lower/upper facts. *)
From Coq Require Import String Ascii NArith Lia Bool.
From PS Require Import Base Str C18_strord.

Lemma C18_eq_lemma : forall a b, ic_eqb a b = true <-> lower a = lower b.
Proof. intros. unfold ic_eqb. apply String.eqb_eq. Qed.

Lemma C18_hash_lemma : forall a b, ic_eqb a b = true -> ic_hash_key a = ic_hash_key b.
Proof. intros a b H. apply C18_eq_lemma in H. exact H. Qed.

Lemma C18_order_lemma :
  (forall a b, ic_ltb a b = String.ltb (lower a) (lower b)) /\
  (forall a, ic_ltb a a = false) /\
  (forall a b c, ic_ltb a b = true -> ic_ltb b c = true -> ic_ltb a c = true) /\
  (forall a b, (ic_ltb a b = true /\ ic_eqb a b = false /\ ic_ltb b a = false) \/
               (ic_ltb a b = false /\ ic_eqb a b = true /\ ic_ltb b a = false) \/
               (ic_ltb a b = false /\ ic_eqb a b = false /\ ic_ltb b a = true)).
Proof.
  split; [reflexivity|]. split; [intros; apply sltb_irrefl|].
  split; [intros a b c; apply sltb_trans|].
  intros a b. unfold ic_ltb, ic_eqb, String.ltb.
  rewrite (String.compare_antisym (lower b) (lower a)).
  destruct (String.compare (lower a) (lower b)) eqn:E; simpl.
  - apply scompare_eq in E. rewrite E, String.eqb_refl. auto.
  - left. repeat split; auto. apply String.eqb_neq. intros H. apply scompare_eq in H. congruence.
  - right; right. repeat split; auto. apply String.eqb_neq. intros H. apply scompare_eq in H. congruence.
Qed.

Lemma prefixb_spec p s : prefixb p s = true <-> exists t, s = (p ++ t)%string.
Proof.
  revert s; induction p as [|a p IH]; intros s; simpl.
  - split; auto. intros _. exists s; auto.
  - destruct s as [|b s].
    + split; [congruence|]. intros [t H]; discriminate.
    + rewrite andb_true_iff, IH. split.
      * intros [H [t ->]]. apply Ascii.eqb_eq in H. subst. exists t; auto.
      * intros [t H]. injection H as -> ->. split; [apply Ascii.eqb_refl|]. exists t; auto.
Qed.

Lemma substrb_spec p s : substrb p s = true <-> exists a t, s = (a ++ p ++ t)%string.
Proof.
  induction s as [|c s IH].
  - cbn [substrb]. rewrite orb_false_r, prefixb_spec. split.
    + intros [t H]. exists EmptyString, t. auto.
    + intros [a [t H]]. destruct a; [exists t; auto|discriminate].
  - cbn [substrb]. rewrite orb_true_iff, prefixb_spec, IH. split.
    + intros [[t H]|[a [t H]]].
      * exists EmptyString, t; auto.
      * exists (String c a), t. simpl. congruence.
    + intros [a [t H]]. destruct a as [|c' a].
      * left. exists t; auto.
      * right. simpl in H. injection H as -> ->. exists a, t; auto.
Qed.

Lemma C18_contains_lemma :
  forall self item, ic_contains self item = true <->
                    exists p s, lower self = (p ++ lower item ++ s)%string.
Proof. intros. unfold ic_contains. apply substrb_spec. Qed.

Lemma C18_str_lemma : forall a, ic_str a = a.
Proof. reflexivity. Qed.

Lemma lower_ascii_idem c : lower_ascii (lower_ascii c) = lower_ascii c.
Proof. destruct c as [[] [] [] [] [] [] [] []]; vm_compute; reflexivity. Qed.

Lemma lower_upper_ascii c : lower_ascii (upper_ascii c) = lower_ascii c.
Proof. destruct c as [[] [] [] [] [] [] [] []]; vm_compute; reflexivity. Qed.

Lemma lower_idem a : lower (lower a) = lower a.
Proof. unfold lower. induction a; simpl; auto. rewrite lower_ascii_idem, IHa; auto. Qed.

Lemma lower_upper a : lower (upper a) = lower a.
Proof. unfold lower, upper. induction a; simpl; auto. rewrite lower_upper_ascii, IHa; auto. Qed.

Lemma C18_lower_facts_lemma :
  (forall a, lower (lower a) = lower a) /\ (forall a, ic_eqb (lower a) a = true) /\
  (forall a, ic_eqb (upper a) a = true).
Proof.
  split; [apply lower_idem|]. split; intros a; unfold ic_eqb.
  - rewrite lower_idem. apply String.eqb_refl.
  - rewrite lower_upper. apply String.eqb_refl.
Qed.
