(* C04 (unit width never exceeded): proved end to end on the simulator model. *)
From Coq Require Import Lia.
From PS Require Import Base Bag RegAccess Sim Diag Lists.

Section Width.
Variable P : proc.
Definition bounded (r : record) := forall k, length (get r k) <= width_of P k.

Hypothesis Hnd : NoDup (unit_names P).

Lemma width_of_unit u : In u (all_units P) -> width_of P (u_name u) = u_width u.
Proof. intros Hin. unfold width_of, find_unit.
  rewrite (find_nodup u_name (all_units P) u Hnd Hin). reflexivity. Qed.
Lemma w_dst f : In f (p_out P ++ p_int P) -> width_of P (u_name (f_model f)) = u_width (f_model f).
Proof. intros H. apply width_of_unit. unfold all_units. rewrite !in_app_iff.
  apply in_app_iff in H. destruct H as [H|H]; [right; right; left|right; right; right]; apply in_map; auto. Qed.
Lemma w_in u : In u (p_inout P ++ p_in P) -> width_of P (u_name u) = u_width u.
Proof. intros H. apply width_of_unit. unfold all_units. rewrite !in_app_iff.
  apply in_app_iff in H. tauto. Qed.

Lemma bounded_set_le r k v : bounded r -> length v <= length (get r k) -> bounded (set r k v).
Proof. intros Hb Hl k'. destruct (string_dec k k') as [->|Hne].
  - rewrite gss. specialize (Hb k'). lia.
  - rewrite gso; auto. Qed.

Lemma flush_bounded r : bounded r -> bounded (flush P r).
Proof. unfold flush. generalize (out_names P). intros ns. revert r.
  induction ns as [|n ns IH]; intros r Hb; simpl; auto.
  apply IH. apply bounded_set_le; auto. apply filter_len. Qed.

Lemma walk_bounded prog f busy : forall cs r used moved,
  bounded r -> width_of P (u_name (f_model f)) = u_width (f_model f) ->
  bounded (fst (fst (walk prog f busy cs r used moved))).
Proof.
  induction cs as [|c t IH]; intros r used moved Hb Hw; simpl; auto.
  destruct (Nat.eqb_spec (length (get r (u_name (f_model f)))) (u_width (f_model f))); auto.
  destruct ((busy || used) && _); auto.
  apply IH; auto. intros k. destruct (string_dec (u_name (f_model f)) k) as [He|Hne].
  - subst k. rewrite gss, app_length; simpl. specialize (Hb (u_name (f_model f))). lia.
  - rewrite gso; auto.
Qed.

Lemma clr_bounded moved : forall r, bounded r -> bounded (clr r moved).
Proof. unfold clr. generalize (isort (fun a b => snd b <=? snd a) moved). intros l.
  induction l as [|c l IH]; intros r Hb; simpl; auto.
  apply IH. apply bounded_set_le; auto. apply del_nth_len. Qed.

Lemma fill_unit_bounded prog st f :
  In f (p_out P ++ p_int P) -> bounded (fst st) -> bounded (fst (fill_unit prog st f)).
Proof. intros Hin Hb. destruct st as [r busy]. unfold fill_unit.
  pose proof (walk_bounded prog f busy (isort (fun a b => ix_of r a <=? ix_of r b) (cands prog f r))
                r false [] Hb (w_dst f Hin)) as Hw.
  destruct (walk prog f busy _ r false []) as [[r' used] moved]. simpl in *. apply clr_bounded; auto. Qed.

Lemma mov_flights_bounded prog r : bounded r -> bounded (fst (mov_flights P prog r)).
Proof. intros Hb. unfold mov_flights.
  assert (G: forall l st, incl l (p_out P ++ p_int P) -> bounded (fst st) ->
                          bounded (fst (fold_left (fill_unit prog) l st))).
  { induction l as [|f l IH]; intros st Hi Hs; simpl; auto.
    apply IH; [intros x Hx; apply Hi; right; auto|]. apply fill_unit_bounded; auto. apply Hi; left; auto. }
  apply G; [apply incl_refl|]. simpl. apply flush_bounded; auto. Qed.

Lemma try_ports_bounded cat : forall ports r mu ix r' m', incl ports (p_inout P ++ p_in P) -> bounded r ->
  try_ports cat ports r mu ix = Some (r', m') -> bounded r'.
Proof. induction ports as [|u t IH]; intros r mu ix r' m' Hi Hb H; simpl in H; [discriminate|].
  assert (Ht: incl t (p_inout P ++ p_in P)) by (intros x Hx; apply Hi; right; auto).
  destruct (mem_str cat (u_caps u)); [|eapply IH; eauto].
  destruct (Nat.eqb_spec (length (get r (u_name u))) (u_width u)).
  - rewrite orb_true_r in H. eapply IH; eauto.
  - destruct (mu && mem_str cat (u_mem u)); simpl in H; [eapply IH; eauto|].
    inversion H; subst; clear H. intros k. destruct (string_dec (u_name u) k) as [He|Hne].
    + subst k. rewrite gss, app_length; simpl. specialize (Hb (u_name u)).
      rewrite (w_in u) in *; [lia| |]; apply Hi; left; auto.
    + rewrite gso; auto.
Qed.

Lemma fill_inputs_bounded prog : forall fuel r mu ent, bounded r ->
  bounded (fst (fill_inputs fuel prog (in_ports_sorted P) r mu ent)).
Proof. induction fuel as [|f IH]; intros r mu ent Hb; simpl; auto.
  destruct (nth_error prog ent) as [ins|]; auto.
  destruct (try_ports (i_cat ins) (in_ports_sorted P) r mu ent) as [[r' m']|] eqn:E; auto.
  apply IH. eapply try_ports_bounded; eauto. apply isort_incl. Qed.

(* hazards only relabel *)
Lemma stall_unit_len u old prog qs : forall es cl es' cl',
  stall_unit u old prog qs es cl = Ok (es', cl') -> length es' = length es.
Proof. induction es as [|[i l] t IH]; intros cl es' cl' H; simpl in H.
  - inversion H; auto.
  - destruct (regs_loaded old i).
    + destruct (stall_unit u old prog qs t cl) as [[t' c']|] eqn:E; [|discriminate].
      inversion H; subst; simpl. f_equal; eauto.
    + destruct (nth_error prog i) as [ins|]; [|discriminate].
      destruct (regs_avail u i ins qs) as [[regs|]|]; [| |discriminate].
      * destruct (stall_unit u old prog qs t _) as [[t' c']|] eqn:E; [|discriminate].
        inversion H; subst; simpl. f_equal; eauto.
      * destruct (stall_unit u old prog qs t cl) as [[t' c']|] eqn:E; [|discriminate].
        inversion H; subst; simpl. f_equal; eauto.
Qed.
Lemma hazards_len old prog qs : forall r cl r' cl',
  chk_hazards_units P old prog qs r cl = Ok (r', cl') -> forall k, length (get r' k) = length (get r k).
Proof. induction r as [|[n es] t IH]; intros cl r' cl' H k; simpl in H.
  - inversion H; auto.
  - destruct es as [|e es].
    + destruct (chk_hazards_units P old prog qs t cl) as [[t' c']|] eqn:E2; [|discriminate].
      inversion H; subst; simpl. destruct (String.eqb k n); eauto.
    + destruct (find_unit P n); [|discriminate].
      destruct (stall_unit u (get old n) prog qs (e :: es) cl) as [[es' c']|] eqn:E; [|discriminate].
      destruct (chk_hazards_units P old prog qs t c') as [[t' c'']|] eqn:E2; [|discriminate].
      inversion H; subst. cbn [get]. destruct (String.eqb k n); eauto using stall_unit_len. Qed.

Definition all_bounded (d : list record) := Forall bounded d.

Lemma last_bounded d : all_bounded d -> bounded (last d []).
Proof. intros Hb. destruct d as [|a t] eqn:E; [intros k; simpl; lia|].
  unfold all_bounded in Hb. rewrite Forall_forall in Hb. apply Hb.
  destruct (@exists_last _ (a :: t)) as [l' [x Hx]]; [congruence|].
  rewrite Hx, last_last. apply in_or_app; right; left; auto. Qed.

Lemma run_cycle_bounded prog s s' :
  all_bounded (tbl s) -> run_cycle P prog s = inl s' -> all_bounded (tbl s').
Proof. intros Hb H. unfold run_cycle in H.
  pose proof (last_bounded _ Hb) as Hold.
  pose proof (mov_flights_bounded prog _ Hold) as H1.
  destruct (mov_flights P prog (last (tbl s) [])) as [r1 busy]. simpl in H1.
  pose proof (fill_inputs_bounded prog (S (length prog)) r1 busy (entered s) H1) as H2.
  destruct (fill_inputs _ prog _ r1 busy (entered s)) as [r2 ent]. simpl in H2.
  destruct (chk_hazards_units P _ prog (qs_ s) r2 []) as [[r3 cl]|] eqn:E; [|discriminate].
  destruct (apply_clears (qs_ s) cl); [|discriminate].
  destruct (bag_eqb r3 _); [discriminate|]. inversion H; subst; simpl.
  apply Forall_app; split; auto. constructor; auto.
  intros k. rewrite (hazards_len _ _ _ _ _ _ _ E k). apply H2. Qed.

Lemma run_cycle_stalled prog s d : run_cycle P prog s = inr (Stalled d) -> d = tbl s.
Proof. unfold run_cycle.
  destruct (mov_flights P prog (last (tbl s) [])) as [r1 busy].
  destruct (fill_inputs _ prog _ r1 busy (entered s)) as [r2 ent].
  destruct (chk_hazards_units P _ prog (qs_ s) r2 []) as [[r3 cl]|]; [|discriminate].
  destruct (apply_clears (qs_ s) cl); [|discriminate].
  destruct (bag_eqb r3 _); [|discriminate]. intros H; inversion H; auto. Qed.
Lemma run_cycle_not_done prog s d : run_cycle P prog s <> inr (Done d).
Proof. unfold run_cycle.
  destruct (mov_flights P prog (last (tbl s) [])) as [r1 busy].
  destruct (fill_inputs _ prog _ r1 busy (entered s)) as [r2 ent].
  destruct (chk_hazards_units P _ prog (qs_ s) r2 []) as [[r3 cl]|]; [|discriminate].
  destruct (apply_clears (qs_ s) cl); [|discriminate].
  destruct (bag_eqb r3 _); discriminate. Qed.

Lemma loop_bounded prog : forall fuel s d, all_bounded (tbl s) ->
  (loop fuel P prog s = Done d \/ loop fuel P prog s = Stalled d) -> all_bounded d.
Proof. induction fuel as [|f IH]; intros s d Hb H; simpl in H; [destruct H; discriminate|].
  destruct ((entered s <? length prog) || (exited s <? entered s)).
  - destruct (run_cycle P prog s) as [s'|o] eqn:E.
    + eapply IH; [eapply run_cycle_bounded; eauto|auto].
    + destruct H as [H|H]; subst o.
      * exfalso. eapply run_cycle_not_done; eauto.
      * apply run_cycle_stalled in E. subst; auto.
  - destruct H as [H|H]; inversion H; subst; auto. Qed.

Lemma C04_width_lemma prog fuel d :
  (simulate fuel P prog = Done d \/ simulate fuel P prog = Stalled d) ->
  forall r, In r d -> forall k, length (get r k) <= width_of P k.
Proof. intros H r Hr k. unfold simulate in H. apply loop_bounded in H; [|constructor].
  unfold all_bounded in H. rewrite Forall_forall in H. apply H; auto. Qed.
End Width.

Lemma C04_width_at_lemma (P : proc) (prog : list instr) (fuel : nat) (d : diagram) :
  NoDup (unit_names P) ->
  simulate fuel P prog = Done d \/ simulate fuel P prog = Stalled d ->
  forall t u, length (occ d t u) <= width_of P u.
Proof. intros Hnd H t u. unfold occ, rec_at.
  destruct (Nat.lt_ge_cases t (length d)) as [Hlt|Hge].
  - eapply C04_width_lemma; eauto. apply nth_In; auto.
  - rewrite nth_overflow; auto. simpl. lia. Qed.

Lemma C04_checkb_spec_lemma (P : proc) (d : diagram) :
  C04_checkb P d = true <->
  (forall r, In r d -> forall u es, In (u, es) r -> length es <= width_of P u).
Proof. unfold C04_checkb. rewrite forallb_forall. split.
  - intros H r Hr u es Hin. specialize (H r Hr). rewrite forallb_forall in H.
    specialize (H _ Hin). simpl in H. apply Nat.leb_le; auto.
  - intros H r Hr. rewrite forallb_forall. intros [u es] Hin. simpl. apply Nat.leb_le. eauto. Qed.

Open Scope string_scope.
Definition ex_in  := {| u_name := "in";  u_width := 2; u_caps := ["ALU"]; u_rl := true;  u_wl := false; u_mem := [] |}.
Definition ex_out := {| u_name := "out"; u_width := 1; u_caps := ["ALU"]; u_rl := false; u_wl := true;  u_mem := [] |}.
Definition ex_P := {| p_in := [ex_in]; p_out := [{| f_model := ex_out; f_preds := ["in"] |}]; p_inout := []; p_int := [] |}.
Definition ex_prog := [ {| i_srcs := ["R1"]; i_dst := "R2"; i_cat := "ALU" |};
                        {| i_srcs := ["R3"]; i_dst := "R4"; i_cat := "ALU" |};
                        {| i_srcs := ["R2"]; i_dst := "R5"; i_cat := "ALU" |} ].
Lemma C04_nonvacuous_lemma :
  exists P prog d, NoDup (unit_names P) /\ simulate 100 P prog = Done d /\
                   exists r u, In r d /\ length (get r u) = width_of P u /\ width_of P u = 2.
Proof. exists ex_P, ex_prog. eexists. split; [|split].
  - repeat constructor; simpl; intuition discriminate.
  - vm_compute. reflexivity.
  - eexists. exists "in". split; [left; reflexivity|]. vm_compute. auto. Qed.
