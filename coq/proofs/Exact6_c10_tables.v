(* Exact6_c10_tables.v -- the memo tables of `mk_ctx d` (spec/LoaderSpec.v: F, U1, kept, kept_preds) read as
   statements of the vocabulary of spec/LoaderReadings.v (feeds, usable, usable_conn, reaches_out), for an
   ARBITRARY description d: no hypothesis on d at all (names may clash, connections may name unknown units,
   the description may be cyclic).  Nothing here mentions the loader. *)
From Coq Require Import Lia Permutation ZArith.
From PS Require Import Base Str Sim Graph Loader Diag LoaderSpec LoaderReadings Lists Graph_facts LD_base.

(* ====================================================================== *)
(* reach_from is complete with fuel > |U| even when the sources repeat     *)
(* ====================================================================== *)
(* (Graph_facts.reach_from_spec wants NoDup srcs; the sources of fed_units are a sub-list of the unit names,
   which repeat when two units have the same name.  The measure below does not need NoDup.) *)
Definition unseen (seen U : list string) : list string := filter (fun y => negb (mem_str y seen)) U.

Lemma unseen_mono a seen U : length (unseen (seen ++ [a]) U) <= length (unseen seen U).
Proof. unfold unseen. induction U as [|y U IH]; simpl; auto.
  rewrite mem_str_app. destruct (mem_str y seen); simpl; auto.
  match goal with |- context[if ?b then _ else _] => destruct b end; simpl; lia. Qed.
Lemma unseen_one a seen U : In a U -> ~ In a seen ->
  length (unseen (seen ++ [a]) U) + 1 <= length (unseen seen U).
Proof. unfold unseen. induction U as [|y U IH]; simpl; [tauto|]. intros Ha Hs.
  destruct (String.eqb_spec y a) as [->|Hn].
  - rewrite mem_str_app. apply mem_str_false in Hs. rewrite Hs. simpl. rewrite String.eqb_refl. simpl.
    pose proof (unseen_mono a seen U) as M. unfold unseen in M. lia.
  - destruct Ha as [Ha|Ha]; [congruence|]. specialize (IH Ha Hs).
    rewrite mem_str_app. destruct (mem_str y seen); simpl; auto.
    destruct (String.eqb_spec y a); [congruence|]. simpl. lia. Qed.
Lemma unseen_drop U : forall new seen, NoDup new -> incl new U -> (forall z, In z new -> ~ In z seen) ->
  length (unseen (seen ++ new) U) + length new <= length (unseen seen U).
Proof. induction new as [|a n IH]; intros seen Hnd Hi Hs; simpl.
  - rewrite app_nil_r. lia.
  - inversion Hnd as [|? ? Hni Hnd']; subst.
    change (seen ++ a :: n) with (seen ++ [a] ++ n). rewrite app_assoc.
    assert (H1 : length (unseen ((seen ++ [a]) ++ n) U) + length n <= length (unseen (seen ++ [a]) U)).
    { apply IH; auto.
      - intros z Hz. apply Hi. right; auto.
      - intros z Hz Hc. apply in_app_iff in Hc. destruct Hc as [Hc|[<-|[]]]; [|tauto].
        apply (Hs z); auto. right; auto. }
    assert (H2 : length (unseen (seen ++ [a]) U) + 1 <= length (unseen seen U)).
    { apply unseen_one; [apply Hi; left; auto|apply Hs; left; auto]. }
    lia. Qed.

Lemma reach_from_closed' adj U : (forall y, In y U -> incl (adj y) U) ->
  forall fuel fr seen, incl seen U -> incl fr seen ->
    (forall y, In y seen -> In y fr \/ incl (adj y) seen) ->
    length fr + length (unseen seen U) <= fuel ->
    forall y, In y (reach_from fuel adj fr seen) -> incl (adj y) (reach_from fuel adj fr seen).
Proof. intros HU. induction fuel as [|f IH]; intros fr seen Hs Hfr Hc Hlen.
  - assert (fr = []) by (destruct fr; auto; simpl in Hlen; lia).
    subst. simpl. intros y Hy. destruct (Hc y Hy) as [[]|]; auto.
  - simpl. destruct fr as [|x t].
    + intros y Hy. destruct (Hc y Hy) as [[]|]; auto.
    + set (new := filter (fun s => negb (mem_str s seen)) (dedup_by String.eqb (adj x))).
      assert (Hx : In x U) by (apply Hs, Hfr; left; auto).
      assert (Hnew : forall z, In z new <-> In z (adj x) /\ ~ In z seen).
      { intros z. unfold new. rewrite filter_In, dedup_by_In, <- mem_str_false.
        destruct (mem_str z seen); simpl; intuition congruence. }
      apply IH.
      * apply incl_app; auto. intros z Hz. apply Hnew in Hz. apply (HU x Hx). tauto.
      * intros z Hz. apply in_app_iff in Hz. apply in_or_app. destruct Hz as [Hz|Hz]; auto.
        left. apply Hfr. right; auto.
      * intros y Hy. apply in_app_iff in Hy. destruct Hy as [Hy|Hy].
        -- destruct (Hc y Hy) as [[<-|Hy2]|Hy2].
           ++ right. intros z Hz. apply in_or_app. destruct (in_dec string_dec z seen); auto.
              right. apply Hnew. auto.
           ++ left. apply in_or_app; auto.
           ++ right. intros z Hz. apply in_or_app. left. auto.
        -- left. apply in_or_app; auto.
      * assert (D : length (unseen (seen ++ new) U) + length new <= length (unseen seen U)).
        { apply unseen_drop.
          - apply NoDup_filter, dedup_by_NoDup.
          - intros z Hz. apply Hnew in Hz. apply (HU x Hx). tauto.
          - intros z Hz. apply Hnew in Hz. tauto. }
        rewrite app_length. simpl in Hlen. lia. Qed.

Theorem reach_from_spec' adj U srcs fuel x :
  incl srcs U -> (forall y, In y U -> incl (adj y) U) -> length srcs + length (unseen srcs U) <= fuel ->
  (In x (reach_from fuel adj srcs srcs) <-> exists s, In s srcs /\ rpath adj s x).
Proof. intros Hs HU Hf. split.
  - apply (reach_from_sound adj (fun y => exists s, In s srcs /\ rpath adj s y)).
    + intros y z [s [Hs1 Hs2]] Hz. exists s. split; auto. eapply rp_step; eauto.
    + intros y Hy. exists y. split; auto. apply rp_refl.
    + intros y Hy. exists y. split; auto. apply rp_refl.
  - intros [s [Hs1 Hs2]]. induction Hs2.
    + apply reach_from_mono; auto.
    + eapply (reach_from_closed' adj U HU fuel srcs srcs); eauto using incl_refl. Qed.

(* a filtered sub-list of U as sources: |U| steps are enough *)
Lemma unseen_filter_len (p : string -> bool) U : length (filter p U) + length (unseen (filter p U) U) <= length U.
Proof.
  assert (G : forall V, incl V U -> length (filter p V) + length (unseen (filter p U) V) <= length V).
  { induction V as [|y V IH]; intros Hi; simpl; auto.
    assert (IH' : length (filter p V) + length (unseen (filter p U) V) <= length V)
      by (apply IH; intros z Hz; apply Hi; right; auto).
    unfold unseen in *. destruct (p y) eqn:E; simpl.
    - assert (M : mem_str y (filter p U) = true).
      { apply mem_str_In, filter_In. split; auto. apply Hi. left; auto. }
      rewrite M. simpl. lia.
    - destruct (negb (mem_str y (filter p U))); simpl; lia. }
  apply G, incl_refl. Qed.

Lemma rpath_cons' adj a s b : In s (adj a) -> rpath adj s b -> rpath adj a b.
Proof. intros H1 H2. eapply rpath_trans; [|exact H2]. eapply rp_step; [apply rp_refl|auto]. Qed.

(* ====================================================================== *)
(* the resolved description                                                *)
(* ====================================================================== *)
Lemma assoc_map_cases {A B} (dflt : B) (key : A -> string) (val : A -> B) l k :
  assoc dflt (map (fun u => (key u, val u)) l) k = dflt \/
  exists x, In x l /\ key x = k /\ assoc dflt (map (fun u => (key u, val u)) l) k = val x.
Proof. induction l as [|a l IH]; simpl; auto.
  destruct (String.eqb_spec k (key a)) as [E|E].
  - right. exists a. auto.
  - destruct IH as [IH|[x [H1 [H2 H3]]]]; auto. right. exists x. auto. Qed.

Lemma std_in_reg (l : list string) c : In c l -> In (std (dedup_by ic_eqb l) c) (dedup_by ic_eqb l).
Proof. intros Hc. unfold std.
  assert (M : mem_ic c (dedup_by ic_eqb l) = true).
  { rewrite <- reg_add_fold_nil. apply reg_add_fold_mem. auto. }
  apply ic_find_mem in M. destruct M as [s E]. rewrite E. apply ic_find_some in E. tauto. Qed.

Section Tables.
  Variable d : desc.
  Let r := resolve d.
  Let cx := mk_ctx d.

  Lemma c10x_r_succs_preds u v : In v (r_succs r u) <-> In u (r_preds r v).
  Proof. unfold r_succs, r_preds. rewrite !in_map_iff. split.
    - intros [[a b] [E H]]. apply filter_In in H. destruct H as [H1 H2]. simpl in *. apply String.eqb_eq in H2.
      subst. exists (u, v). split; auto. apply filter_In. split; auto. apply String.eqb_refl.
    - intros [[a b] [E H]]. apply filter_In in H. destruct H as [H1 H2]. simpl in *. apply String.eqb_eq in H2.
      subst. exists (u, v). split; auto. apply filter_In. split; auto. apply String.eqb_refl. Qed.

  (* only a named unit declares anything, and only registered capabilities *)
  Lemma c10x_declares_known u c : declares r u c = true -> In u (r_names r) /\ In c (r_creg r).
  Proof. unfold declares. intros H. apply mem_str_In in H. unfold r, resolve in H. cbn [r_ucaps] in H.
    destruct (assoc_map_cases [] d_name (fun u => dedup_by String.eqb (map (std (cap_reg d)) (d_caps u)))
                (d_units d) u) as [E|[x [H1 [H2 E]]]]; rewrite E in H; [destruct H|].
    apply dedup_by_In, in_map_iff in H. destruct H as [c' [<- Hc']]. split.
    - unfold r, resolve, d_names. cbn [r_names]. rewrite <- H2. apply in_map; auto.
    - unfold r, resolve. cbn [r_creg]. unfold cap_reg. apply std_in_reg. apply in_flat_map. eauto. Qed.
  Lemma c10x_feeds_declares c u : feeds r c u -> declares r u c = true.
  Proof. destruct 1; auto. Qed.
  Lemma c10x_feeds_known c u : feeds r c u -> In u (r_names r) /\ In c (r_creg r).
  Proof. intros H. apply c10x_declares_known, c10x_feeds_declares; auto. Qed.

  Lemma c10x_len : length (r_names r) < nd d.
  Proof. unfold r, resolve, nd, d_names. cbn [r_names]. rewrite map_length. lia. Qed.

  (* ---------- fed_units ---------- *)
  Lemma c10x_fed_units c u : In u (fed_units r (nd d) c) <-> feeds r c u.
  Proof. unfold fed_units.
    set (srcs := filter (fun u => declares r u c) (r_inputs r)).
    set (adj := fun x => filter (fun s => declares r s c) (r_succs r x)).
    assert (Hsrcs : srcs = filter (fun u => match r_preds r u with [] => true | _ => false end && declares r u c)
                             (r_names r)).
    { unfold srcs, r_inputs. apply filter_filter. }
    rewrite (reach_from_spec' adj (r_names r)).
    - split.
      + intros [s [Hs Hp]]. induction Hp as [x|x y z _ IH Hz].
        * unfold srcs in Hs. apply filter_In in Hs. apply feeds_in; tauto.
        * unfold adj in Hz. apply filter_In in Hz. apply (feeds_step r c y z); tauto.
      + induction 1 as [p Hp Hd|a b _ IH Hs Hd].
        * exists p. split; [|apply rp_refl]. unfold srcs. apply filter_In. auto.
        * destruct IH as [s [Hs1 Hs2]]. exists s. split; auto. eapply rp_step; eauto.
          unfold adj. apply filter_In. auto.
    - rewrite Hsrcs. intros y Hy. apply filter_In in Hy. tauto.
    - intros y _ z Hz. unfold adj in Hz. apply filter_In in Hz. destruct Hz as [_ Hz].
      apply c10x_declares_known in Hz. tauto.
    - rewrite Hsrcs. pose proof (unseen_filter_len
        (fun u => match r_preds r u with [] => true | _ => false end && declares r u c) (r_names r)).
      pose proof c10x_len. lia. Qed.

  (* ---------- F ---------- *)
  Lemma c10x_Ft_in u : In u (r_names r) ->
    Fc cx u = filter (fun c => mem_str u (fed_units r (nd d) c)) (r_creg r).
  Proof. intros Hu. unfold Fc, Ft, cx, mk_ctx. cbn [c_F]. fold r.
    rewrite (assoc_map_self [] (fun u => filter (fun c => mem_str u
               (assoc [] (map (fun c => (c, fed_units r (nd d) c)) (r_creg r)) c)) (r_creg r))) by auto.
    apply filter_ext_in'. intros c Hc.
    rewrite (assoc_map_self [] (fun c => fed_units r (nd d) c)); auto. Qed.
  Lemma c10x_Ft_notin u : ~ In u (r_names r) -> Fc cx u = [].
  Proof. intros Hu. unfold Fc, Ft, cx, mk_ctx. cbn [c_F]. fold r. apply assoc_notin.
    rewrite map_map. cbn [fst]. rewrite map_id. auto. Qed.

  Lemma c10x_Fc c u : In c (Fc cx u) <-> feeds r c u.
  Proof. destruct (in_dec_str u (r_names r)) as [Hu|Hu].
    - rewrite c10x_Ft_in by auto. rewrite filter_In, mem_str_In, c10x_fed_units. split; [tauto|].
      intros H. split; auto. apply c10x_feeds_known in H. tauto.
    - rewrite c10x_Ft_notin by auto. split; [intros []|]. intros H. apply c10x_feeds_known in H. tauto. Qed.
  (* the form with the side facts spelled out *)
  Lemma c10x_Fc_full c u : In c (Fc cx u) <-> In u (r_names r) /\ In c (r_creg r) /\ feeds r c u.
  Proof. rewrite c10x_Fc. split; [|tauto]. intros H. destruct (c10x_feeds_known c u H). auto. Qed.
  Lemma c10x_Fc_nodup_creg u : NoDup (r_creg r) -> NoDup (Fc cx u).
  Proof. intros H. destruct (in_dec_str u (r_names r)) as [Hu|Hu].
    - rewrite c10x_Ft_in by auto. apply NoDup_filter; auto.
    - rewrite c10x_Ft_notin by auto. constructor. Qed.

  (* ---------- U1 ---------- *)
  Lemma c10x_U1 u : In u (U1 cx) <-> usable r u.
  Proof. unfold U1, cx, mk_ctx. cbn [c_U1]. fold r. rewrite filter_In. unfold usable.
    change (Ft (map (fun u0 => (u0, filter (fun c => mem_str u0
              (assoc [] (map (fun c0 => (c0, fed_units r (nd d) c0)) (r_creg r)) c)) (r_creg r))) (r_names r)) u)
      with (Fc cx u).
    split; intros [H1 H2]; split; auto.
    - destruct (Fc cx u) as [|c l] eqn:E; [discriminate|]. exists c. apply c10x_Fc. rewrite E. left; auto.
    - destruct H2 as [c H2]. apply c10x_Fc in H2. destruct (Fc cx u); [destruct H2|auto]. Qed.
  Lemma c10x_feeds_usable c u : feeds r c u -> usable r u.
  Proof. intros H. split; [apply c10x_feeds_known in H; tauto|eauto]. Qed.

  (* ---------- shares ---------- *)
  Lemma c10x_shares p u : shares cx p u = true <-> exists c, feeds r c p /\ feeds r c u.
  Proof. unfold shares, shares_t. change (Ft (c_F cx)) with (Fc cx). rewrite existsb_exists.
    split; intros [c [H1 H2]]; exists c.
    - apply mem_str_In in H2. rewrite <- !c10x_Fc. auto.
    - rewrite mem_str_In, !c10x_Fc. auto. Qed.

  Lemma c10x_conn_usable u v : usable_conn r u v -> usable r u /\ usable r v.
  Proof. intros [_ [c [H1 H2]]]. split; eapply c10x_feeds_usable; eauto. Qed.

  (* ---------- usable connections ---------- *)
  Lemma c10x_e1_succs u s : In s (e1_succs cx u) <-> usable_conn r u s.
  Proof. unfold e1_succs, e1_succs_t. rewrite filter_In, andb_true_iff, mem_str_In.
    fold (U1 cx) (shares cx u s). change (c_r cx) with r. rewrite c10x_U1, c10x_shares. unfold usable_conn.
    split; [tauto|]. intros [H1 H2]. split; auto. split; auto.
    destruct H2 as [c [_ H2]]. eapply c10x_feeds_usable; eauto. Qed.

  (* ---------- kept ---------- *)
  Lemma c10x_reach u : usable r u -> forall o,
    In o (reach_from (nd d) (e1_succs cx) [u] [u]) <-> rpath (e1_succs cx) u o.
  Proof. intros Hu o. rewrite (reach_from_spec (e1_succs cx) (r_names r)).
    - split; [intros [s [[<-|[]] Hs]]; auto|]. intros Hs. exists u. split; auto. left; auto.
    - repeat constructor. simpl. tauto.
    - intros y [<-|[]]. apply Hu.
    - intros y _ z Hz. apply c10x_e1_succs, c10x_conn_usable in Hz. apply Hz.
    - pose proof c10x_len. lia. Qed.

  Lemma c10x_reaches_usable u : reaches_out r u -> usable r u.
  Proof. destruct 1; auto. Qed.

  Lemma c10x_reaches_path u : reaches_out r u <->
    usable r u /\ exists o, In o (r_outputs r) /\ usable r o /\ rpath (e1_succs cx) u o.
  Proof. split.
    - induction 1 as [o Ho Hu|u v Hu Hc _ IH].
      + split; auto. exists o. split; auto. split; auto. apply rp_refl.
      + split; auto. destruct IH as [_ [o [O1 [O2 O3]]]]. exists o. split; auto. split; auto.
        apply (rpath_cons' (e1_succs cx) u v o); auto. apply c10x_e1_succs; auto.
    - intros [Hu [o [O1 [O2 O3]]]].
      assert (Ho : reaches_out r o) by (apply ro_out; auto).
      clear O1 O2 Hu. revert Ho. induction O3 as [x|x y z _ IH Hz]; intros Ho; auto.
      apply IH. apply c10x_e1_succs in Hz. destruct (c10x_conn_usable y z Hz) as [Hy _].
      apply (ro_step r y z); auto. Qed.

  Lemma c10x_kept u : In u (kept cx) <-> reaches_out r u.
  Proof. rewrite c10x_reaches_path. unfold kept, cx, mk_ctx. cbn [c_kept]. fold r.
    set (tab := map (fun u0 => (u0, filter (fun c => mem_str u0
              (assoc [] (map (fun c0 => (c0, fed_units r (nd d) c0)) (r_creg r)) c)) (r_creg r))) (r_names r)).
    set (u1 := filter (fun u0 => match Ft tab u0 with [] => false | _ => true end) (r_names r)).
    change (e1_succs_t r tab u1) with (e1_succs cx). change u1 with (U1 cx).
    rewrite filter_In. cbv zeta. rewrite existsb_exists, c10x_U1. split.
    - intros [Hu [o [H1 H2]]]. split; auto. apply filter_In in H1. destruct H1 as [H1 H3].
      apply mem_str_In, c10x_U1 in H3. apply mem_str_In in H2. apply (c10x_reach u Hu) in H2.
      exists o. auto.
    - intros [Hu [o [O1 [O2 O3]]]]. split; auto. exists o. split.
      + apply filter_In. split; auto. apply mem_str_In, c10x_U1. auto.
      + apply mem_str_In. apply (c10x_reach u Hu). auto. Qed.

  (* ---------- kept predecessors / successors ---------- *)
  Lemma c10x_kept_preds u p : In p (kept_preds cx u) <-> In p (kept cx) /\ usable_conn r p u.
  Proof. unfold kept_preds. rewrite dedup_by_In, filter_In, andb_true_iff, mem_str_In, c10x_shares.
    change (c_r cx) with r. unfold usable_conn. rewrite (c10x_r_succs_preds p u). tauto. Qed.
  Lemma c10x_kept_succs u s : In s (kept_succs cx u) <-> In s (kept cx) /\ usable_conn r u s.
  Proof. unfold kept_succs. rewrite dedup_by_In, filter_In, mem_str_In, c10x_e1_succs. tauto. Qed.
End Tables.

Print Assumptions c10x_Fc.
Print Assumptions c10x_U1.
Print Assumptions c10x_shares.
Print Assumptions c10x_kept.
Print Assumptions c10x_kept_preds.
