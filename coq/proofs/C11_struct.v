(* C11_struct.v -- the structural rejections (DeadInputError, EmptyProcError, PathLockError,
   BlockedCapError) name a defect that is really there: C11_struct_ok.  Proved from a `bridge` record that
   relates the memo tables of `mk_ctx d` to the loader's intermediate graphs (g: created, g1: after
   clean_struct and rm_empty_units, at1: the cleaned attributes). *)
From Coq Require Import Lia Permutation ZArith.
From PS Require Import Base Str Sim Graph Loader Diag LoaderSpec Lists Graph_facts
  LD_base LD_clean LD_term C11_locks.

Definition d_locked (d : desc) (k : lock_kind) (u : string) : bool :=
  match d_unit d u with
  | Some x => match k with LkRead => d_rl x | LkWrite => d_wl x end
  | None => false
  end.

Record bridge (d : desc) (g g1 : graph) (at1 : attrs) : Prop := {
  b_wf1 : gwf g1;
  b_ac1 : acyclic g1;
  b_len1 : length (g_nodes g1) <= length (d_units d);
  b_ins : forall p, In p (r_inputs (c_r (mk_ctx d))) <-> In p (in_ports_of g);
  b_U1 : forall u, In u (U1 (mk_ctx d)) <-> In u (g_nodes g1);
  b_kept : forall u, In u (kept (mk_ctx d)) <-> In u (g_nodes g1) /\ coreach g1 (out_ports_of g) u;
  b_F : forall u c, In u (g_nodes g1) -> (In c (Fc (mk_ctx d) u) <-> In c (caps_of at1 u));
  b_e1 : forall u s, In s (e1_succs (mk_ctx d) u) <-> In s (succs g1 u);
  b_lock : forall u k, In u (g_nodes g1) -> d_locked d k u = lk_of at1 k u;
  b_in1 : forall p, In p (g_nodes g1) -> preds g1 p = [] -> In p (in_ports_of g) }.

Lemma d_lock_counts_alc cx c k : forall fuel u acc,
  d_lock_counts fuel cx c u k acc =
  alc (fun u => filter (fun s => mem_str c (Fc cx s)) (kept_succs cx u)) (d_locked (c_d cx) k) fuel u acc.
Proof. induction fuel as [|f IH]; intros u acc; cbn [d_lock_counts alc]; auto.
  unfold bump, d_locked. destruct (filter _ (kept_succs cx u)); auto. apply flat_map_ext. intros a. apply IH. Qed.

Lemma mem_str_negb_In x l : negb (mem_str x l) = true <-> ~ In x l.
Proof. rewrite negb_true_iff. apply mem_str_false. Qed.

(* ====================================================================== *)
(* DeadInputError                                                          *)
(* ====================================================================== *)
Lemma struct_dead d g g1 at1 e : bridge d g g1 at1 ->
  chk_terminals (S (length (g_nodes g1))) g1 (in_ports_of g) (out_ports_of g) = inr e ->
  C11_struct_ok d e = true.
Proof. intros B H.
  pose proof (chk_terminals_spec (in_ports_of g) (out_ports_of g) (S (length (g_nodes g1))) g1
                (b_wf1 _ _ _ _ B) (b_ac1 _ _ _ _ B) (Nat.lt_succ_diag_r _)) as S.
  rewrite H in S. destruct S as [dead [-> [Hne Hd]]]. cbn [C11_struct_ok].
  apply andb_true_iff. split; [destruct dead; [congruence|reflexivity]|].
  apply forallb_forall. intros p Hp. destruct (Hd p Hp) as [H1 [H2 H3]].
  apply andb_true_iff. split; [apply andb_true_iff; split|].
  - apply mem_str_In, (b_ins _ _ _ _ B). auto.
  - apply mem_str_In, (b_U1 _ _ _ _ B). auto.
  - apply mem_str_negb_In. intros Hc. apply (b_kept _ _ _ _ B) in Hc. tauto. Qed.

(* ====================================================================== *)
(* after chk_terminals: the final graph                                    *)
(* ====================================================================== *)
Section Final.
  Variables (d : desc) (g g1 g2 : graph) (at1 : attrs).
  Hypothesis B : bridge d g g1 at1.
  Hypothesis Hind : induced g1 g2 (coreach g1 (out_ports_of g)).
  Local Notation cx := (mk_ctx d).
  Local Notation oo := (out_ports_of g).

  Lemma f_wf2 : gwf g2.
  Proof. apply Hind. Qed.
  Lemma f_ac2 : acyclic g2.
  Proof. eapply induced_acyclic; eauto. apply (b_ac1 _ _ _ _ B). Qed.
  Lemma f_nodes2 u : In u (g_nodes g2) <-> In u (g_nodes g1) /\ coreach g1 oo u.
  Proof. destruct Hind as [_ [H _]]. apply H. Qed.
  Lemma f_kept u : In u (kept cx) <-> In u (g_nodes g2).
  Proof. rewrite f_nodes2. apply (b_kept _ _ _ _ B). Qed.
  Lemma f_len2 : length (g_nodes g2) <= length (d_units d).
  Proof. pose proof (induced_nodes_len _ _ _ (b_wf1 _ _ _ _ B) Hind). pose proof (b_len1 _ _ _ _ B). lia. Qed.
  Lemma coreach_back u s : In s (succs g1 u) -> coreach g1 oo s -> coreach g1 oo u.
  Proof. intros Hs [o [O1 [O2 O3]]]. exists o. split; auto. split; auto. eapply rpath_cons; eauto. Qed.
  Lemma f_succs u s : In s (kept_succs cx u) <-> In s (succs g2 u).
  Proof. unfold kept_succs. rewrite dedup_by_In, filter_In, mem_str_In, (b_e1 _ _ _ _ B), (b_kept _ _ _ _ B).
    destruct Hind as [_ [_ H]]. rewrite H. split.
    - intros [H1 [H2 H3]]. split; auto. split; auto. eapply coreach_back; eauto.
    - intros [H1 [H2 H3]]. split; auto. split; auto. apply (gwf_in g1 (b_wf1 _ _ _ _ B)) in H1. tauto. Qed.
  Lemma f_in2 p : In p (in_ports_of g2) -> In p (in_ports_of g).
  Proof. intros Hp. apply in_ports_In in Hp. destruct Hp as [P1 P2]. apply f_nodes2 in P1. destruct P1 as [P1 P3].
    apply (b_in1 _ _ _ _ B); auto. destruct (preds g1 p) as [|q l] eqn:E; auto. exfalso.
    assert (Hq : In q (preds g1 p)) by (rewrite E; left; auto).
    assert (Hq2 : In q (preds g2 p)).
    { apply (induced_preds g1 g2 _ (b_wf1 _ _ _ _ B) Hind). split; auto. split; auto.
      apply (coreach_back q p); auto. apply (gwf_sym g1 (b_wf1 _ _ _ _ B)); auto. }
    rewrite P2 in Hq2. destruct Hq2. Qed.
  Lemma f_F u c : In u (g_nodes g2) -> (mem_str c (Fc cx u) = has_cap at1 c u).
  Proof. intros Hu. apply f_nodes2 in Hu. destruct Hu as [Hu _]. unfold has_cap.
    pose proof (b_F _ _ _ _ B u c Hu) as H. rewrite <- !mem_str_In in H.
    destruct (mem_str c (Fc cx u)), (mem_str c (caps_of at1 u)); auto; intuition congruence. Qed.

  (* the description-level route recursion agrees with the graph-level one *)
  Definition nxtD (cap : string) (u : string) : list string :=
    filter (fun s => mem_str cap (Fc cx s)) (kept_succs cx u).
  Lemma nxtD_cnxt cap u s : In s (nxtD cap u) <-> In s (cnxt g2 at1 cap u).
  Proof. unfold nxtD, cnxt. rewrite !filter_In, f_succs. split; intros [H1 H2]; split; auto.
    - rewrite <- f_F; auto. apply (gwf_in g2 f_wf2) in H1. tauto.
    - rewrite f_F; auto. apply (gwf_in g2 f_wf2) in H1. tauto. Qed.
  Lemma nxtD_nodes cap u s : In s (nxtD cap u) -> In s (g_nodes g2).
  Proof. intros H. apply nxtD_cnxt, filter_In in H. destruct H as [H _]. apply (gwf_in g2 f_wf2) in H. tauto. Qed.

  Lemma d_counts_spec cap k u : In u (g_nodes g2) ->
    forall x, In x (d_lock_counts (nd d) cx cap u k 0) <-> RV g2 at1 cap k u x.
  Proof. intros Hu x. rewrite d_lock_counts_alc. fold (nxtD cap).
    rewrite (alc_spec (nxtD cap) (d_locked (c_d cx) k) (fun u => idx u (dfs_postorder g2)) (fun u => In u (g_nodes g2))).
    - change (c_d (mk_ctx d)) with d.
      assert (E1 : forall a, In a (g_nodes g2) ->
                (forall s, In s (nxtD cap a) <-> In s (cnxt g2 at1 cap a)) /\ d_locked d k a = lk_of at1 k a).
      { intros a Ha. split; [intros s; apply nxtD_cnxt|]. apply (b_lock _ _ _ _ B). apply f_nodes2 in Ha. tauto. }
      split.
      + intros [v [Hv ->]]. simpl.
        apply (rval_ext (nxtD cap) (cnxt g2 at1 cap) (d_locked d k) (lk_of at1 k) (fun u => In u (g_nodes g2))); auto.
        intros a s _. apply nxtD_nodes.
      + intros Hv. exists x. split; auto.
        apply (rval_ext (cnxt g2 at1 cap) (nxtD cap) (lk_of at1 k) (d_locked d k) (fun u => In u (g_nodes g2))); auto.
        * intros a Ha. destruct (E1 a Ha) as [E2 E3]. split; [intros s; symmetry; apply E2|auto].
        * intros a s _ Hs. apply nxtD_cnxt in Hs. eapply nxtD_nodes; eauto.
    - intros a s Ha Hs. apply nxtD_cnxt in Hs. apply (cnxt_rank g2 at1 f_wf2 f_ac2 cap a s); auto.
    - auto.
    - pose proof (idx_post_lt g2 f_wf2 u Hu). pose proof f_len2. unfold nd. lia. Qed.

  (* ---------- EmptyProcError ---------- *)
  Lemma struct_empty : filter (fun p => has_node g2 p) (in_ports_of g) = [] -> C11_struct_ok d EEmptyProc = true.
  Proof. intros H. cbn [C11_struct_ok].  apply negb_true_iff, existsb_false_iff. intros p Hp.
    apply (b_ins _ _ _ _ B) in Hp. rewrite filter_nil_iff in H. specialize (H p Hp).
    apply mem_str_false. rewrite f_kept. rewrite <- has_node_In. congruence. Qed.

  (* ---------- PathLockError / BlockedCapError ---------- *)
  Lemma struct_caps e :
    do_cap_checks g2 at1 (dfs_postorder g2) (out_ports_of g2) (cap_units g2 at1) = Some e ->
    C11_struct_ok d e = true.
  Proof. intros H.
    pose proof (do_cap_checks_spec g2 at1 (dfs_postorder g2) (out_ports_of g2) (cap_units g2 at1)) as S.
    rewrite H in S. destruct S as [cap [ins [Hi S]]].
    destruct (cap_units_spec g2 at1) as [_ [U2 _]]. specialize (U2 cap ins Hi).
    pose proof (chk_multilock_graph g2 at1 f_wf2 f_ac2 cap) as M.
    assert (Hpl : forall kind start lk,
              In start (g_nodes g2) -> has_cap at1 cap start = true ->
              (let cs := d_lock_counts (nd d) cx cap start lk 0 in
               negb (all_same cs) || existsb (fun n => 1 <? n) cs
               || (mem_str start (r_inputs (c_r cx)) && existsb (fun n => n =? 0) cs)) = true ->
              C11_struct_ok d (EPathLock kind start lk cap) = true).
    { intros kind start lk Hs Hc Hcs. cbn [C11_struct_ok]. cbv zeta in Hcs |- *. rewrite Hcs, andb_true_r.
      apply andb_true_iff. split; [apply mem_str_In, f_kept; auto|]. rewrite f_F; auto. }
    destruct S as [S|[locks [L1 S]]].
    - (* chk_multilock failed *)
      rewrite S in M. destruct M as [n [kind [k [-> [Hn [Hc Hk]]]]]]. apply Hpl; auto. cbv zeta.
      destruct Hk as [[-> [v1 [v2 [R1 [R2 Hne]]]]]|[-> [v [R1 R2]]]].
      + apply orb_true_iff. left. apply orb_true_iff. left. apply negb_true_iff.
        destruct (all_same _) eqn:E; auto. exfalso. apply Hne.
        apply (proj1 (all_same_iff _) E); apply d_counts_spec; auto.
      + apply orb_true_iff. left. apply orb_true_iff. right. apply existsb_exists. exists v.
        split; [apply d_counts_spec; auto|]. apply Nat.ltb_lt. auto.
    - rewrite L1 in M. destruct S as [S|[L2 [L3 S]]].
      + (* an input port without a lock *)
        pose proof (chk_in_locks_spec cap ins locks) as I. rewrite S in I.
        destruct I as [p [lk [-> [Hp Hz]]]]. apply U2 in Hp. destruct Hp as [P1 P2].
        assert (Hpn : In p (g_nodes g2)) by (apply filter_In in P1; tauto).
        assert (Hc : has_cap at1 cap p = true) by (apply mem_str_In; auto).
        apply Hpl; auto. cbv zeta. apply orb_true_iff. right. apply andb_true_iff. split.
        * apply mem_str_In, (b_ins _ _ _ _ B), f_in2. auto.
        * apply existsb_exists. exists 0. split; auto. apply d_counts_spec; auto.
          apply (M p Hpn Hc lk). auto.
      + (* a capability that cannot reach an output *)
        pose proof (chk_flow_spec g2 at1 cap (out_ports_of g2) ins) as F. rewrite S in F.
        destruct F as [p [-> [Hp Hno]]]. apply U2 in Hp. destruct Hp as [P1 P2].
        assert (Hpn : In p (g_nodes g2)) by (apply filter_In in P1; tauto).
        assert (Hc : has_cap at1 cap p = true) by (apply mem_str_In; auto).
        cbn [C11_struct_ok]. fold (nxtD cap).
        apply andb_true_iff. split; [apply andb_true_iff; split; [apply andb_true_iff; split|]|].
        * apply mem_str_In, (b_ins _ _ _ _ B), f_in2. auto.
        * apply mem_str_In, f_kept. auto.
        * rewrite f_F; auto.
        * apply negb_true_iff, existsb_false_iff. intros o Ho. apply andb_false_iff.
          destruct (mem_str o (reach_from (nd d) (nxtD cap) [p] [p])) eqn:Es; auto. right.
          destruct (kept_succs cx o) as [|s l] eqn:Ek; auto. exfalso.
          apply f_kept in Ho.
          assert (Hout : In o (out_ports_of g2)).
          { apply out_ports_In. split; auto. destruct (succs g2 o) as [|s l] eqn:E2; auto.
            assert (In s (kept_succs cx o)) by (apply f_succs; rewrite E2; left; auto).
            rewrite Ek in H0. destruct H0. }
          apply (Hno o Hout). apply flow_seen_spec; [apply f_wf2|auto|].
          apply mem_str_In in Es.
          apply (reach_from_spec (nxtD cap) (g_nodes g2) [p] (nd d) o) in Es.
          -- destruct Es as [s0 [[<-|[]] Hr]].
             assert (K : forall a b, rpath (nxtD cap) a b -> has_cap at1 cap a = true ->
                           rpath (cap_succs g2 at1 cap) a b /\ has_cap at1 cap b = true).
             { intros a b Hab. induction Hab as [x|x y z Hxy IH Hz]; intros Ha0; [split; auto; apply rp_refl|].
               destruct (IH Ha0) as [J1 J2]. apply nxtD_cnxt in Hz.
               split; [|apply filter_In in Hz; tauto].
               eapply rp_step; [exact J1|]. rewrite cap_succs_cnxt; auto. }
             apply (K p o Hr Hc).
          -- repeat constructor. simpl. tauto.
          -- intros y [<-|[]]. auto.
          -- intros y _ z Hz. eapply nxtD_nodes; eauto.
          -- pose proof f_len2. unfold nd. lia. Qed.
End Final.
