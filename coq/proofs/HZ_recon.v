(* HZ_recon.v -- the queues reconstructed from the diagram alone (Diag.recon_queues, used by C08) agree,
   register by register, with the simulator's queues in every reachable state. *)
From Coq Require Import Lia.
From PS Require Import Base Bag RegAccess Sim Diag Lists Run C03_lists C03_step
                       HZ_queue HZ_plan HZ_diag HZ_haz HZ_inv C02_proof C01_order C01_replay.
Close Scope string_scope.

Definition qrem (q : queue) (a : acc) : queue := q_remove q (fst a) (snd a).

(* q_remove on a grantable request is dequeue *)
Lemma q_remove_dequeue g t ty o q' : aty_eqb ty (g_ty g) = true -> dequeue (g :: t) o = Ok q' ->
  q_remove (g :: t) ty o = q'.
Proof. unfold dequeue. cbn [q_remove]. intros E. rewrite E. destruct (memn o (g_reqs g)); [|discriminate].
  cbn [andb]. destruct (set_remove o (g_reqs g)); intros H; inversion H; auto. Qed.

Lemma q_remove_grp M x : NoDup M -> deq_able M x -> qrem (grp M) x = grp (rm x M).
Proof. intros Hnd Hd. pose proof (dequeue_grp M x Hnd Hd) as H. destruct Hd as [Hin Hb]. unfold qrem.
  destruct x as [[|] i]; cbn [fst snd] in *.
  - destruct M as [|[[|] o] t]; [destruct Hin| |].
    + rewrite grp_RD in *. apply q_remove_dequeue; auto.
    + exfalso. destruct (Hb (WR, o)) as [_ E]; [|discriminate]. cbn [before].
      assert (E : acc_eqb (RD, i) (WR, o) = false) by reflexivity. rewrite E. left; auto.
  - destruct (before_nil_head _ _ Hin) as [t ->].
    + destruct (before (WR, i) M) as [|y l]; auto. destruct (Hb y (or_introl eq_refl)). discriminate.
    + rewrite grp_WR in *. apply q_remove_dequeue; auto. Qed.

Lemma qrems_grp : forall T M, NoDup M -> NoDup T -> incl T M ->
  (forall x y, In x T -> In y (before x M) -> (fst x = RD /\ fst y = RD) \/ In y (before x T)) ->
  fold_left qrem T (grp M) = grp (filter (fun a => negb (memacc a T)) M).
Proof. induction T as [|x T IH]; intros M HM HT Hi Hc.
  - simpl. rewrite filter_all; auto.
  - cbn [fold_left]. inversion HT as [|? ? Hx HT']; subst.
    assert (Hd : deq_able M x).
    { split; [apply Hi; left; auto|]. intros y Hy. destruct (Hc x y (or_introl eq_refl) Hy) as [H|H]; auto.
      rewrite before_head in H. destruct H. }
    rewrite (q_remove_grp M x HM Hd). rewrite (IH (rm x M)); auto.
    + f_equal. unfold rm. clear. induction M as [|a M IHM]; simpl; auto.
      rewrite (acc_eqb_sym a x). destruct (acc_eqb x a) eqn:E; simpl; auto.
      destruct (memacc a T); simpl; auto. f_equal; auto.
    + apply rm_NoDup; auto.
    + intros y Hy. apply rm_In. split; [apply Hi; right; auto|]. intros ->. contradiction.
    + intros x' y Hx' Hy. assert (Hne : x' <> x) by (intros ->; contradiction).
      rewrite before_rm in Hy by auto. apply rm_In in Hy. destruct Hy as [Hy Hyx].
      destruct (Hc x' y (or_intror Hx') Hy) as [H|H]; auto. right.
      cbn [before] in H. destruct (acc_eqb x' x) eqn:E; [apply acc_eqb_eq in E; contradiction|].
      destruct H as [H|H]; [congruence|auto]. Qed.

Section Recon.
Variables (P : proc) (prog : list instr).
Hypothesis Hwf : wf_procb P = true.
Hypothesis Hwp : wf_progb prog = true.

Definition perfa (d : diagram) (a : acc) : bool := performed P d (snd a) (fst a).

(* ---------- recon_queues, register by register ---------- *)
Definition recF (d : diagram) (qs : queues) (i : nat) : queues :=
  let qs1 := if performed P d i RD
             then fold_left (fun qs r => qs_remove qs r RD i) (srcs_of prog i) qs else qs in
  if performed P d i WR then qs_remove qs1 (dst_of prog i) WR i else qs1.
Lemma recon_eq d : recon_queues P prog d = fold_left (recF d) (seq 0 (length prog)) (build_acc_plan prog).
Proof. reflexivity. Qed.

Definition rdl (reg : string) (i : nat) (srcs : list string) : list acc :=
  flat_map (fun s => if String.eqb s reg then [(RD, i)] else []) srcs.

Lemma srcs_rem_fold reg i : forall srcs qs,
  assoc [] (fold_left (fun qs r => qs_remove qs r RD i) srcs qs) reg = fold_left qrem (rdl reg i srcs) (assoc [] qs reg).
Proof. unfold rdl. induction srcs as [|s srcs IH]; intros qs; cbn [fold_left flat_map]; auto.
  rewrite IH, fold_left_app. f_equal. unfold qs_remove. rewrite assoc_set.
  rewrite (String.eqb_sym reg s). destruct (String.eqb_spec s reg) as [->|Hne]; reflexivity. Qed.
Lemma rdl_In reg i srcs x : In x (rdl reg i srcs) -> x = (RD, i).
Proof. unfold rdl. rewrite in_flat_map. intros [s [_ H]]. destruct (String.eqb s reg); [|destruct H].
  destruct H as [H|[]]; auto. Qed.
Lemma filter_none {A} (p : A -> bool) l : (forall x, In x l -> p x = false) -> filter p l = [].
Proof. induction l as [|a l IH]; intros H; cbn [filter]; auto. rewrite (H a) by (left; auto).
  apply IH. intros x Hx. apply H. right; auto. Qed.
Lemma filter_rdl d reg i srcs :
  filter (perfa d) (rdl reg i srcs) = if performed P d i RD then rdl reg i srcs else [].
Proof. destruct (performed P d i RD) eqn:E.
  - apply filter_all. intros x Hx. apply rdl_In in Hx. subst. unfold perfa. cbn [fst snd]. auto.
  - apply filter_none. intros x Hx. apply rdl_In in Hx. subst. unfold perfa. cbn [fst snd]. auto. Qed.

Lemma assoc_qs_remove qs r ty o reg :
  assoc [] (qs_remove qs r ty o) reg = if String.eqb reg r then q_remove (assoc [] qs r) ty o else assoc [] qs reg.
Proof. unfold qs_remove. apply assoc_set. Qed.

Lemma recF_assoc d reg qs i ins : nth_error prog i = Some ins ->
  assoc [] (recF d qs i) reg = fold_left qrem (filter (perfa d) (iaccs reg i ins)) (assoc [] qs reg).
Proof. intros Hn. unfold recF, iaccs, srcs_of, dst_of. rewrite Hn. fold (rdl reg i (i_srcs ins)).
  rewrite filter_app, fold_left_app, filter_rdl.
  assert (G : assoc [] (if performed P d i RD then fold_left (fun qs r => qs_remove qs r RD i) (i_srcs ins) qs else qs) reg
              = fold_left qrem (if performed P d i RD then rdl reg i (i_srcs ins) else []) (assoc [] qs reg)).
  { destruct (performed P d i RD); auto. apply srcs_rem_fold. }
  destruct (performed P d i WR) eqn:Ew.
  - rewrite assoc_qs_remove, (String.eqb_sym reg (i_dst ins)).
    destruct (String.eqb_spec (i_dst ins) reg) as [->|Hne]; cbn [filter].
    + unfold perfa. cbn [fst snd]. rewrite Ew. cbn [fold_left]. unfold qrem at 1. cbn [fst snd].
      f_equal. exact G.
    + cbn [fold_left]. exact G.
  - destruct (String.eqb (i_dst ins) reg); cbn [filter]; [|exact G].
    unfold perfa. cbn [fst snd]. rewrite Ew. exact G. Qed.

Lemma recon_fold d reg : forall prog' k qs,
  (forall j, j < length prog' -> nth_error prog (k + j) = nth_error prog' j) ->
  assoc [] (fold_left (recF d) (seq k (length prog')) qs) reg =
  fold_left qrem (filter (perfa d) (paccs reg k prog')) (assoc [] qs reg).
Proof. induction prog' as [|ins prog' IH]; intros k qs H; cbn [length seq fold_left paccs]; auto.
  rewrite filter_app, fold_left_app, IH.
  - f_equal. apply recF_assoc. rewrite <- (Nat.add_0_r k). rewrite (H 0); [reflexivity|cbn; lia].
  - intros j Hj. replace (S k + j) with (k + S j) by lia. rewrite (H (S j)); [reflexivity|cbn; lia]. Qed.

Lemma recon_assoc_fold d reg :
  assoc [] (recon_queues P prog d) reg =
  fold_left qrem (filter (perfa d) (accs prog reg)) (assoc [] (build_acc_plan prog) reg).
Proof. rewrite recon_eq. apply (recon_fold d reg prog 0). intros j _. reflexivity. Qed.

(* ---------- the performed accesses are closed under the hazard order ---------- *)
Lemma closure s reg x y : reach P prog s -> In x (accs prog reg) -> perfa (tbl s) x = true ->
  In y (before x (accs prog reg)) -> (fst x = RD /\ fst y = RD) \/ perfa (tbl s) y = true.
Proof. intros Hr Hx Hp Hy. pose proof (accs_sorted prog reg Hwp) as HS.
  pose proof (proj1 (before_ksorted _ x y HS Hx) Hy) as [HyL Hk].
  destruct x as [kx j], y as [ky i]. unfold perfa in *. cbn [fst snd] in *. unfold performed in Hp.
  destruct (acc_time P (tbl s) j kx) as [tj|] eqn:Ea; [|discriminate].
  unfold key in Hk. cbn [fst snd] in Hk.
  destruct (Nat.lt_trichotomy i j) as [Hij|[->|Hij]].
  - assert (Hcf : (kx = RD /\ ky = RD) \/ In (ky, kx) (conflicts prog i j)).
    { unfold conflicts. rewrite !in_app_iff. destruct kx, ky; auto; right.
      - apply accs_RD in Hx. apply accs_WR in HyL. destruct HyL as [_ E]. apply mem_str_In in Hx.
        left. rewrite E, Hx. left; auto.
      - apply accs_WR in Hx. apply accs_RD in HyL. destruct Hx as [_ E]. apply mem_str_In in HyL.
        right. left. rewrite E, HyL. left; auto.
      - apply accs_WR in Hx. apply accs_WR in HyL. destruct Hx as [_ E]. destruct HyL as [_ E'].
        right. right. rewrite E, E', String.eqb_refl. left; auto. }
    destruct Hcf as [[-> ->]|Hcf]; auto. right.
    destruct (order_reach P prog s i j ky kx tj Hwf Hwp Hr Hij Hcf Ea) as (ti & Hti & _).
    unfold performed. rewrite Hti. auto.
  - destruct kx, ky; try lia. right.
    destruct (read_before_write P prog s j tj Hwf Hwp Hr Ea) as (a & Ha & _). unfold performed. rewrite Ha. auto.
  - destruct kx, ky; lia. Qed.

Theorem recon_assoc s reg : reach P prog s ->
  assoc [] (recon_queues P prog (tbl s)) reg = assoc [] (qs_ s) reg.
Proof. intros Hr. destruct (inv_reach P prog Hwf Hwp s Hr) as (_ & HQ & _). rewrite HQ.
  rewrite recon_assoc_fold, plan_grp by auto. set (L := accs prog reg). set (d := tbl s).
  pose proof (accs_sorted prog reg Hwp) as HS. fold L in HS.
  rewrite qrems_grp.
  - f_equal. unfold Mq. fold L. apply filter_ext_in'. intros a Ha. unfold pendf. f_equal.
    apply bool_eq_iff. rewrite memacc_In, filter_In. unfold perfa. tauto.
  - apply ksorted_NoDup; auto.
  - apply NoDup_filter, ksorted_NoDup; auto.
  - intros a Ha. apply filter_In in Ha. tauto.
  - intros x y Hx Hy. apply filter_In in Hx. destruct Hx as [HxL Hxp].
    destruct (closure s reg x y Hr HxL Hxp Hy) as [H|H]; auto. right.
    rewrite filter_before by auto. apply filter_In. auto. Qed.
End Recon.
