(* Exact3_c02 -- the checker C02_checkb decides exactly the Prop-level statement C02_prop (spec/Exact3_defs.v,
   the conclusion of C02_reading) on every diagram whose records have duplicate-free unit keys (keys_ok, the
   first half of diagram_shape).  Both directions need keys_ok: see Exact3_counterexample.v.

   The second half of diagram_shape (a unit's list shows an instruction at most once) is NOT needed, although
   the checker reads the previous label of an instruction with lab_in (= the FIRST entry with that index)
   where the statement says "some entry (i, l0) with l0 <> LD": the checker, and likewise the statement,
   determines the label of an entry from (cycle, unit, instruction) alone, so each of them forces every list
   of the diagram to show an instruction with ONE label only (z_fun), and on such lists lab_in and In agree.
   one_place and every fact about the processor, the program or the origin of the diagram are not needed
   either. *)
From Coq Require Import Lia.
From PS Require Import Base Bag RegAccess Sim Diag Readings_defs Exact_defs Exact3_defs
  Exact_c04 Exact2_c06 Exact2_c07 Exact3_base.

(* i is shown in es with a label other than 'D' *)
Definition z_stayed (es : list entry) (i : nat) : Prop := exists l0, In (i, l0) es /\ l0 <> LD.

(* the statement of C02 for one entry *)
Definition z_clause (P : proc) (prog : list instr) (d : diagram) (t : nat) (u : string) (i : nat) (l : label) : Prop :=
  (z_stayed (prev_occ d t u) i -> l = LS) /\
  (~ z_stayed (prev_occ d t u) i ->
   (l = LD /\ outstanding P prog d t i u) \/ (l = LU /\ ~ outstanding P prog d t i u)).

Lemma C02_prop_unfold P prog d :
  C02_prop P prog d <-> forall t u i l, t < length d -> In (i, l) (occ d t u) -> z_clause P prog d t u i l.
Proof. unfold C02_prop, z_clause, z_stayed. tauto. Qed.

Lemma z_stayed_dec es i : z_stayed es i \/ ~ z_stayed es i.
Proof. induction es as [|[j m] es IH].
  - right. intros (l0 & [] & _).
  - destruct IH as [(l0 & Hin & Hne)|Hn]; [left; exists l0; split; auto; right; auto|].
    destruct (Nat.eq_dec j i) as [->|Hji].
    + destruct m.
      * right. intros (l0 & [H|H] & Hne); [inversion H; subst; auto|]. apply Hn. exists l0. auto.
      * left. exists LS. split; [left; auto|discriminate].
      * left. exists LU. split; [left; auto|discriminate].
    + right. intros (l0 & [H|H] & Hne); [inversion H; subst; auto|]. apply Hn. exists l0. auto. Qed.

(* every instruction is shown with one label only (the same entry may be repeated) *)
Definition z_fun (es : list entry) : Prop := forall i l l', In (i, l) es -> In (i, l') es -> l = l'.

Lemma z_fun_nil : z_fun [].
Proof. intros i l l' []. Qed.

Lemma z_lab_in_stayed es i : z_fun es ->
  (z_stayed es i <-> lab_in es i = Some LU \/ lab_in es i = Some LS).
Proof. intros Hf. split.
  - intros (l0 & Hin & Hne). destruct (lab_in es i) as [l'|] eqn:E.
    + apply y_lab_in_In in E. rewrite (Hf i l' l0 E Hin). destruct l0; [congruence|right|left]; reflexivity.
    + exfalso. apply (y_lab_in_none _ _ E). eauto.
  - intros [E|E]; apply y_lab_in_In in E; eexists; (split; [exact E|discriminate]). Qed.

(* one entry: the checker's verdict is the statement's clause *)
Lemma z_entry_iff P prog d t u i l : keys_ok d -> z_fun (prev_occ d t u) ->
  (C02_entry_ok P prog d t u (i, l) = true <-> z_clause P prog d t u i l).
Proof. intros HK Hf. unfold C02_entry_ok, z_clause. cbv zeta. cbn [fst snd].
  destruct (z_stayed_dec (prev_occ d t u) i) as [Hs|Hn].
  - assert (E : match lab_in (prev_occ d t u) i with
                | Some LU | Some LS => label_eqb l LS
                | _ => if blocked P prog d t i u then label_eqb l LD else label_eqb l LU
                end = label_eqb l LS).
    { apply z_lab_in_stayed in Hs; auto. destruct Hs as [-> | ->]; reflexivity. }
    rewrite E, y_label_eqb. tauto.
  - assert (E : match lab_in (prev_occ d t u) i with
                | Some LU | Some LS => label_eqb l LS
                | _ => if blocked P prog d t i u then label_eqb l LD else label_eqb l LU
                end = if blocked P prog d t i u then label_eqb l LD else label_eqb l LU).
    { destruct (lab_in (prev_occ d t u) i) as [[| |]|] eqn:El; try reflexivity;
        exfalso; apply Hn; apply z_lab_in_stayed; auto. }
    rewrite E. pose proof (z_blocked_iff P prog d t i u HK) as Hb.
    destruct (blocked P prog d t i u); rewrite y_label_eqb.
    + assert (Ho : outstanding P prog d t i u) by (apply Hb; reflexivity). split.
      * intros ->. split; [tauto|]. intros _. left. auto.
      * intros [_ H]. destruct (H Hn) as [[-> _]|[_ Hno]]; [reflexivity|tauto].
    + assert (Ho : ~ outstanding P prog d t i u) by (intros Ho; apply Hb in Ho; discriminate). split.
      * intros ->. split; [tauto|]. intros _. right. auto.
      * intros [_ H]. destruct (H Hn) as [[_ Ho']|[-> _]]; [tauto|reflexivity]. Qed.

(* the checker's verdict, and the statement's clause, determine the label *)
Lemma z_ok_fun P prog d t u i l l' :
  C02_entry_ok P prog d t u (i, l) = true -> C02_entry_ok P prog d t u (i, l') = true -> l = l'.
Proof. unfold C02_entry_ok. cbv zeta. cbn [fst snd].
  destruct (lab_in (prev_occ d t u) i) as [[| |]|]; try destruct (blocked P prog d t i u);
    rewrite !y_label_eqb; congruence. Qed.

Lemma z_clause_fun P prog d t u i l l' :
  z_clause P prog d t u i l -> z_clause P prog d t u i l' -> l = l'.
Proof. intros [A1 A2] [B1 B2]. destruct (z_stayed_dec (prev_occ d t u) i) as [Hs|Hn].
  - rewrite (A1 Hs), (B1 Hs). reflexivity.
  - destruct (A2 Hn) as [[-> Ho]|[-> Ho]], (B2 Hn) as [[-> Ho']|[-> Ho']]; try reflexivity; tauto. Qed.

Lemma z_checkb_entry P prog d t u i l : C02_checkb P prog d = true ->
  In (i, l) (occ d t u) -> C02_entry_ok P prog d t u (i, l) = true.
Proof. intros Hc Hin. pose proof (z_occ_lt _ _ _ _ Hin) as Ht. unfold C02_checkb in Hc.
  rewrite forallb_forall in Hc. specialize (Hc t ltac:(apply in_seq; lia)).
  rewrite forallb_forall in Hc. specialize (Hc _ (y_occ_rec _ _ _ _ Hin)). cbn [fst snd] in Hc.
  rewrite forallb_forall in Hc. exact (Hc _ Hin). Qed.

Lemma z_prev_fun d t u : (forall t' u', z_fun (occ d t' u')) -> z_fun (prev_occ d t u).
Proof. intros H. destruct t as [|t']; [apply z_fun_nil|apply H]. Qed.

Lemma z_checkb_fun P prog d : C02_checkb P prog d = true -> forall t u, z_fun (occ d t u).
Proof. intros Hc t u i l l' H1 H2. eapply z_ok_fun; eapply z_checkb_entry; eauto. Qed.

Lemma z_prop_fun P prog d : C02_prop P prog d -> forall t u, z_fun (occ d t u).
Proof. intros Hp t u i l l' H1 H2. rewrite C02_prop_unfold in Hp. pose proof (z_occ_lt _ _ _ _ H1) as Ht.
  eapply z_clause_fun; eapply Hp; eauto. Qed.

(* ---------- the two directions, under duplicate-free unit keys ---------- *)
Lemma C02_checker_sound_keys :
  forall (P : proc) (prog : list instr) (d : diagram), keys_ok d ->
    C02_checkb P prog d = true -> C02_prop P prog d.
Proof. intros P prog d HK Hc. apply C02_prop_unfold. intros t u i l Ht Hin.
  apply z_entry_iff; auto.
  - apply z_prev_fun. apply (z_checkb_fun P prog d Hc).
  - apply z_checkb_entry; auto. Qed.

Lemma C02_checker_complete_keys :
  forall (P : proc) (prog : list instr) (d : diagram), keys_ok d ->
    C02_prop P prog d -> C02_checkb P prog d = true.
Proof. intros P prog d HK Hp. pose proof (z_prop_fun P prog d Hp) as Hf. rewrite C02_prop_unfold in Hp.
  unfold C02_checkb. apply forallb_forall. intros t Ht. apply in_seq in Ht.
  apply forallb_forall. intros [u es] Hkv. cbn [fst snd]. apply forallb_forall. intros [i l] He.
  assert (Hin : In (i, l) (occ d t u)).
  { unfold occ. rewrite (x_get_nodup _ _ _ (z_keys_at d t HK) Hkv). exact He. }
  apply z_entry_iff; auto.
  - apply z_prev_fun. exact Hf.
  - apply Hp; auto. lia. Qed.

Lemma C02_checker_exact_keys :
  forall (P : proc) (prog : list instr) (d : diagram), keys_ok d ->
    (C02_checkb P prog d = true <-> C02_prop P prog d).
Proof. intros P prog d HK. split.
  - apply C02_checker_sound_keys; auto.
  - apply C02_checker_complete_keys; auto. Qed.

(* ---------- under diagram_shape ---------- *)
Lemma C02_checker_sound_shape :
  forall (P : proc) (prog : list instr) (d : diagram), diagram_shape d ->
    C02_checkb P prog d = true -> C02_prop P prog d.
Proof. intros P prog d Hs. apply C02_checker_sound_keys. apply shape_keys; auto. Qed.

Lemma C02_checker_complete_shape :
  forall (P : proc) (prog : list instr) (d : diagram), diagram_shape d ->
    C02_prop P prog d -> C02_checkb P prog d = true.
Proof. intros P prog d Hs. apply C02_checker_complete_keys. apply shape_keys; auto. Qed.

Lemma C02_checker_exact_lemma :
  forall (P : proc) (prog : list instr) (d : diagram), diagram_shape d ->
    (C02_checkb P prog d = true <-> C02_prop P prog d).
Proof. intros P prog d Hs. apply C02_checker_exact_keys. apply shape_keys; auto. Qed.

Print Assumptions C02_checker_exact_keys.
Print Assumptions C02_checker_exact_lemma.
