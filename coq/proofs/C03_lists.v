(* C03_lists.v -- generic list facts used by the C03 proofs: NoDup helpers, keys of set, the
   "delete descending indices = filter by index" lemma (DelIdx), sortedness of isort, locate. *)
From Coq Require Import Lia Permutation Sorted.
From PS Require Import Base Lists.

(* ---------- NoDup helpers ---------- *)
Lemma NoDup_app_intro {A} (l l' : list A) :
  NoDup l -> NoDup l' -> (forall x, In x l -> In x l' -> False) -> NoDup (l ++ l').
Proof. induction l as [|a l IH]; simpl; intros H1 H2 H3; auto. inversion H1; subst. constructor.
  - rewrite in_app_iff. intros [?|?]; eauto.
  - apply IH; eauto. Qed.
Lemma NoDup_app_disj {A} (l l' : list A) : NoDup (l ++ l') -> forall x, In x l -> In x l' -> False.
Proof. induction l as [|a l IH]; simpl; intros H x H1 H2; auto. inversion H; subst.
  destruct H1 as [->|H1]; [apply H4; apply in_or_app; auto|eauto]. Qed.
Lemma NoDup_app_r {A} (l l' : list A) : NoDup (l ++ l') -> NoDup l'.
Proof. induction l as [|a l IH]; simpl; intros H; auto. inversion H; auto. Qed.
Lemma NoDup_app_l {A} (l l' : list A) : NoDup (l ++ l') -> NoDup l.
Proof. induction l as [|a l IH]; simpl; intros H; [constructor|]. inversion H; subst. constructor; auto.
  intros Hin. apply H2. apply in_or_app; auto. Qed.
Lemma NoDup_map_in {A B} (g : A -> B) (l : list A) :
  (forall x y, In x l -> In y l -> g x = g y -> x = y) -> NoDup l -> NoDup (map g l).
Proof. induction l as [|a l IH]; simpl; intros Hi H; [constructor|]. inversion H; subst. constructor.
  - intros Hin. apply in_map_iff in Hin. destruct Hin as [x [Hx Hin]].
    assert (x = a) by (apply Hi; auto). subst. auto.
  - apply IH; auto. Qed.
Lemma NoDup_map_fst_same {A B} (l : list (A * B)) i a b :
  NoDup (map fst l) -> In (i, a) l -> In (i, b) l -> a = b.
Proof. induction l as [|[j c] l IH]; simpl; intros H H1 H2; [tauto|]. inversion H; subst.
  destruct H1 as [H1|H1], H2 as [H2|H2].
  - congruence.
  - inversion H1; subst. exfalso. apply H4. change i with (fst (i, b)). apply in_map; auto.
  - inversion H2; subst. exfalso. apply H4. change i with (fst (i, a)). apply in_map; auto.
  - auto. Qed.
Lemma NoDup_map_filter {A B} (f : A -> B) p (l : list A) : NoDup (map f l) -> NoDup (map f (filter p l)).
Proof. induction l as [|a l IH]; simpl; intros H; auto. inversion H; subst.
  destruct (p a); simpl; auto. constructor; auto. intros Hin. apply H2.
  apply in_map_iff in Hin. destruct Hin as [x [Hx Hf]]. apply filter_In in Hf.
  apply in_map_iff. exists x. tauto. Qed.
Lemma filter_all {A} (p : A -> bool) l : (forall x, In x l -> p x = true) -> filter p l = l.
Proof. induction l as [|a l IH]; simpl; intros H; auto. rewrite (H a) by auto. f_equal. apply IH. auto. Qed.
Lemma filter_filter_same {A} (p : A -> bool) l : filter p (filter p l) = filter p l.
Proof. apply filter_all. intros x Hx. apply filter_In in Hx. tauto. Qed.

Lemma nodupb_NoDup (l : list string) : nodupb String.eqb l = true <-> NoDup l.
Proof. induction l as [|a l IH]; simpl.
  - split; auto. constructor.
  - rewrite andb_true_iff, negb_true_iff, IH. split.
    + intros [H1 H2]. constructor; auto. intros Hin. apply mem_str_In in Hin. unfold mem_str in Hin. congruence.
    + intros H. inversion H; subst. split; auto. destruct (existsb (String.eqb a) l) eqn:E; auto.
      exfalso. apply H2. apply mem_str_In. exact E. Qed.

(* ---------- keys of get / set ---------- *)
Lemma set_keys_in {A} (r : list (string * A)) k v x :
  In x (map fst (set r k v)) -> x = k \/ In x (map fst r).
Proof. induction r as [|[k' v'] t IH]; simpl.
  - intros [H|[]]; auto.
  - destruct (String.eqb k k') eqn:E; simpl.
    + apply String.eqb_eq in E; subst. tauto.
    + intros [H|H]; auto. apply IH in H. tauto. Qed.
Lemma set_nodup {A} (r : list (string * A)) k v : NoDup (map fst r) -> NoDup (map fst (set r k v)).
Proof. induction r as [|[k' v'] t IH]; simpl; intros H.
  - constructor; auto; constructor.
  - inversion H; subst. destruct (String.eqb k k') eqn:E; simpl.
    + apply String.eqb_eq in E; subst. constructor; auto.
    + constructor; auto. intros Hin. apply set_keys_in in Hin. destruct Hin as [->|Hin]; auto.
      rewrite String.eqb_refl in E. discriminate. Qed.
Lemma get_in {A} (r : list (string * list A)) k v : NoDup (map fst r) -> In (k, v) r -> get r k = v.
Proof. induction r as [|[k' v'] t IH]; simpl; intros H Hin; [tauto|]. inversion H; subst.
  destruct Hin as [Hin|Hin].
  - inversion Hin; subst. rewrite String.eqb_refl. auto.
  - destruct (String.eqb k k') eqn:E; auto. apply String.eqb_eq in E; subst.
    exfalso. apply H2. change k' with (fst (k', v)). apply in_map; auto. Qed.
Lemma get_notin {A} (r : list (string * list A)) k : ~ In k (map fst r) -> get r k = [].
Proof. induction r as [|[k' v'] t IH]; simpl; intros H; auto.
  destruct (String.eqb k k') eqn:E; [apply String.eqb_eq in E; subst; tauto|]. apply IH. tauto. Qed.

(* ---------- deleting descending indices = filtering by index ---------- *)
Fixpoint keep_not {A} (I : list nat) (base : nat) (l : list A) : list A :=
  match l with
  | [] => []
  | x :: t => (if existsb (Nat.eqb base) I then [] else [x]) ++ keep_not I (S base) t
  end.
Definition del_desc {A} (I : list nat) (l : list A) : list A := fold_left (fun l i => del_nth i l) I l.

Lemma keep_not_above {A} (I : list nat) : forall (t : list A) b,
  (forall j, In j I -> j < b) -> keep_not I b t = t.
Proof. induction t as [|y t IHt]; intros b Hb; simpl; auto.
  destruct (existsb (Nat.eqb b) I) eqn:E.
  - apply existsb_exists in E. destruct E as [j [Hj E]]. apply Nat.eqb_eq in E. subst.
    specialize (Hb _ Hj). lia.
  - simpl. f_equal. apply IHt. intros j Hj. specialize (Hb _ Hj). lia. Qed.
Lemma keep_not_del {A} : forall (l : list A) base i I,
  (forall j, In j I -> j < base + i) ->
  keep_not I base (del_nth i l) = keep_not (base + i :: I) base l.
Proof.
  induction l as [|x t IH]; intros base i I HI; simpl; [destruct i; reflexivity|].
  destruct i; simpl.
  - rewrite Nat.add_0_r in *. rewrite Nat.eqb_refl. simpl.
    rewrite !keep_not_above; auto.
    intros j [<-|Hj]; [lia|]. specialize (HI _ Hj). lia.
  - destruct (Nat.eqb_spec base (base + S i)); [lia|]. simpl.
    f_equal. replace (base + S i) with (S base + i) by lia. apply IH.
    intros j Hj. specialize (HI j Hj). lia.
Qed.
Theorem del_desc_keep {A} : forall (I : list nat) (l : list A),
  StronglySorted (fun a b => b < a) I -> del_desc I l = keep_not I 0 l.
Proof.
  unfold del_desc. induction I as [|i I' IH]; intros l HS; simpl.
  - symmetry. apply keep_not_above. simpl; tauto.
  - inversion HS; subst. rewrite IH; auto.
    rewrite (keep_not_del l 0 i I'); auto.
    intros j Hj. rewrite Forall_forall in H2. simpl. apply H2; auto.
Qed.
Lemma keep_not_filter {A} (q : A -> bool) (I : list nat) : forall l b,
  (forall n e, nth_error l n = Some e -> (q e = true <-> ~ In (b + n) I)) ->
  keep_not I b l = filter q l.
Proof. induction l as [|x t IH]; intros b H; simpl; auto.
  rewrite (IH (S b)).
  - pose proof (H 0 x eq_refl) as H0. rewrite Nat.add_0_r in H0.
    fold (memn b I). destruct (memn b I) eqn:E.
    + apply memn_In in E. destruct (q x); auto. exfalso. apply (proj1 H0); auto.
    + assert (Hq : q x = true).
      { apply H0. intros Hin. apply memn_In in Hin. congruence. }
      rewrite Hq. auto.
  - intros n e Hn. specialize (H (S n) e Hn). replace (S b + n) with (b + S n) by lia. exact H. Qed.

(* ---------- isort is sorted ---------- *)
Section Sorted.
Context {A : Type} (leb : A -> A -> bool).
Let R := fun a b => leb a b = true.
Hypothesis total : forall a b, leb a b = false -> leb b a = true.
Hypothesis trans : forall a b c, leb a b = true -> leb b c = true -> leb a c = true.
Lemma insert_sorted x l : StronglySorted R l -> StronglySorted R (insert leb x l).
Proof. induction l as [|y t IH]; simpl; intros H.
  - constructor; constructor.
  - inversion H; subst. destruct (leb x y) eqn:E.
    + constructor; auto. constructor; auto. rewrite Forall_forall in *. intros z Hz. eapply trans; eauto.
      apply H3; auto.
    + constructor; auto. rewrite Forall_forall in *. intros z Hz. apply insert_incl in Hz.
      destruct Hz as [->|Hz]; [apply total; auto|apply H3; auto]. Qed.
Lemma isort_sorted l : StronglySorted R (isort leb l).
Proof. induction l as [|x l IH]; simpl; [constructor|]. apply insert_sorted; auto. Qed.
End Sorted.

Lemma StronglySorted_filter {A} (R : A -> A -> Prop) p l : StronglySorted R l -> StronglySorted R (filter p l).
Proof. induction l as [|a l IH]; simpl; intros H; [constructor|]. inversion H; subst.
  destruct (p a); auto. constructor; auto. rewrite Forall_forall in *. intros x Hx.
  apply filter_In in Hx. apply H3. tauto. Qed.

Lemma isort_In {A} leb (l : list A) x : In x (isort leb l) <-> In x l.
Proof. split; [apply isort_incl|]. apply Permutation_in. apply isort_perm. Qed.
Lemma isort_NoDup {A} leb (l : list A) : NoDup l -> NoDup (isort leb l).
Proof. apply Permutation_NoDup. apply isort_perm. Qed.

(* ---------- locate ---------- *)
Lemma locate_In {A} (p : A -> bool) : forall l b n,
  In n (locate p l b) -> b <= n /\ exists e, nth_error l (n - b) = Some e /\ p e = true.
Proof. induction l as [|x t IH]; simpl; intros b n H; [tauto|]. apply in_app_iff in H. destruct H as [H|H].
  - destruct (p x) eqn:E; [|destruct H]. destruct H as [<-|[]]. split; [lia|]. rewrite Nat.sub_diag.
    exists x. auto.
  - apply IH in H. destruct H as [Hle [e [He Hp]]]. split; [lia|]. exists e. split; auto.
    replace (n - b) with (S (n - S b)) by lia. exact He. Qed.
Lemma locate_NoDup {A} (p : A -> bool) : forall l b, NoDup (locate p l b).
Proof. induction l as [|x t IH]; simpl; intros b; [constructor|].
  destruct (p x); simpl; auto. constructor; auto. intros H. apply locate_In in H. lia. Qed.

Lemma nth_error_map_fst_inj {A B} (l : list (A * B)) n m e e' :
  NoDup (map fst l) -> nth_error l n = Some e -> nth_error l m = Some e' -> fst e = fst e' -> n = m.
Proof. intros Hnd H1 H2 Hf.
  assert (G1 : nth_error (map fst l) n = Some (fst e)) by (rewrite nth_error_map, H1; auto).
  assert (G2 : nth_error (map fst l) m = Some (fst e)) by (rewrite nth_error_map, H2, Hf; auto).
  eapply (proj1 (NoDup_nth_error (map fst l)) Hnd); [|congruence].
  apply nth_error_Some. congruence. Qed.
