(* C06_move.v -- the move phase (_mov_flights) seen through instruction indices: every instruction index
   lives in at most one unit (uniq), moves delete exactly what they append elsewhere, and the memory-port
   flag is witnessed by an instruction that started a memory stage. *)
From Coq Require Import Lia Permutation Sorted.
From PS Require Import Base Bag RegAccess Sim Diag Lists C06_lists.

Definition ixs (r : record) (u : string) : list nat := map fst (get r u).
Definition uniq (r : record) : Prop :=
  (forall u, NoDup (ixs r u)) /\ (forall u v k, In k (ixs r u) -> In k (ixs r v) -> u = v).
Definition subrec (r' r : record) := forall h, sub (get r' h) (get r h).
Definition fname (f : funit) : string := u_name (f_model f).

Lemma subrec_refl r : subrec r r.
Proof. intros h. apply sub_refl. Qed.
Lemma subrec_trans r1 r2 r3 : subrec r1 r2 -> subrec r2 r3 -> subrec r1 r3.
Proof. intros H1 H2 h. eapply sub_trans; eauto. Qed.
Lemma sub_ixs r' r h : sub (get r' h) (get r h) -> sub (ixs r' h) (ixs r h).
Proof. apply sub_map. Qed.
Lemma uniq_sub r r' : uniq r -> subrec r' r -> uniq r'.
Proof. intros [H1 H2] Hs. split.
  - intros u. eapply sub_NoDup; [apply sub_ixs, Hs|auto].
  - intros u v k Hu Hv. apply (H2 u v k); [eapply sub_In; [apply sub_ixs, Hs|exact Hu]|eapply sub_In; [apply sub_ixs, Hs|exact Hv]]. Qed.
Lemma uniq_nil : uniq [].
Proof. split; [intros u; constructor|intros u v k []]. Qed.

Lemma flush_sub P r : subrec (flush P r) r.
Proof. unfold flush. generalize (out_names P). intros ns. revert r.
  induction ns as [|n ns IH]; intros r; simpl; [apply subrec_refl|].
  eapply subrec_trans; [apply IH|]. intros h. destruct (string_dec n h) as [->|Hne].
  - rewrite gss. apply sub_filter.
  - rewrite gso; auto. apply sub_refl. Qed.
Lemma flush_ukeys P r : ukeys r -> ukeys (flush P r).
Proof. unfold flush. generalize (out_names P). intros ns. revert r.
  induction ns as [|n ns IH]; intros r H; simpl; auto. apply IH. apply set_ukeys; auto. Qed.

(* ---------- processing order of destinations ---------- *)
Fixpoint ord_ok (l : list funit) : Prop :=
  match l with
  | [] => True
  | f :: t => (forall f', In f' (f :: t) -> ~ In (fname f) (f_preds f')) /\ ord_ok t
  end.
Lemma ord_ok_app l1 l2 :
  (forall f, In f l1 -> forall f', In f' (l1 ++ l2) -> ~ In (fname f) (f_preds f')) ->
  ord_ok l2 -> ord_ok (l1 ++ l2).
Proof. induction l1 as [|f l1 IH]; simpl; intros H1 H2; [exact H2|]. split.
  - intros f' Hf'. apply H1; auto.
  - apply IH; [|exact H2]. intros g Hg f' Hf'. apply H1; auto. Qed.
Lemma sf_seen : forall l seen, sink_first l seen = true ->
  forall f', In f' l -> forall p, In p (f_preds f') -> ~ In p seen.
Proof. induction l as [|f l IH]; intros seen H f' Hf' p Hp Hin; [destruct Hf'|].
  cbn [sink_first] in H. apply andb_true_iff in H. destruct H as [H1 H2]. destruct Hf' as [->|Hf'].
  - apply negb_true_iff in H1.
    assert (existsb (fun p => mem_str p (u_name (f_model f') :: seen)) (f_preds f') = true); [|congruence].
    apply existsb_exists. exists p. split; auto. apply mem_str_In. right; auto.
  - eapply (IH _ H2 f' Hf' p Hp). right; auto. Qed.
Lemma sf_ord : forall l seen, sink_first l seen = true -> ord_ok l.
Proof. induction l as [|f l IH]; intros seen H; simpl; auto.
  cbn [sink_first] in H. apply andb_true_iff in H. destruct H as [H1 H2]. split; [|eauto].
  intros f' [<-|Hf'] Hin.
  - apply negb_true_iff in H1.
    assert (existsb (fun p => mem_str p (u_name (f_model f) :: seen)) (f_preds f) = true); [|congruence].
    apply existsb_exists. exists (fname f). split; auto. apply mem_str_In. left; auto.
  - eapply (sf_seen _ _ H2 f' Hf' (fname f) Hin). left; auto. Qed.

Lemma wf_nodup P : wf_procb P = true -> NoDup (unit_names P).
Proof. unfold wf_procb. rewrite !andb_true_iff. intros [[[H _] _] _]. apply nodupb_NoDup_str; auto. Qed.
Lemma wf_preds P : wf_procb P = true -> forall f, In f (funits P) ->
  NoDup (f_preds f) /\ forall p, In p (f_preds f) -> ~ In p (out_names P).
Proof. unfold wf_procb. rewrite !andb_true_iff. intros [[[_ H] _] _] f Hf.
  rewrite forallb_forall in H. specialize (H f Hf). apply andb_true_iff in H. destruct H as [H1 H2].
  split; [apply nodupb_NoDup_str; auto|]. intros p Hp Hin. rewrite forallb_forall in H2.
  specialize (H2 p Hp). apply andb_true_iff in H2. destruct H2 as [_ H2]. apply negb_true_iff in H2.
  apply mem_str_In in Hin. congruence. Qed.
Lemma wf_ord P : wf_procb P = true -> ord_ok (funits P).
Proof. intros Hwf. pose proof (wf_preds P Hwf) as Hp. unfold wf_procb in Hwf.
  rewrite !andb_true_iff in Hwf. destruct Hwf as [[[_ _] Hs] _]. unfold funits in *.
  apply ord_ok_app; [|eapply sf_ord; eauto].
  intros f Hf f' Hf' Hin. apply (proj2 (Hp f' Hf') _ Hin). unfold out_names.
  apply in_or_app. right. apply in_map_iff. exists f. auto. Qed.
Lemma wf_fnames P : NoDup (unit_names P) -> NoDup (map fname (funits P)).
Proof. unfold unit_names, all_units, funits. rewrite !map_app. intros H.
  apply NoDup_app_r in H. apply NoDup_app_r in H. rewrite !map_map in H. exact H. Qed.

Lemma find_unit_in P u : NoDup (unit_names P) -> In u (all_units P) -> find_unit P (u_name u) = Some u.
Proof. intros Hnd Hin. unfold find_unit. apply (find_nodup u_name (all_units P) u Hnd Hin). Qed.
Lemma funit_in_all P f : In f (funits P) -> In (f_model f) (all_units P).
Proof. unfold funits, all_units. rewrite !in_app_iff. intros [H|H]; [right; right; left|right; right; right];
  apply in_map; auto. Qed.

(* ---------- candidates ---------- *)
Lemma NoDup_flat_pairs {A B} (g : A -> list B) : forall hs, NoDup hs -> (forall h, NoDup (g h)) ->
  NoDup (flat_map (fun h => map (fun i => (h, i)) (g h)) hs).
Proof. induction hs as [|h hs IH]; simpl; intros Hn Hg; [constructor|].
  inversion Hn; subst. apply NoDup_app_intro; auto.
  - apply NoDup_map_inj_in; auto. intros x y _ _ H. inversion H; auto.
  - intros [a b] Ha Hb. apply in_map_iff in Ha. destruct Ha as [i [Hi _]]. inversion Hi; subst.
    apply in_flat_map in Hb. destruct Hb as [h' [Hh' Hb]]. apply in_map_iff in Hb.
    destruct Hb as [j [Hj _]]. inversion Hj; subst. tauto. Qed.

Section Move.
Variable P : proc.
Variable prog : list instr.

Lemma cands_NoDup f r : NoDup (f_preds f) -> NoDup (cands prog f r).
Proof. intros H. unfold cands. apply NoDup_flat_pairs; auto. intros h. apply locate_NoDup. Qed.
Lemma cands_spec f r c : In c (cands prog f r) ->
  In (fst c) (f_preds f) /\ exists e, nth_error (get r (fst c)) (snd c) = Some e.
Proof. unfold cands. intros H. apply in_flat_map in H. destruct H as [h [Hh H]].
  apply in_map_iff in H. destruct H as [j [<- Hj]]. simpl. split; auto.
  apply locate_spec in Hj. destruct Hj as [_ [e [He _]]]. rewrite Nat.sub_0_r in He. eauto. Qed.

Lemma ix_of_ext r r' c : get r' (fst c) = get r (fst c) -> ix_of r' c = ix_of r c.
Proof. unfold ix_of. intros ->. reflexivity. Qed.

Lemma walk_spec f busy : forall cs r used moved r' used' moved',
  (forall c, In c cs -> fst c <> fname f) -> NoDup cs ->
  walk prog f busy cs r used moved = (r', used', moved') ->
  exists mv, moved' = moved ++ mv /\ incl mv cs /\ NoDup mv /\
    (forall h, h <> fname f -> get r' h = get r h) /\
    get r' (fname f) = get r (fname f) ++ map (fun c => (ix_of r c, LU)) mv /\
    (used' = true -> used = true \/
       exists c, In c mv /\ mem_str (cat_of prog (ix_of r c)) (u_mem (f_model f)) = true).
Proof. unfold fname.
  induction cs as [|c t IH]; intros r used moved r' used' moved' Hne Hnd H; simpl in H.
  - inversion H; subst. exists []. rewrite !app_nil_r. simpl.
    split; [reflexivity|]. split; [apply incl_refl|]. split; [constructor|]. auto.
  - destruct (length (get r (u_name (f_model f))) =? u_width (f_model f)).
    + inversion H; subst. exists []. rewrite !app_nil_r. simpl.
      split; [reflexivity|]. split; [intros x []|]. split; [constructor|]. auto.
    + assert (Hne' : forall c0, In c0 t -> fst c0 <> u_name (f_model f)) by (intros; apply Hne; right; auto).
      inversion Hnd as [|? ? Hc Hnd']; subst.
      destruct ((busy || used) && mem_str (cat_of prog (ix_of r c)) (u_mem (f_model f))) eqn:E.
      * apply IH in H; auto. destruct H as (mv & Hm & Hi & Hn & Hg & Hv & Hu).
        exists mv. repeat split; auto. apply incl_tl; auto.
      * apply IH in H; auto. destruct H as (mv & Hm & Hi & Hn & Hg & Hv & Hu).
        assert (Hix : forall c', In c' mv ->
                  ix_of (set r (u_name (f_model f)) (get r (u_name (f_model f)) ++ [(ix_of r c, LU)])) c' = ix_of r c').
        { intros c' Hc'. apply ix_of_ext. rewrite gso; auto. intros Heq. apply (Hne' c'); auto. }
        exists (c :: mv). split; [|split; [|split; [|split; [|split]]]].
        -- rewrite Hm, <- app_assoc. reflexivity.
        -- intros x [->|Hx]; [left; auto|right; auto].
        -- constructor; auto.
        -- intros h Hh. rewrite Hg; auto. rewrite gso; auto.
        -- rewrite Hv, gss, <- app_assoc. simpl. f_equal. f_equal.
           apply map_ext_in. intros c' Hc'. rewrite Hix; auto.
        -- intros Hu'. destruct (Hu Hu') as [Hor|[c' [Hc' Hm']]].
           ++ apply orb_true_iff in Hor. destruct Hor as [Hor|Hor]; [left; auto|].
              right. exists c. split; [left; auto|auto].
           ++ right. exists c'. split; [right; auto|]. rewrite <- Hix; auto.
Qed.

(* ---------- clr ---------- *)
Lemma clr_fold_get (L : list (string * nat)) : forall (r : record) h,
  get (fold_left (fun r c => set r (fst c) (del_nth (snd c) (get r (fst c)))) L r) h
  = dels (map snd (filter (fun c : string * nat => String.eqb (fst c) h) L)) (get r h).
Proof. induction L as [|c L IH]; intros r h; simpl; auto.
  rewrite IH. destruct (String.eqb (fst c) h) eqn:E; simpl.
  - apply String.eqb_eq in E. subst. rewrite gss. reflexivity.
  - rewrite gso; auto. intros Heq. rewrite Heq, String.eqb_refl in E. discriminate. Qed.

Lemma host_pos_sorted h : forall L : list (string * nat),
  StronglySorted (fun a b => (snd b <=? snd a) = true) L -> NoDup L ->
  StronglySorted (fun a b => b < a) (map snd (filter (fun c => String.eqb (fst c) h) L)).
Proof. induction L as [|c L IH]; intros Hs Hn; simpl; [constructor|].
  inversion Hs as [|? ? Hs' Hall]; subst. inversion Hn as [|? ? Hc Hn']; subst.
  destruct (String.eqb (fst c) h) eqn:E; simpl; auto.
  constructor; auto. rewrite Forall_forall. intros j Hj. apply in_map_iff in Hj.
  destruct Hj as [c' [<- Hc']]. apply filter_In in Hc'. destruct Hc' as [Hc' E'].
  rewrite Forall_forall in Hall. specialize (Hall c' Hc'). apply Nat.leb_le in Hall.
  destruct (Nat.eq_dec (snd c') (snd c)) as [Heq|]; [|lia].
  exfalso. apply Hc. apply String.eqb_eq in E, E'. destruct c, c'; simpl in *; subst; auto. Qed.

Lemma clr_get r mv h :
  get (clr r mv) h
  = dels (map snd (filter (fun c : string * nat => String.eqb (fst c) h)
                          (isort (fun a b => snd b <=? snd a) mv))) (get r h).
Proof. unfold clr. apply clr_fold_get. Qed.
Lemma clr_sub r mv : subrec (clr r mv) r.
Proof. intros h. rewrite clr_get. apply dels_sub. Qed.
Lemma filter_none {A} (p : A -> bool) l : (forall x, In x l -> p x = false) -> filter p l = [].
Proof. induction l as [|a l IH]; simpl; intros H; auto. rewrite (H a) by auto. apply IH. intros; apply H; auto. Qed.

Lemma clr_other r mv h : (forall c, In c mv -> fst c <> h) -> get (clr r mv) h = get r h.
Proof. intros H. rewrite clr_get. rewrite filter_none; [reflexivity|].
  intros c Hc. apply isort_incl in Hc. apply H in Hc.
  destruct (String.eqb (fst c) h) eqn:E; auto. apply String.eqb_eq in E. tauto. Qed.
Lemma clr_removed r mv c e : NoDup mv -> NoDup (ixs r (fst c)) -> In c mv ->
  nth_error (get r (fst c)) (snd c) = Some e -> ~ In (fst e) (ixs (clr r mv) (fst c)).
Proof. intros Hn Hu Hc He. unfold ixs. rewrite clr_get.
  apply dels_removed with (j := snd c); auto.
  - apply host_pos_sorted.
    + apply (isort_sorted (fun a b : string * nat => snd b <=? snd a)).
      * intros a b. destruct (Nat.leb_spec (snd b) (snd a)); auto. right. apply Nat.leb_le. lia.
      * intros a b c0 H1 H2. apply Nat.leb_le in H1, H2. apply Nat.leb_le. lia.
    + eapply Permutation_NoDup; [apply isort_perm|auto].
  - apply in_map. apply filter_In. split; [|apply String.eqb_refl].
    eapply Permutation_in; [apply isort_perm|auto]. Qed.
Lemma clr_ukeys mv : forall r, ukeys r -> ukeys (clr r mv).
Proof. unfold clr. generalize (isort (fun a b : string * nat => snd b <=? snd a) mv). intros L.
  induction L as [|c L IH]; intros r H; simpl; auto. apply IH. apply set_ukeys; auto. Qed.

Lemma walk_ukeys f busy : forall cs r used moved, ukeys r ->
  ukeys (fst (fst (walk prog f busy cs r used moved))).
Proof. induction cs as [|c t IH]; intros r used moved H; simpl; auto.
  destruct (_ =? _); auto. destruct (_ && _); auto. apply IH. apply set_ukeys; auto. Qed.

(* ---------- one destination ---------- *)
Lemma fill_unit_spec f r busy r2 busy2 :
  ~ In (fname f) (f_preds f) -> NoDup (f_preds f) -> uniq r ->
  fill_unit prog (r, busy) f = (r2, busy2) ->
  exists mv used,
    busy2 = busy || used /\
    (forall c, In c mv -> In (fst c) (f_preds f) /\ In (ix_of r c) (ixs r (fst c))
                          /\ ~ In (ix_of r c) (ixs r2 (fst c))) /\
    get r2 (fname f) = get r (fname f) ++ map (fun c => (ix_of r c, LU)) mv /\
    (forall h, h <> fname f -> sub (get r2 h) (get r h)) /\
    (forall h, h <> fname f -> ~ In h (f_preds f) -> get r2 h = get r h) /\
    NoDup (map (ix_of r) mv) /\
    (used = true -> exists c, In c mv /\ mem_str (cat_of prog (ix_of r c)) (u_mem (f_model f)) = true).
Proof. intros Hself Hnp [Hu1 Hu2] H. unfold fill_unit in H.
  set (cs := isort (fun a b => ix_of r a <=? ix_of r b) (cands prog f r)) in *.
  destruct (walk prog f busy cs r false []) as [[r' used] moved] eqn:Ew. inversion H; subst; clear H.
  assert (Hcs : forall c, In c cs -> In (fst c) (f_preds f) /\ exists e, nth_error (get r (fst c)) (snd c) = Some e).
  { intros c Hc. apply isort_incl in Hc. apply cands_spec in Hc. auto. }
  assert (Hne : forall c, In c cs -> fst c <> fname f).
  { intros c Hc Heq. apply Hcs in Hc. destruct Hc as [Hc _]. rewrite Heq in Hc. tauto. }
  assert (Hnd : NoDup cs).
  { eapply Permutation_NoDup; [apply isort_perm|]. apply cands_NoDup; auto. }
  apply walk_spec in Ew; auto. destruct Ew as (mv & Hm & Hi & Hn & Hg & Hv & Hu). simpl in Hm. subst moved.
  assert (Hmv : forall c, In c mv -> fst c <> fname f) by (intros c Hc; apply Hne; auto).
  exists mv, used. split; [reflexivity|]. split; [|split; [|split; [|split; [|split]]]].
  - intros c Hc. destruct (Hcs c (Hi c Hc)) as [Hp [e He]]. split; auto.
    assert (Hix : ix_of r c = fst e) by (unfold ix_of; rewrite He; auto).
    split.
    + rewrite Hix. unfold ixs. apply in_map. eapply nth_error_In; eauto.
    + rewrite Hix. apply clr_removed; auto.
      * unfold ixs. rewrite Hg; auto. apply Hu1.
      * rewrite Hg; auto.
  - rewrite clr_other; auto.
  - intros h Hh. eapply sub_trans; [apply clr_sub|]. rewrite Hg; auto. apply sub_refl.
  - intros h Hh Hnp'. rewrite clr_other; auto. intros c Hc Heq.
    apply Hnp'. rewrite <- Heq. apply (Hcs c (Hi c Hc)).
  - apply NoDup_map_inj_in; auto. intros [h1 j1] [h2 j2] H1 H2 Heq.
    destruct (Hcs _ (Hi _ H1)) as [_ [e1 He1]]. destruct (Hcs _ (Hi _ H2)) as [_ [e2 He2]].
    simpl in *. unfold ix_of in Heq. simpl in Heq. rewrite He1, He2 in Heq.
    assert (h1 = h2).
    { apply (Hu2 h1 h2 (fst e1)); unfold ixs; [|rewrite Heq]; apply in_map; eapply nth_error_In; eauto. }
    subst h2. f_equal. specialize (Hu1 h1). unfold ixs in Hu1.
    rewrite NoDup_nth_error in Hu1. apply Hu1.
    + rewrite map_length. apply nth_error_Some. unfold entry in *. rewrite He1. discriminate.
    + rewrite (map_nth_error fst _ _ He1), (map_nth_error fst _ _ He2). congruence.
  - intros Hused. destruct (Hu Hused) as [Hf|Hex]; [discriminate|auto].
Qed.

Lemma fill_unit_ukeys st f : ukeys (fst st) -> ukeys (fst (fill_unit prog st f)).
Proof. destruct st as [r busy]. simpl. intros H. unfold fill_unit.
  pose proof (walk_ukeys f busy (isort (fun a b => ix_of r a <=? ix_of r b) (cands prog f r)) r false [] H) as Hw.
  destruct (walk prog f busy _ r false []) as [[r' used] moved]. simpl in *. apply clr_ukeys; auto. Qed.

(* ---------- the fold over destinations ---------- *)
Hypothesis Hnd : NoDup (unit_names P).
Variable old : record.
Variable E : nat.
Hypothesis Hold : uniq old.

Record FInv (done : list string) (r : record) (busy : bool) : Prop := {
  fi_uniq : uniq r;
  fi_keys : ukeys r;
  fi_bound : forall h k, In k (ixs r h) -> k < E;
  fi_sub : forall h, ~ In h done -> forall k, In k (ixs r h) -> In k (ixs old h);
  fi_mem : busy = true -> exists k v, In v done /\ In k (ixs r v) /\ ~ In k (ixs old v)
                                      /\ mem_needed P v (cat_of prog k) = true }.

Lemma mem_needed_funit f c : In f (funits P) -> mem_needed P (fname f) c = mem_str c (u_mem (f_model f)).
Proof. intros Hf. unfold mem_needed, fname. rewrite find_unit_in; auto. apply funit_in_all; auto. Qed.

Lemma fill_unit_FInv done r busy f r2 busy2 :
  In f (funits P) -> ~ In (fname f) (f_preds f) -> NoDup (f_preds f) ->
  ~ In (fname f) done -> (forall p, In p (f_preds f) -> ~ In p done) ->
  FInv done r busy -> fill_unit prog (r, busy) f = (r2, busy2) -> FInv (fname f :: done) r2 busy2.
Proof. intros Hf Hself Hnp Hnew Hpd [Hu Hk Hb Hs Hm] H.
  pose proof (fill_unit_ukeys (r, busy) f Hk) as Hk2. rewrite H in Hk2. simpl in Hk2.
  destruct (fill_unit_spec f r busy r2 busy2 Hself Hnp Hu H)
    as (mv & used & Hbusy & Hmv & Hv & Hsub & Hsame & Hnd2 & Hused).
  destruct Hu as [Hu1 Hu2].
  assert (Hin2 : forall h k, In k (ixs r2 h) ->
             (h <> fname f /\ In k (ixs r h)) \/
             (h = fname f /\ (In k (ixs r h) \/ exists c, In c mv /\ k = ix_of r c))).
  { intros h k Hin. destruct (string_dec h (fname f)) as [->|Hne].
    - right. split; auto. unfold ixs in Hin. rewrite Hv, map_app, in_app_iff in Hin.
      destruct Hin as [Hin|Hin]; [left; auto|]. right. rewrite map_map in Hin. simpl in Hin.
      apply in_map_iff in Hin. destruct Hin as [c [Hc1 Hc2]]. eauto.
    - left. split; auto. eapply sub_In; [apply sub_ixs, Hsub; auto|auto]. }
  constructor; auto.
  - (* uniq *) split.
    + intros u. destruct (string_dec u (fname f)) as [->|Hne].
      * unfold ixs. rewrite Hv, map_app, map_map. simpl. apply NoDup_app_intro; auto.
        -- apply Hu1.
        -- intros k Hk1 Hk3. apply in_map_iff in Hk3. destruct Hk3 as [c [<- Hc]].
           destruct (Hmv c Hc) as [Hp [Hc1 _]].
           assert (fname f = fst c) by (apply (Hu2 _ _ (ix_of r c)); auto). congruence.
      * eapply sub_NoDup; [apply sub_ixs, Hsub; auto|auto].
    + assert (Hcross : forall w k, w <> fname f -> In k (ixs r2 w) -> In k (ixs r2 (fname f)) -> False).
      { intros w k Hw Hkw Hkv. destruct (Hin2 _ _ Hkw) as [[_ Hkw']|[Heq _]]; [|tauto].
        destruct (Hin2 _ _ Hkv) as [[Hx _]|[_ [Hkv'|[c [Hc ->]]]]]; [tauto| |].
        - apply Hw. apply (Hu2 _ _ k); auto.
        - destruct (Hmv c Hc) as [Hp [Hc1 Hc2]].
          assert (w = fst c) by (apply (Hu2 _ _ (ix_of r c)); auto). subst w. tauto. }
      intros u v k Hku Hkv.
      destruct (string_dec u (fname f)) as [Hu|Hu]; destruct (string_dec v (fname f)) as [Hv'|Hv']; try congruence.
      * subst u. exfalso. eapply Hcross; eauto.
      * subst v. exfalso. eapply Hcross; eauto.
      * destruct (Hin2 _ _ Hku) as [[_ Hku']|[? _]]; [|tauto].
        destruct (Hin2 _ _ Hkv) as [[_ Hkv']|[? _]]; [|tauto]. eauto.
  - (* bound *) intros h k Hin. destruct (Hin2 _ _ Hin) as [[_ Hk']|[_ [Hk'|[c [Hc ->]]]]]; eauto.
    destruct (Hmv c Hc) as [_ [Hc1 _]]. eauto.
  - (* sub *) intros h Hh k Hin. destruct (Hin2 _ _ Hin) as [[Hne Hk']|[-> _]].
    + apply Hs; auto. intros Hd. apply Hh. right; auto.
    + exfalso. apply Hh. left; auto.
  - (* mem *) intros Hb2. rewrite Hbusy in Hb2. apply orb_true_iff in Hb2. destruct Hb2 as [Hb2|Hb2].
    + destruct (Hm Hb2) as (k & v & Hv1 & Hv2 & Hv3 & Hv4). exists k, v. split; [right; auto|].
      split; auto. unfold ixs. rewrite Hsame; [exact Hv2| |].
      * intros Heq. subst v. tauto.
      * intros Hp. apply (Hpd _ Hp). auto.
    + destruct (Hused Hb2) as [c [Hc Hneed]]. destruct (Hmv c Hc) as [Hp [Hc1 _]].
      exists (ix_of r c), (fname f). split; [left; auto|]. split; [|split].
      * unfold ixs. rewrite Hv, map_app, map_map. simpl. apply in_or_app. right.
        apply in_map_iff. exists c. auto.
      * intros Hin. assert (Ho : In (ix_of r c) (ixs old (fst c))) by (apply Hs; auto).
        destruct Hold as [_ Ho2]. assert (fname f = fst c) by (apply (Ho2 _ _ (ix_of r c)); auto). congruence.
      * rewrite mem_needed_funit; auto.
Qed.

Lemma fold_FInv : forall todo done st,
  incl todo (funits P) -> ord_ok todo -> NoDup (map fname todo) ->
  (forall f, In f todo -> ~ In (fname f) done) ->
  (forall f p, In f todo -> In p (f_preds f) -> ~ In p done) ->
  (forall f, In f todo -> NoDup (f_preds f)) ->
  FInv done (fst st) (snd st) ->
  exists done', FInv done' (fst (fold_left (fill_unit prog) todo st)) (snd (fold_left (fill_unit prog) todo st)).
Proof. induction todo as [|f todo IH]; intros done [r busy] Hi Ho Hn Hd Hp Hnp Hinv; cbn [fold_left]; [eauto|].
  destruct (fill_unit prog (r, busy) f) as [r2 busy2] eqn:Ef. simpl in Ho. destruct Ho as [Ho1 Ho2].
  inversion Hn as [|? ? Hn1 Hn2]; subst.
  apply (IH (fname f :: done)); auto.
  - intros x Hx. apply Hi. right; auto.
  - intros g Hg [Heq|Hin]; [|eapply Hd; eauto; right; auto].
    apply Hn1. rewrite Heq. apply in_map; auto.
  - intros g p Hg Hp' [Heq|Hin]; [|eapply Hp; eauto; right; auto].
    subst p. apply (Ho1 g); [right; auto|auto].
  - intros g Hg. apply Hnp. right; auto.
  - simpl. apply (fill_unit_FInv done r busy f r2 busy2);
      [apply Hi; left; auto | apply (Ho1 f); left; auto | apply Hnp; left; auto | apply Hd; left; auto
      | intros p Hp'; apply (Hp f p); [left; auto|auto] | exact Hinv | exact Ef].
Qed.
Lemma mov_flights_FInv :
  ord_ok (funits P) -> (forall f, In f (funits P) -> NoDup (f_preds f)) ->
  ukeys old -> (forall h k, In k (ixs old h) -> k < E) ->
  exists done, FInv done (fst (mov_flights P prog old)) (snd (mov_flights P prog old)).
Proof. intros Ho Hnp Hk Hb. unfold mov_flights.
  apply (fold_FInv (funits P) [] (flush P old, false)); auto.
  - apply incl_refl.
  - apply wf_fnames; auto.
  - simpl. constructor.
    + eapply uniq_sub; [exact Hold|apply flush_sub].
    + apply flush_ukeys; auto.
    + intros h k Hin. apply (Hb h). eapply sub_In; [apply sub_ixs, flush_sub|exact Hin].
    + intros h _ k Hin. eapply sub_In; [apply sub_ixs, flush_sub|exact Hin].
    + discriminate.
Qed.
End Move.
