(* C08_proof.v -- simulation always ends within the bound; a stall is a genuine fixed point.
   Pieces: C08_nocrash (no Crash outcome), C08_recon (checker clauses other than the bound, queue
   congruence of a cycle), C08_phi (the potential argument giving the bound). *)
From Coq Require Import Lia.
From PS Require Import Base Bag RegAccess Sim Diag Lists Run.
From PS Require Export C08_nocrash.
From PS Require Import C08_recon C08_phi.
Close Scope string_scope.

Section Term.
Variables (P : proc) (prog : list instr).
Hypothesis Hwf : wf_procb P = true.
Hypothesis Hwp : wf_progb prog = true.

Notation B := (length prog * (3 * nunits P + 1)).

(* with more fuel than the remaining potential the loop ends in Done or Stalled *)
Lemma loop_terminates : forall fuel s, reach P prog s -> B - Phi P prog s < fuel ->
  exists tg d, ((tg = TDone /\ loop fuel P prog s = Done d) \/ (tg = TStalled /\ loop fuel P prog s = Stalled d))
               /\ length d <= B.
Proof. induction fuel as [|f IH]; intros s Hr Hf; [lia|]. cbn [loop]. fold (loop_cond prog s).
  destruct (loop_cond prog s) eqn:Hc.
  - destruct (run_cycle_total P prog s Hwf Hwp Hr) as [[s' E]|E]; rewrite E.
    + assert (Hr' : reach P prog s') by (eapply reach_step; eauto).
      apply IH; auto. pose proof (Phi_step P prog Hwf s s' Hr E). pose proof (Phi_bound P prog Hwf s' Hr').
      unfold RR in *. lia.
    + exists TStalled, (tbl s). split; auto. apply tbl_bound; auto.
  - exists TDone, (tbl s). split; auto. apply tbl_bound; auto. Qed.

End Term.

Lemma C08_terminates_within_bound_lemma :
  forall (P : proc) (prog : list instr),
    wf_procb P = true -> wf_progb prog = true ->
    exists tg d, sim_result (S (cycle_bound P prog)) P prog tg d /\ length d <= cycle_bound P prog.
Proof. intros P prog Hwf Hwp.
  destruct (loop_terminates P prog Hwf Hwp (S (cycle_bound P prog)) (init_state prog) (reach_init P prog))
    as (tg & d & H & Hl).
  - unfold cycle_bound. lia.
  - exists tg, d. split; [exact H|]. unfold cycle_bound. lia. Qed.

Lemma C08_checker_accepts_lemma :
  forall (P : proc) (prog : list instr) (fuel : nat) (tg : dtag) (d : diagram),
    wf_procb P = true -> wf_progb prog = true -> sim_result fuel P prog tg d -> C08_checkb P prog tg d = true.
Proof. intros P prog fuel tg d Hwf Hwp H. rewrite C08_checkb_split.
  rewrite (C08_checker_accepts_partial_lemma P prog fuel tg d Hwf Hwp H), andb_true_r.
  apply Nat.leb_le. destruct (C03_inv.sim_result_reach _ _ _ _ _ H) as (s & Hr & <-).
  pose proof (tbl_bound P prog Hwf s Hr). unfold cycle_bound. lia. Qed.
