(* C07_step.v -- the effect of one `fill_unit` in terms of the moved instruction indices, and the
   invariant carried through `mov_flights` (processing order: every destination comes before all of
   its predecessors). *)
From Coq Require Import Lia Permutation Sorted.
From PS Require Import Base Bag RegAccess Sim Diag Lists C07_lists C07_walk.

Local Notation nm f := (u_name (f_model f)).

Lemma fill_unit_char prog f r busy r' busy' :
  U r -> ~ In (nm f) (f_preds f) -> NoDup (f_preds f) ->
  fill_unit prog (r, busy) f = (r', busy') ->
  exists M used,
    busy' = busy || used /\
    get r' (nm f) = get r (nm f) ++ map (fun j => (j, LU)) M /\
    (forall h, h <> nm f -> get r' h = filter (fun e => negb (memn (fst e) M)) (get r h)) /\
    NoDup M /\
    (forall j, In j M -> exists p l, In p (f_preds f) /\ In (j, l) (get r p) /\ valid prog f (j, l) = true) /\
    (used = true -> exists j, In j M /\ need prog f j = true) /\
    (forall p e, In p (f_preds f) -> In e (get r p) -> valid prog f e = true ->
       In (fst e) M \/
       ((length (get r' (nm f)) = u_width (f_model f) \/ (need prog f (fst e) = true /\ busy' = true)) /\
        forall j, In j M -> j <= fst e \/ (need prog f (fst e) = true /\ need prog f j = false))).
Proof. intros HU Hme Hnd H.
  destruct (fill_unit_raw prog f r busy r' busy' HU Hme Hnd H)
    as (m & used & len' & Ea & Hb & Hnm & Hcm & G1 & G2 & G3).
  assert (Hval : forall c, In c m -> In (fst c) (f_preds f) /\
                   exists e, nth_error (get r (fst c)) (snd c) = Some e /\ valid prog f e = true /\ ix_of r c = fst e).
  { intros c Hc. apply Hcm, cands_spec in Hc. destruct Hc as [Hp [e [He Hv]]]. split; auto.
    exists e. repeat split; auto. unfold ix_of. rewrite He. auto. }
  exists (map (ix_of r) m), used. repeat split; auto.
  - apply NoDup_map_inj_in; auto. intros c1 c2 H1 H2 E.
    destruct (Hval c1 H1) as [_ [e1 [He1 [_ X1]]]]. destruct (Hval c2 H2) as [_ [e2 [He2 [_ X2]]]].
    eapply U_pos_inj; eauto. congruence.
  - intros j Hj. apply in_map_iff in Hj. destruct Hj as [c [E Hc]].
    destruct (Hval c Hc) as [Hp [[j' l] [He [Hv X]]]]. simpl in X. exists (fst c), l.
    repeat split; auto; rewrite <- E, X; auto. eapply nth_error_In; eauto.
  - intros Hu. rewrite (aw_used _ _ _ _ _ _ _ _ _ _ Ea) in Hu. simpl in Hu.
    apply existsb_exists in Hu. destruct Hu as [c [Hc Hn]]. exists (ix_of r c). split; auto.
    apply in_map; auto.
  - intros p e Hp He Hv. apply In_nth_error in He. destruct He as [n He].
    set (c := (p, n)).
    assert (Hc : In c (isort (fun a b => ix_of r a <=? ix_of r b) (cands prog f r))).
    { eapply Permutation_in; [apply isort_perm|]. apply cands_spec. simpl. eauto. }
    assert (Hi : ix_of r c = fst e) by (unfold ix_of; simpl; rewrite He; auto).
    apply in_split in Hc. destruct Hc as [l1 [l2 Hs]].
    assert (Hsort : StronglySorted (fun a b => (ix_of r a <=? ix_of r b) = true)
                      (isort (fun a b => ix_of r a <=? ix_of r b) (cands prog f r))).
    { apply isort_sorted.
      - intros a b. destruct (Nat.leb_spec (ix_of r a) (ix_of r b)); auto. right. apply Nat.leb_le. lia.
      - intros a b d H1 H2. apply Nat.leb_le in H1, H2. apply Nat.leb_le. lia. }
    rewrite Hs in Ea, Hsort.
    destruct (aw_spec _ _ _ _ _ _ _ _ _ _ _ _ Ea) as [Hin|[[Hl|[Hn Hf]] Hall]].
    + left. rewrite <- Hi. apply in_map; auto.
    + right. split; [left; congruence|].
      intros j Hj. apply in_map_iff in Hj. destruct Hj as [c' [<- Hc']].
      destruct (Hall c' Hc') as [Hin|[X Y]]; [left|right; rewrite <- Hi; auto].
      pose proof (sorted_split _ _ _ _ Hsort c' Hin) as Hle. apply Nat.leb_le in Hle. lia.
    + right. split; [right; rewrite <- Hi; split; auto; rewrite Hb; auto|].
      intros j Hj. apply in_map_iff in Hj. destruct Hj as [c' [<- Hc']].
      destruct (Hall c' Hc') as [Hin|[X Y]]; [left|right; rewrite <- Hi; auto].
      pose proof (sorted_split _ _ _ _ Hsort c' Hin) as Hle. apply Nat.leb_le in Hle. lia.
Qed.

(* where an index can be after the step *)
Lemma loc_filter r i k M :
  In i (map fst (filter (fun e : entry => negb (memn (fst e) M)) (get r k))) <-> loc r i k /\ ~ In i M.
Proof. unfold loc, ixs. rewrite !in_map_iff. split.
  - intros [e [E He]]. apply filter_In in He. destruct He as [He Hm]. split; [exists e; auto|].
    intros Hin. apply memn_In in Hin. rewrite <- E in Hin. rewrite Hin in Hm. discriminate.
  - intros [[e [E He]] Hn]. exists e. split; auto. apply filter_In. split; auto.
    destruct (memn (fst e) M) eqn:Em; auto. apply memn_In in Em. rewrite E in Em. tauto. Qed.

Lemma ixs_app_new r k M : map fst (get r k ++ map (fun j : nat => (j, LU)) M) = ixs r k ++ M.
Proof. unfold ixs. rewrite map_app, map_map. simpl. rewrite map_id. reflexivity. Qed.

Section Step.
Variable P : proc.
Variable prog : list instr.
Hypothesis Hnd : NoDup (unit_names P).

Lemma funit_unit f : In f (funits P) -> In (f_model f) (all_units P).
Proof. unfold funits, all_units. rewrite !in_app_iff. intros [H|H]; [right; right; left|right; right; right];
  apply in_map; auto. Qed.
Lemma find_unit_in u : In u (all_units P) -> find_unit P (u_name u) = Some u.
Proof. intros H. unfold find_unit. apply (find_nodup u_name (all_units P) u Hnd H). Qed.
Lemma find_unit_f f : In f (funits P) -> find_unit P (nm f) = Some (f_model f).
Proof. intros H. apply find_unit_in, funit_unit, H. Qed.
Lemma mem_needed_f f i : In f (funits P) -> mem_needed P (nm f) (cat_of prog i) = need prog f i.
Proof. intros H. unfold mem_needed. rewrite find_unit_f; auto. Qed.

Variable old : record.
Hypothesis HUold : U old.

Definition Inv (done : list string) (st : record * bool) : Prop :=
  U (fst st) /\
  (forall k, ~ In k done -> incl (get (fst st) k) (get old k)) /\
  (forall k j, loc (fst st) j k -> exists k', loc old j k') /\
  (snd st = true -> exists k j, In k done /\ loc (fst st) j k /\ ~ loc old j k /\
                                mem_needed P k (cat_of prog j) = true).

Definition okf (done : list string) (f : funit) : Prop :=
  In f (funits P) /\ ~ In (nm f) done /\ NoDup (f_preds f) /\
  forall p, In p (f_preds f) -> p <> nm f /\ ~ In p done.

Lemma okf_me done f : okf done f -> ~ In (nm f) (f_preds f).
Proof. intros (_ & _ & _ & H) Hin. destruct (H _ Hin). tauto. Qed.

(* common consequences of the characterisation under the invariant *)
Lemma step_facts done r busy f r' busy' :
  Inv done (r, busy) -> okf done f -> fill_unit prog (r, busy) f = (r', busy') ->
  exists M used,
    busy' = busy || used /\
    get r' (nm f) = get r (nm f) ++ map (fun j => (j, LU)) M /\
    (forall h, h <> nm f -> get r' h = filter (fun e => negb (memn (fst e) M)) (get r h)) /\
    NoDup M /\
    (forall j, In j M -> exists p, In p (f_preds f) /\ p <> nm f /\ ~ In p done /\ loc r j p /\ loc old j p) /\
    (used = true -> exists j, In j M /\ need prog f j = true).
Proof. intros (HU & HS & HF & HG) Hok E. cbn [fst snd] in *.
  destruct (fill_unit_char prog f r busy r' busy' HU (okf_me _ _ Hok) (proj1 (proj2 (proj2 Hok))) E)
    as (M & used & Hb & G1 & G2 & G3 & G4 & G5 & _).
  exists M, used. repeat split; auto.
  intros j Hj. destruct (G4 j Hj) as (p & l & Hp & Hin & _). exists p.
  destruct Hok as (_ & _ & _ & Hpre). destruct (Hpre p Hp) as [X Y]. repeat split; auto.
  - apply loc_In; eauto.
  - apply loc_In. exists l. apply (HS p Y). auto. Qed.

Lemma loc_after (r : record) (f : funit) (r' : record) M :
  get r' (nm f) = get r (nm f) ++ map (fun j => (j, LU)) M ->
  (forall h, h <> nm f -> get r' h = filter (fun e => negb (memn (fst e) M)) (get r h)) ->
  forall i k, loc r' i k <-> (k = nm f /\ (loc r i k \/ In i M)) \/ (k <> nm f /\ loc r i k /\ ~ In i M).
Proof. intros G1 G2 i k. destruct (string_dec k (nm f)) as [->|Hne].
  - unfold loc at 1. unfold ixs. rewrite G1, ixs_app_new, in_app_iff. unfold loc. tauto.
  - unfold loc at 1. unfold ixs. rewrite G2, loc_filter; auto. tauto. Qed.

Lemma step_Inv done st f : Inv done st -> okf done f -> Inv (nm f :: done) (fill_unit prog st f).
Proof. destruct st as [r busy]. intros HI Hok.
  destruct (fill_unit prog (r, busy) f) as [r' busy'] eqn:E.
  destruct (step_facts _ _ _ _ _ _ HI Hok E) as (M & used & Hb & G1 & G2 & G3 & G4 & G5).
  pose proof (loc_after r f r' M G1 G2) as LA.
  destruct HI as (HU & HS & HF & HG). cbn [fst snd] in *.
  destruct HU as [HU1 HU2].
  assert (HMme : forall i, In i M -> ~ loc r i (nm f)).
  { intros i Hi Hl. destruct (G4 i Hi) as (p & _ & Hp & _ & Hlp & _). apply Hp. eapply HU2; eauto. }
  unfold Inv. cbn [fst snd]. split; [split|split; [|split]].
  - intros k. destruct (string_dec k (nm f)) as [->|Hne].
    + unfold ixs. rewrite G1, ixs_app_new. apply NoDup_app_intro; auto.
      intros x Hx Hm. apply (HMme x Hm Hx).
    + unfold ixs. rewrite G2; auto. apply NoDup_map_filter. apply HU1.
  - intros k1 k2 i H1 H2. apply LA in H1, H2.
    destruct H1 as [[-> H1]|[N1 [H1 M1]]], H2 as [[-> H2]|[N2 [H2 M2]]]; auto.
    + destruct H1 as [H1|H1]; [|tauto]. symmetry. eapply HU2; eauto.
    + destruct H2 as [H2|H2]; [|tauto]. eapply HU2; eauto.
    + eapply HU2; eauto.
  - intros k Hk. assert (Hne : k <> nm f) by (intros ->; apply Hk; left; auto).
    rewrite G2; auto. intros e He. apply filter_In in He. apply HS; [|tauto].
    intros Hd. apply Hk. right; auto.
  - intros k j Hl. apply LA in Hl. destruct Hl as [[-> [Hl|Hl]]|[_ [Hl _]]]; eauto.
    destruct (G4 j Hl) as (p & _ & _ & _ & _ & Hlo). eauto.
  - intros Hb'. subst busy'. destruct busy.
    + destruct (HG eq_refl) as (k & j & Hk & Hl & Hno & Hm). exists k, j. repeat split; auto; [right; auto|].
      destruct Hok as (_ & Hmd & _ & _).
      apply LA. right. split; [intros ->; tauto|]. split; auto.
      intros Hj. destruct (G4 j Hj) as (p & _ & _ & Hpd & Hlp & _). apply Hpd.
      rewrite (HU2 p k j); auto.
    + simpl in Hb'. destruct (G5 Hb') as (j & Hj & Hn). exists (nm f), j.
      repeat split; [left; auto| | |].
      * apply LA. left. auto.
      * intros Hlo. destruct (G4 j Hj) as (p & _ & Hp & _ & _ & Hlp). apply Hp.
        destruct HUold as [_ X]. eapply X; eauto.
      * rewrite mem_needed_f; auto. apply Hok. Qed.

(* an index that belongs to unit k in the old record can be in k after the step only if it was
   there before the step *)
Lemma step_mono done st f : Inv done st -> okf done f ->
  forall k i, loc old i k -> loc (fst (fill_unit prog st f)) i k -> loc (fst st) i k.
Proof. destruct st as [r busy]. intros HI Hok k i Ho Hl.
  destruct (fill_unit prog (r, busy) f) as [r' busy'] eqn:E.
  destruct (step_facts _ _ _ _ _ _ HI Hok E) as (M & used & Hb & G1 & G2 & G3 & G4 & G5).
  cbn [fst] in *. apply (loc_after r f r' M G1 G2) in Hl.
  destruct Hl as [[-> [Hl|Hl]]|[_ [Hl _]]]; auto.
  destruct (G4 i Hl) as (p & _ & Hp & _ & _ & Hlp). exfalso. apply Hp.
  destruct HUold as [_ X]. eapply X; eauto. Qed.

(* units processed earlier are not touched any more *)
Lemma step_keep done st f : Inv done st -> okf done f ->
  forall k, In k done -> get (fst (fill_unit prog st f)) k = get (fst st) k.
Proof. destruct st as [r busy]. intros HI Hok k Hk.
  destruct (fill_unit prog (r, busy) f) as [r' busy'] eqn:E.
  destruct (step_facts _ _ _ _ _ _ HI Hok E) as (M & used & Hb & G1 & G2 & G3 & G4 & G5).
  cbn [fst] in *. assert (Hne : k <> nm f) by (intros ->; destruct Hok as (_ & X & _); tauto).
  rewrite G2; auto. apply filter_id. intros e He. apply negb_true_iff.
  destruct (memn (fst e) M) eqn:Em; auto. apply memn_In in Em.
  destruct (G4 _ Em) as (p & _ & _ & Hpd & Hlp & _). exfalso. apply Hpd.
  destruct HI as ([_ X] & _). cbn [fst] in X. rewrite (X p k (fst e)); auto.
  unfold loc, ixs. apply in_map; auto. Qed.

Lemma step_flag st f : snd st = true -> snd (fill_unit prog st f) = true.
Proof. destruct st as [r busy]. simpl. intros ->. unfold fill_unit.
  destruct (walk prog f true _ r false []) as [[r' used] moved]. reflexivity. Qed.

(* ---------- several steps ---------- *)
Fixpoint okl (done : list string) (l : list funit) : Prop :=
  match l with [] => True | f :: t => okf done f /\ okl (nm f :: done) t end.
Definition dn (l : list funit) (done : list string) : list string := rev (map (fun f => nm f) l) ++ done.

Lemma dn_cons f l done : dn (f :: l) done = dn l (nm f :: done).
Proof. unfold dn. simpl. rewrite <- app_assoc. reflexivity. Qed.

Lemma okl_app : forall l1 l2 done, okl done (l1 ++ l2) <-> okl done l1 /\ okl (dn l1 done) l2.
Proof. induction l1 as [|f l1 IH]; intros l2 done; simpl.
  - unfold dn. simpl. tauto.
  - rewrite IH, dn_cons. tauto. Qed.

Lemma steps_Inv : forall l done st, Inv done st -> okl done l ->
  Inv (dn l done) (fold_left (fill_unit prog) l st).
Proof. induction l as [|f l IH]; intros done st HI Hok; simpl.
  - exact HI.
  - rewrite dn_cons. destruct Hok as [H1 H2]. apply IH; auto. apply step_Inv; auto. Qed.

Lemma steps_mono : forall l done st, Inv done st -> okl done l ->
  forall k i, loc old i k -> loc (fst (fold_left (fill_unit prog) l st)) i k -> loc (fst st) i k.
Proof. induction l as [|f l IH]; intros done st HI Hok k i Ho Hl; simpl in *; auto.
  destruct Hok as [H1 H2]. eapply step_mono; eauto. eapply IH; eauto. apply step_Inv; auto. Qed.

Lemma steps_keep : forall l done st, Inv done st -> okl done l ->
  forall k, In k done -> get (fst (fold_left (fill_unit prog) l st)) k = get (fst st) k.
Proof. induction l as [|f l IH]; intros done st HI Hok k Hk; simpl in *; auto.
  destruct Hok as [H1 H2]. rewrite (IH (nm f :: done)); auto.
  - eapply step_keep; eauto.
  - apply step_Inv; auto.
  - right; auto. Qed.

Lemma steps_flag : forall l st, snd st = true -> snd (fold_left (fill_unit prog) l st) = true.
Proof. induction l as [|f l IH]; intros st H; simpl; auto. apply IH, step_flag, H. Qed.

(* no step invents an index *)
Lemma steps_sub l done st : Inv done st -> okl done l ->
  forall k j, loc (fst (fold_left (fill_unit prog) l st)) j k -> exists k', loc old j k'.
Proof. intros HI Hok. destruct (steps_Inv l done st HI Hok) as (_ & _ & H & _). exact H. Qed.
End Step.
