(* Readings2_c07.v -- the Prop-level reading of C07 (eager advance, oldest first), directly from the
   one-cycle facts `C07_pair` about two consecutive records of a reachable table. *)
From Coq Require Import Lia.
From PS Require Import Base Bag RegAccess Sim Diag Lists Run Readings_defs
                       C07_lists C07_walk C07_step C07_parts C07_cycle C07_proof.

Lemma C07_reading_lemma :
  forall (P : proc) (prog : list instr) (fuel : nat) (tg : dtag) (d : diagram),
    wf_procb P = true -> sim_result fuel P prog tg d ->
    forall t u i l, S t < length d -> In (i, l) (occ d t u) -> l <> LD ->
      (In u (out_names P) -> ~ exists l', In (i, l') (occ d (S t) u)) /\
      (~ In u (out_names P) -> forall l', In (i, l') (occ d (S t) u) ->
         l' = LS /\
         forall s, In s (succs_of P u) -> supports P s (cat_of prog i) = true ->
           (width_of P s <= length (occ d (S t) s) \/
            (mem_needed P s (cat_of prog i) = true /\
             exists k v, k <> i /\ enters_mem P prog d (S t) k v)) /\
           (forall j lj, In (j, lj) (occ d (S t) s) -> i < j -> ~ (exists l0, In (j, l0) (occ d t s)) ->
              mem_needed P s (cat_of prog i) = true /\ mem_needed P s (cat_of prog j) = false)).
Proof.
  intros P prog fuel tg d Hwf Hsim t u i l Ht Hin Hl.
  destruct (sim_result_reach _ _ _ _ _ Hsim) as (s & Hr & <-).
  destruct (C07_pair P prog s t Hwf Hr Ht) as (K & Hout & Hlab & Hsucc).
  unfold occ in *. split.
  - intros Ho [l' Hl']. apply (Hout u i l Hin Hl Ho). apply loc_In. eauto.
  - intros _ l' Hl'. split; [exact (Hlab u i l l' Hin Hl Hl')|].
    intros s' Hs' Hsup.
    assert (Hl3 : loc (rec_at (tbl s) (S t)) i u) by (apply loc_In; eauto).
    destruct (Hsucc u i l s' Hin Hl Hl3 Hs' Hsup) as [HA HB]. split.
    + destruct HA as [HA|[HA1 (j & k & Hji & Hj3 & Hjo & Hjm)]]; [left; exact HA|right].
      split; [exact HA1|]. exists j, k. split; [exact Hji|].
      unfold enters_mem. cbn [prev_occ]. unfold occ. split; [|split].
      * apply loc_In. exact Hj3.
      * intros X. apply Hjo. apply loc_In. exact X.
      * exact Hjm.
    + intros j lj Hj Hij Hno.
      assert (Hj3 : loc (rec_at (tbl s) (S t)) j s') by (apply loc_In; eauto).
      destruct (HB j Hj3 Hij) as [X|X]; [|exact X].
      exfalso. apply Hno. apply loc_In. exact X.
Qed.
