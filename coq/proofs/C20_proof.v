(* C20_proof.v -- the iteration order of the Python sets the loader iterates does not reach the result.
   Self-contained (the facts about String.compare / insertion sort are re-proved here so that this file
   depends only on model/, spec/ and proofs/Lists.v). *)
From Coq Require Import String Ascii List Arith Bool NArith Lia Permutation Sorted.
From PS Require Import Base Str Sim Graph Loader OrderSpec Lists.

(* ====================================================================== *)
(* Part 1: removing nodes commutes, so the order of the new terminals is irrelevant *)
(* ====================================================================== *)

Lemma filter_comm {A} (p q : A -> bool) l : filter p (filter q l) = filter q (filter p l).
Proof.
  induction l as [|x t IH]; simpl; auto.
  destruct (q x) eqn:Q, (p x) eqn:P; simpl; rewrite ?Q, ?P, IH; auto.
Qed.

Lemma rm_str_comm a b l : rm_str a (rm_str b l) = rm_str b (rm_str a l).
Proof. unfold rm_str. apply filter_comm. Qed.

Definition adj_rm (n : string) (l : list (string * list string)) : list (string * list string) :=
  map (fun kv => (fst kv, rm_str n (snd kv))) (filter (fun kv => negb (String.eqb n (fst kv))) l).

Lemma adj_rm_comm a b l : adj_rm a (adj_rm b l) = adj_rm b (adj_rm a l).
Proof.
  unfold adj_rm. induction l as [|kv t IH]; simpl; auto.
  destruct (String.eqb b (fst kv)) eqn:B, (String.eqb a (fst kv)) eqn:A; simpl;
    rewrite ?A, ?B; simpl; rewrite ?A, ?B; simpl; auto.
  rewrite IH, rm_str_comm. reflexivity.
Qed.

Lemma remove_node_adj g n :
  remove_node g n = {| g_nodes := rm_str n (g_nodes g); g_succ := adj_rm n (g_succ g); g_pred := adj_rm n (g_pred g) |}.
Proof. reflexivity. Qed.

Lemma remove_node_comm g a b : remove_node (remove_node g a) b = remove_node (remove_node g b) a.
Proof.
  rewrite !remove_node_adj. cbn [g_nodes g_succ g_pred].
  rewrite (rm_str_comm b a), (adj_rm_comm b a (g_succ g)), (adj_rm_comm b a (g_pred g)). reflexivity.
Qed.

Lemma fold_remove_perm l l' : Permutation l l' -> forall g, fold_left remove_node l g = fold_left remove_node l' g.
Proof.
  induction 1; intros g; simpl; auto.
  - rewrite remove_node_comm. reflexivity.
  - rewrite IHPermutation1. auto.
Qed.

Lemma filter_perm {A} (f : A -> bool) l l' : Permutation l l' -> Permutation (filter f l) (filter f l').
Proof.
  induction 1; simpl; auto.
  - destruct (f x); auto.
  - destruct (f x), (f y); auto. apply perm_swap.
  - eapply perm_trans; eauto.
Qed.

(* the two terminal-removal passes agree, up to the order in which the dead ports are named *)
Lemma chk_terminals_ord_rel (ord : list string -> list string) oi oo :
  (forall l, Permutation (ord l) l) ->
  forall fuel g,
    chk_terminals_ord ord fuel g oi oo = chk_terminals fuel g oi oo \/
    exists ps ps', chk_terminals_ord ord fuel g oi oo = inr (EDeadInput ps) /\
                   chk_terminals fuel g oi oo = inr (EDeadInput ps') /\ Permutation ps ps'.
Proof.
  intros Hord. induction fuel as [|f IH]; intros g; cbn [chk_terminals_ord chk_terminals]; auto.
  set (X := filter (fun n => negb (mem_str n oo)) (out_ports_of g)).
  pose proof (Hord X) as P.
  destruct (ord X) as [|s l] eqn:EO.
  - apply Permutation_nil in P. rewrite P. auto.
  - destruct X as [|s0 l0] eqn:EX.
    + apply Permutation_sym, Permutation_nil in P. discriminate.
    + pose proof (filter_perm (fun n => mem_str n oi) _ _ P) as PF.
      destruct (filter (fun n => mem_str n oi) (s :: l)) as [|d dl] eqn:F1.
      * apply Permutation_nil in PF. rewrite PF.
        rewrite (fold_remove_perm _ _ P). apply IH.
      * destruct (filter (fun n => mem_str n oi) (s0 :: l0)) as [|d0 dl0] eqn:F2.
        -- apply Permutation_sym, Permutation_nil in PF. discriminate.
        -- right. eauto.
Qed.

Lemma load_with_chk_terminals d : load_with chk_terminals d = load_proc_desc d.
Proof. reflexivity. Qed.

Lemma C20_set_order_irrelevant_lemma :
  forall (ord : list string -> list string) (d : desc),
    (forall l, Permutation (ord l) l) ->
    same_outcome (load_with (chk_terminals_ord ord) d) (load_proc_desc d).
Proof.
  intros ord d Hord. unfold same_outcome, load_with, load_proc_desc.
  destruct (add_units _ _) as [s|e]; auto.
  destruct (add_edges _ _ _) as [g|e]; auto.
  destruct (topo_sort g) as [order|]; auto.
  cbv zeta.
  destruct (rm_empty_units _) as [g1 at1].
  destruct (chk_terminals_ord_rel ord (in_ports_of g) (out_ports_of g) Hord (S (length (g_nodes g1))) g1)
    as [E|(ps & ps' & E1 & E2 & P)].
  - rewrite E. auto.
  - rewrite E1, E2. right. eauto.
Qed.

(* ====================================================================== *)
(* Part 2: String.leb is a total order, so sorted() forgets the order of its argument *)
(* ====================================================================== *)

Lemma acompare_refl a : Ascii.compare a a = Eq.
Proof. unfold Ascii.compare. apply N.compare_refl. Qed.

Lemma acompare_eq a b : Ascii.compare a b = Eq <-> a = b.
Proof. split; [apply Ascii.compare_eq_iff|intros ->; apply acompare_refl]. Qed.

Lemma acompare_lt_trans a b c :
  Ascii.compare a b = Lt -> Ascii.compare b c = Lt -> Ascii.compare a c = Lt.
Proof. unfold Ascii.compare. rewrite !N.compare_lt_iff. lia. Qed.

Lemma scompare_refl s : String.compare s s = Eq.
Proof. induction s; simpl; auto. rewrite acompare_refl; auto. Qed.

Lemma scompare_eq s t : String.compare s t = Eq <-> s = t.
Proof. split; [apply String.compare_eq_iff|intros ->; apply scompare_refl]. Qed.

Lemma scompare_lt_trans s t u :
  String.compare s t = Lt -> String.compare t u = Lt -> String.compare s u = Lt.
Proof.
  revert t u; induction s as [|a s IH]; intros [|b t] [|c u]; simpl; try congruence.
  destruct (Ascii.compare a b) eqn:Eab; try congruence;
  destruct (Ascii.compare b c) eqn:Ebc; try congruence; intros H1 H2.
  - apply acompare_eq in Eab, Ebc; subst. rewrite acompare_refl. eauto.
  - apply acompare_eq in Eab; subst. rewrite Ebc; auto.
  - apply acompare_eq in Ebc; subst. rewrite Eab; auto.
  - rewrite (acompare_lt_trans _ _ _ Eab Ebc); auto.
Qed.

Lemma scompare_gt_lt s t : String.compare s t = Gt <-> String.compare t s = Lt.
Proof.
  pose proof (String.compare_antisym s t) as H.
  destruct (String.compare s t), (String.compare t s); simpl in H; split; congruence.
Qed.

Lemma sleb_iff s t : String.leb s t = true <-> s = t \/ String.compare s t = Lt.
Proof. unfold String.leb. destruct (String.compare s t) eqn:E.
  - apply scompare_eq in E. tauto.
  - tauto.
  - split; [congruence|]. intros [->|H]; [rewrite scompare_refl in E|]; congruence. Qed.

Lemma sleb_trans s t u : String.leb s t = true -> String.leb t u = true -> String.leb s u = true.
Proof. rewrite !sleb_iff. intros [->|H1] [->|H2]; auto. right. eapply scompare_lt_trans; eauto. Qed.

Lemma sleb_total s t : String.leb s t = true \/ String.leb t s = true.
Proof.
  rewrite !sleb_iff. destruct (String.compare s t) eqn:E.
  - apply scompare_eq in E. auto.
  - auto.
  - apply scompare_gt_lt in E. auto.
Qed.

Lemma sleb_antisym s t : String.leb s t = true -> String.leb t s = true -> s = t.
Proof.
  rewrite !sleb_iff. intros [E1|H1] [E2|H2]; auto.
  pose proof (scompare_lt_trans _ _ _ H1 H2) as H. rewrite scompare_refl in H. discriminate.
Qed.

Section SortUnique.
  Context {A : Type} (leb : A -> A -> bool).
  Hypothesis leb_total : forall x y, leb x y = true \/ leb y x = true.
  Hypothesis leb_trans : forall x y z, leb x y = true -> leb y z = true -> leb x z = true.
  Hypothesis leb_antisym : forall x y, leb x y = true -> leb y x = true -> x = y.

  Let lebP (x y : A) : Prop := leb x y = true.

  Lemma insert_sorted x l : StronglySorted lebP l -> StronglySorted lebP (insert leb x l).
  Proof.
    induction l as [|y t IH]; intros Hs; simpl.
    - constructor; constructor.
    - apply StronglySorted_inv in Hs. destruct Hs as [Hs Hy].
      destruct (leb x y) eqn:E.
      + constructor; [constructor; auto|]. constructor; [exact E|].
        eapply Forall_impl; [|exact Hy]. intros z Hz. eapply leb_trans; eauto.
      + constructor; [auto|]. apply Forall_forall. intros z Hz.
        apply insert_incl in Hz. destruct Hz as [<-|Hz].
        * destruct (leb_total x y) as [H|H]; [congruence|exact H].
        * rewrite Forall_forall in Hy. auto.
  Qed.

  Lemma isort_sorted l : StronglySorted lebP (isort leb l).
  Proof. induction l as [|x l IH]; simpl; [constructor|]. apply insert_sorted; auto. Qed.

  (* multiset version: duplicates allowed *)
  Lemma sorted_perm_eq l1 : forall l2,
    StronglySorted lebP l1 -> StronglySorted lebP l2 -> Permutation l1 l2 -> l1 = l2.
  Proof.
    induction l1 as [|x t1 IH]; intros l2 S1 S2 P.
    - apply Permutation_nil in P. auto.
    - destruct l2 as [|y t2].
      + apply Permutation_sym in P. apply Permutation_nil_cons in P. tauto.
      + apply StronglySorted_inv in S1. destruct S1 as [S1 F1].
        apply StronglySorted_inv in S2. destruct S2 as [S2 F2].
        rewrite Forall_forall in F1, F2.
        assert (Hy : In y (x :: t1)) by (eapply Permutation_in; [apply Permutation_sym; exact P|left; auto]).
        assert (Hx : In x (y :: t2)) by (eapply Permutation_in; [exact P|left; auto]).
        assert (x = y).
        { destruct Hy as [Hy|Hy]; auto. destruct Hx as [Hx|Hx]; auto.
          apply leb_antisym; [apply F1; auto|apply F2; auto]. }
        subst y. f_equal. apply IH; auto.
        eapply Permutation_cons_inv; eauto.
  Qed.

  Lemma isort_perm_eq a b : Permutation a b -> isort leb a = isort leb b.
  Proof.
    intros P. apply sorted_perm_eq; try apply isort_sorted.
    eapply perm_trans; [apply Permutation_sym, isort_perm|].
    eapply perm_trans; [exact P|apply isort_perm].
  Qed.
End SortUnique.

Lemma sort_str_perm l l' : Permutation l l' -> sort_str l = sort_str l'.
Proof.
  unfold sort_str. apply isort_perm_eq; unfold str_leb.
  - apply sleb_total.
  - apply sleb_trans.
  - apply sleb_antisym.
Qed.

Lemma C20_unit_lists_order_irrelevant_lemma :
  forall n a a' mem mem',
    a_width a = a_width a' -> a_rl a = a_rl a' -> a_wl a = a_wl a' ->
    Permutation (a_caps a) (a_caps a') -> Permutation mem mem' ->
    mk_unit n a mem = mk_unit n a' mem'.
Proof.
  intros n a a' mem mem' Hw Hr Hl Pc Pm. unfold mk_unit.
  rewrite Hw, Hr, Hl, (sort_str_perm _ _ Pc), (sort_str_perm _ _ Pm). reflexivity.
Qed.
