(* Readings2_proof.v -- collects the lemmas closing props/Readings2.v:
   C07_reading_lemma (Readings2_c07), C08_stall_means_deadlock_lemma (Readings2_c08, with the
   exit-count invariant of Readings2_c08a) and C10_reading_lemma (Readings3_proof, PID Readings3). *)
From PS Require Export Readings2_c07 Readings2_c08 Readings3_proof.
