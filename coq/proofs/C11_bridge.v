(* C11_bridge.v -- the `bridge` record of C11_struct.v, from the LD_spec characterisation of the loader's
   intermediate graphs. *)
From Coq Require Import Lia Permutation ZArith.
From PS Require Import Base Str Sim Graph Loader Diag LoaderSpec Lists Graph_facts
  LD_base LD_create LD_clean LD_term LD_spec C11_locks C11_struct.

Section Bridge.
  Variables (d : desc) (g : graph) (at0 : attrs) (creg : list string).
  Hypothesis C : created d g at0 creg.
  Variables (order : list string) (gc : graph) (at1 : attrs) (g1 : graph).
  Hypothesis Ht : topo_sort g = Some order.
  Hypothesis Hc : clean_struct order (g, at0) = (gc, at1).
  Hypothesis Hr : rm_empty_units (gc, at1) = (g1, at1).
  Local Notation cx := (mk_ctx d).
  Let HU1 := br_U1 d g at0 creg C order gc at1 g1 Ht Hc Hr.
  Let He1 := br_e1_succs d g at0 creg C order gc at1 g1 Ht Hc Hr.
  Let Hn1 := br_g1_nodes d g at0 creg C order gc at1 g1 Ht Hc Hr.
  Let Hw1 := br_g1_wf d g at0 creg C order gc at1 g1 Ht Hc Hr.
  Let Hs1 := br_g1_succs d g at0 creg C order gc at1 g1 Ht Hc Hr.
  Let Hp1 := br_g1_preds d g at0 creg C order gc at1 g1 Ht Hc Hr.

  (* first half of LD_spec.br_kept, without the success of chk_terminals *)
  Lemma kept_coreach u : In u (kept cx) <-> In u (g_nodes g1) /\ coreach g1 (out_ports_of g) u.
  Proof. unfold kept. rewrite c_kept_eq, filter_In. rewrite <- c_U1_eq. fold (U1 cx).
    rewrite HU1. cbv zeta. rewrite existsb_exists.
    change (e1_succs_t (resolve d) (Ftab d) (U1 cx)) with (e1_succs cx).
    assert (K : In u (g_nodes g1) -> forall o, In o (reach_from (nd d) (e1_succs cx) [u] [u]) <-> rpath (succs g1) u o).
    { intros Hu o. rewrite (reach_from_spec (e1_succs cx) (r_names (resolve d))).
      - rewrite (rpath_ext (succs g1) (e1_succs cx)) by (intros; symmetry; apply He1).
        split; [intros [s [[<-|[]] Hs]]; auto|]. intros Hs. exists u. split; auto. left; auto.
      - repeat constructor. simpl. tauto.
      - intros y [<-|[]]. rewrite (br_names d g at0 creg C). apply Hn1 in Hu. tauto.
      - intros y _ z Hz. apply He1, Hs1 in Hz. destruct Hz as [Hz _].
        rewrite (br_names d g at0 creg C). apply (gwf_in g (cr_gwf _ _ _ _ C)) in Hz. tauto.
      - apply br_len. }
    assert (Ho : forall o, In o (outs1 d) <-> In o (out_ports_of g) /\ In o (g_nodes g1)).
    { intros o. unfold outs1. rewrite filter_In, mem_str_In, (br_outputs d g at0 creg C). rewrite <- c_U1_eq.
      fold (U1 cx). rewrite HU1. tauto. }
    split.
    - intros [Hu [o [H1 H2]]]. split; auto. apply mem_str_In in H2. apply (K Hu) in H2. apply Ho in H1.
      exists o. tauto.
    - intros [Hu [o [H1 [H2 H3]]]]. split; auto. exists o. split; [apply Ho; auto|].
      apply mem_str_In. apply (K Hu). auto. Qed.

  Lemma g1_sub u : In u (g_nodes g1) -> exists x, In x (d_units d) /\ d_name x = u.
  Proof. intros Hu. apply Hn1 in Hu. destruct Hu as [Hu _]. rewrite (cr_nodes _ _ _ _ C) in Hu.
    unfold d_names in Hu. apply in_map_iff in Hu. destruct Hu as [x [E Hx]]. eauto. Qed.

  Theorem bridge_ok : bridge d g g1 at1.
  Proof. constructor.
    - exact Hw1.
    - exact (br_g1_acyclic d g at0 creg C order gc at1 g1 Ht Hc Hr).
    - rewrite <- (map_length d_name). fold (d_names d). rewrite <- (cr_nodes _ _ _ _ C).
      apply NoDup_incl_length; [apply Hw1|]. intros x Hx. apply Hn1 in Hx. tauto.
    - intros p. rewrite c_r_eq, (br_inputs d g at0 creg C). tauto.
    - exact HU1.
    - exact kept_coreach.
    - intros u c _. symmetry. apply (br_caps1_Fc d g at0 creg C order gc at1 Ht Hc).
    - exact He1.
    - intros u k Hu. destruct (g1_sub u Hu) as [x [Hx <-]]. unfold d_locked.
      rewrite (created_d_unit d g at0 creg x C Hx).
      destruct (br_attr1_unit d g at0 creg C order gc at1 Ht Hc x Hx) as [_ [R [W _]]].
      destruct k; simpl; auto.
    - intros p Hp Hpp. apply in_ports_In. apply Hn1 in Hp. destruct Hp as [Hp0 Hne]. split; auto.
      destruct (preds g p) as [|q qs] eqn:E; auto. exfalso.
      apply nonnil_in in Hne. destruct Hne as [c Hfc].
      apply (br_caps1 d g at0 creg C order gc at1 Ht Hc) in Hfc. inversion Hfc; subst; [congruence|].
      assert (Hq : In p0 (preds g1 p)) by (apply Hp1; split; auto; exists c; auto).
      rewrite Hpp in Hq. destruct Hq. Qed.
End Bridge.
