(* C03_track.v -- the diagram-reading vocabulary of C03 (places, track, appears, segments) in a form
   suited to tables that grow by one record, and the pure lemma turning a linked chain of places into
   segs_ok / nodupb of the segment units. *)
From Coq Require Import Lia.
From PS Require Import Base Bag RegAccess Sim Diag Lists C03_lists C03_step C03_inv.

(* ---------- places ---------- *)
Lemma places_in r i u l : In (u, l) (places r i) <-> exists es, In (u, es) r /\ In (i, l) es.
Proof. unfold places. rewrite in_flat_map. split.
  - intros [[k es] [H1 H2]]. simpl in H2. apply in_map_iff in H2. destruct H2 as [[j l'] [E H2]].
    apply filter_In in H2. simpl in *. destruct H2 as [H2 H3]. apply Nat.eqb_eq in H3. inversion E; subst.
    exists es. auto.
  - intros (es & H1 & H2). exists (u, es). split; auto. simpl. apply in_map_iff. exists (i, l).
    split; auto. apply filter_In. split; auto. simpl. apply Nat.eqb_refl. Qed.

Lemma get_some_in {A} (r : list (string * list A)) u e : In e (get r u) -> In (u, get r u) r.
Proof. induction r as [|[k v] t IH]; simpl; intros H; [tauto|].
  destruct (String.eqb_spec u k) as [->|Hne]; auto. Qed.

Lemma places_get r i u l : Kq r -> (In (u, l) (places r i) <-> In (i, l) (get r u)).
Proof. intros HK. rewrite places_in. split.
  - intros (es & H1 & H2). rewrite (get_in r u es HK H1). auto.
  - intros H. exists (get r u). split; auto. eapply get_some_in; eauto. Qed.

Lemma places_ids r i p : In p (places r i) -> In i (ids r).
Proof. destruct p as [u l]. intros H. apply places_in in H. destruct H as (es & H1 & H2).
  apply ids_in_raw. exists u, es. split; auto. eapply in_fst; eauto. Qed.

Lemma filt_single (v : list entry) i : NoDup (map fst v) ->
  filter (fun e => fst e =? i) v = [] \/ exists e, filter (fun e => fst e =? i) v = [e] /\ In e v /\ fst e = i.
Proof. induction v as [|a v IH]; simpl; intros H; auto. inversion H; subst.
  destruct (Nat.eqb_spec (fst a) i) as [E|E].
  - right. exists a. split; [|auto]. f_equal. destruct (IH H3) as [G|(e & G1 & G2 & G3)]; auto.
    exfalso. apply H2. rewrite E, <- G3. apply in_map; auto.
  - destruct (IH H3) as [G|(e & G1 & G2 & G3)]; auto. right. exists e. auto. Qed.

Lemma places_single r i : NoDup (ids r) -> places r i = [] \/ exists p, places r i = [p].
Proof. induction r as [|[k v] t IH]; simpl; intros H; auto.
  fold (places t i). fold (ids t) in H.
  pose proof (NoDup_app_l _ _ H) as H1. pose proof (NoDup_app_r _ _ H) as H2.
  destruct (filt_single v i H1) as [G|(e & G1 & G2 & G3)].
  - rewrite G. simpl. auto.
  - rewrite G1. simpl. right. exists (k, snd e). f_equal.
    destruct (places t i) as [|p ps] eqn:E; auto. exfalso.
    apply (NoDup_app_disj _ _ H i).
    + rewrite <- G3. apply in_map; auto.
    + apply (places_ids t i p). rewrite E. left; auto. Qed.

Lemma places_spec r i : Kq r -> Uq r ->
  (places r i = [] /\ ~ inrec r i) \/ (exists u l, places r i = [(u, l)] /\ In (i, l) (get r u)).
Proof. intros HK HU. destruct (places_single r i (Uq_ids r HK HU)) as [E|[[u l] E]].
  - left. split; auto. intros (u & l & H). apply (places_get r i u l HK) in H. rewrite E in H. destruct H.
  - right. exists u, l. split; auto. apply (places_get r i u l HK). rewrite E. left; auto. Qed.

(* ---------- track and appears when the table grows ---------- *)
Lemma flat_map_ext_in {A B} (f g : A -> list B) l : (forall a, In a l -> f a = g a) -> flat_map f l = flat_map g l.
Proof. induction l as [|a l IH]; simpl; intros H; auto. rewrite H by auto. f_equal. apply IH. auto. Qed.

Lemma rec_at_app1 d r t : t < length d -> rec_at (d ++ [r]) t = rec_at d t.
Proof. intros H. unfold rec_at. apply app_nth1. auto. Qed.
Lemma rec_at_app2 d r : rec_at (d ++ [r]) (length d) = r.
Proof. unfold rec_at. rewrite app_nth2, Nat.sub_diag by lia. reflexivity. Qed.

Lemma track_snoc d r i :
  track (d ++ [r]) i = track d i ++ map (fun pl => (length d, pl)) (places r i).
Proof. unfold track. rewrite app_length. simpl. rewrite seq_app, flat_map_app. simpl.
  rewrite rec_at_app2, app_nil_r. f_equal. apply flat_map_ext_in. intros t Ht. apply in_seq in Ht.
  rewrite rec_at_app1 by lia. reflexivity. Qed.
Lemma track_nil i : track [] i = [].
Proof. reflexivity. Qed.

Definition nonemptyb {A} (l : list A) : bool := match l with [] => false | _ => true end.
Lemma appears_snoc d r i : appears (d ++ [r]) i = appears d i || nonemptyb (places r i).
Proof. unfold appears. rewrite existsb_app. simpl. rewrite orb_false_r. reflexivity. Qed.
Lemma appears_track d i : appears d i = true <-> track d i <> [].
Proof. induction d as [|r d IH] using rev_ind.
  - simpl. split; [discriminate|intros H; exfalso; apply H; reflexivity].
  - rewrite appears_snoc, track_snoc, orb_true_iff, IH. destruct (places r i) as [|p ps]; simpl.
    + rewrite app_nil_r. split; [intros [H|H]; [auto|discriminate]|auto].
    + split; [|auto]. intros _ H. apply app_eq_nil in H. destruct H; discriminate. Qed.

Lemma track_in d i t u l : In (t, (u, l)) (track d i) -> t < length d /\ In (u, l) (places (rec_at d t) i).
Proof. unfold track. rewrite in_flat_map. intros [t' [H1 H2]]. apply in_seq in H1. apply in_map_iff in H2.
  destruct H2 as [pl [E H2]]. inversion E; subst. split; [lia|auto]. Qed.

Lemma rec_at_last d : rec_at d (length d - 1) = last d [].
Proof. unfold rec_at. destruct d as [|a d] using rev_ind; [reflexivity|].
  rewrite app_length, last_last. simpl. rewrite app_nth2 by lia.
  replace (length d + 1 - 1 - length d) with 0 by lia. reflexivity. Qed.

(* ---------- contiguous ---------- *)
Lemma contiguous_snoc l b : contiguous l = true -> (l <> [] -> b = S (last l 0)) -> contiguous (l ++ [b]) = true.
Proof. induction l as [|a l IH]; intros H Hb; [reflexivity|]. destruct l as [|a' l].
  - cbn [app contiguous]. rewrite andb_true_r. apply Nat.eqb_eq. apply Hb. discriminate.
  - cbn [contiguous] in H. apply andb_true_iff in H. destruct H as [H1 H2].
    change ((a :: a' :: l) ++ [b]) with (a :: a' :: (l ++ [b])).
    change (contiguous (a :: a' :: l ++ [b])) with ((a' =? S a) && contiguous ((a' :: l) ++ [b])).
    rewrite H1. simpl andb. apply IH; auto. intros _. apply Hb. discriminate. Qed.

(* ---------- chains of places ---------- *)
Section Chain.
Variable P : proc.
Variable cap : string.
Variable rk : string -> nat.
Hypothesis Hrk : forall p u, In p (preds_of P u) -> rk u < rk p.

Definition ltrans (a b : label) : Prop := (a = LD /\ b <> LS) \/ (a <> LD /\ b = LS).
Definition link (x y : string * label) : Prop :=
  (fst x = fst y /\ ltrans (snd x) (snd y)) \/
  (fst x <> fst y /\ In (fst x) (preds_of P (fst y)) /\ snd x <> LD /\ snd y <> LS).
Fixpoint chain (l : list (string * label)) : Prop :=
  match l with
  | x :: ((y :: _) as t) => link x y /\ chain t
  | _ => True
  end.

Lemma chain_snoc l y d0 : chain l -> (l <> [] -> link (last l d0) y) -> chain (l ++ [y]).
Proof. induction l as [|x l IH]; intros H Hy; simpl; auto. destruct l as [|x' l].
  - simpl. split; auto. apply Hy. discriminate.
  - destruct H as [H1 H2]. change ((x' :: l) ++ [y]) with (x' :: (l ++ [y])). split; auto.
    apply IH; auto. intros _. apply Hy. discriminate. Qed.

Definition headok (full : bool) (a : label) (lbs : list label) : Prop :=
  match a with LS => all_lab LS lbs = true | _ => seg_ok full lbs = true end.
Definition lastflag (lastfull : bool) (rest : list (string * list label)) : bool :=
  match rest with [] => lastfull | _ => true end.

Lemma segs_main (lastfull : bool) : forall l d0,
  chain l -> (forall x, In x l -> supports P (fst x) cap = true) ->
  (lastfull = true -> snd (last l d0) <> LD) ->
  match l with
  | [] => True
  | y :: _ =>
      exists lbs rest, segments l = (fst y, snd y :: lbs) :: rest /\
        headok (lastflag lastfull rest) (snd y) (snd y :: lbs) /\
        segs_ok P cap lastfull (Some (fst y)) rest = true /\
        (forall v, In v (map fst rest) -> rk v < rk (fst y)) /\ NoDup (map fst rest)
  end.
Proof. induction l as [|x t IH]; intros d0 Hc Hs Hl; auto. destruct t as [|y t'].
  - destruct x as [u a]. exists [], []. simpl. split; auto. split.
    + simpl in Hl. destruct a; simpl; auto. destruct lastfull; auto. exfalso. apply Hl; auto.
    + split; auto. split; [tauto|constructor].
  - destruct Hc as [Hlk Hc].
    assert (Hs' : forall z, In z (y :: t') -> supports P (fst z) cap = true) by (intros z Hz; apply Hs; right; auto).
    specialize (IH d0 Hc Hs' Hl). destruct IH as (lbs & rest & E & Hh & Hso & Hr & Hnd).
    destruct x as [u a]. cbn [segments]. cbn [segments] in E. rewrite E. unfold link in Hlk. cbn [fst snd] in *.
    destruct (String.eqb_spec u (fst y)) as [Eu|Eu].
    + destruct Hlk as [[_ Ht]|[Hne _]]; [|congruence].
      exists (snd y :: lbs), rest. split; [reflexivity|]. split; [|rewrite Eu; auto].
      unfold ltrans in Ht. unfold headok in *. destruct a.
      * destruct Ht as [[_ Ht]|[Ht _]]; [|congruence]. cbn [seg_ok]. destruct (snd y); auto; congruence.
      * destruct Ht as [[Ht _]|[_ Ht]]; [discriminate|]. rewrite Ht in *. simpl. exact Hh.
      * destruct Ht as [[Ht _]|[_ Ht]]; [discriminate|]. rewrite Ht in *. cbn [seg_ok]. exact Hh.
    + destruct Hlk as [[Heq _]|(_ & Hp & Ha & Hy)]; [congruence|].
      exists [], ((fst y, snd y :: lbs) :: rest). split; [reflexivity|]. split; [|split; [|split]].
      * unfold headok. simpl. destruct a; auto; congruence.
      * cbn [segs_ok]. rewrite (Hs' y (or_introl eq_refl)). rewrite (proj2 (mem_str_In _ _) Hp).
        rewrite Hso. simpl. rewrite andb_true_r. fold (lastflag lastfull rest).
        unfold headok in Hh. destruct (snd y); auto; congruence.
      * intros v [<-|Hv]; [apply Hrk; auto|]. specialize (Hr v Hv). specialize (Hrk _ _ Hp). lia.
      * simpl. constructor; auto. intros Hin. specialize (Hr _ Hin). lia. Qed.

Lemma segs_final lastfull x t d0 :
  chain (x :: t) -> (forall z, In z (x :: t) -> supports P (fst z) cap = true) ->
  In (fst x) (in_names P) -> snd x <> LS ->
  (lastfull = true -> snd (last (x :: t) d0) <> LD) ->
  segs_ok P cap lastfull None (segments (x :: t)) = true /\
  nodupb String.eqb (map fst (segments (x :: t))) = true.
Proof. intros Hc Hs Hin Hx Hl.
  destruct (segs_main lastfull (x :: t) d0 Hc Hs Hl) as (lbs & rest & E & Hh & Hso & Hr & Hnd).
  rewrite E. split.
  - cbn [segs_ok]. rewrite (Hs x (or_introl eq_refl)), (proj2 (mem_str_In _ _) Hin), Hso. simpl.
    rewrite andb_true_r. fold (lastflag lastfull rest). unfold headok in Hh. destruct (snd x); auto; congruence.
  - apply nodupb_NoDup. simpl. constructor; auto. intros H. specialize (Hr _ H). lia. Qed.

End Chain.
