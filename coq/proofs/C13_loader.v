(* C13_loader.v -- load_proc_desc is insensitive to the letter case of later occurrences of names. *)
From Coq Require Import String Ascii Lia Bool List ZArith.
From PS Require Import Base Str Sim Graph Program Isa Loader TextSpec Lists C18_proof CiSpec C13_ci.

Lemma fold_left_ext {A B} (f f' : A -> B -> A) : (forall a x, f a x = f' a x) ->
  forall l a, fold_left f l a = fold_left f' l a.
Proof. intros H. induction l as [|x t IH]; intros a; simpl; auto. rewrite H. apply IH. Qed.

(* ---------- attributes up to the case of memory-access entries ---------- *)
Definition a_rel (a a' : uattr) : Prop :=
  a_width a = a_width a' /\ a_caps a = a_caps a' /\ a_rl a = a_rl a' /\ a_wl a = a_wl a' /\
  Forall2 ci (a_mem a) (a_mem a').
Definition at_rel (x y : attrs) : Prop :=
  Forall2 (fun p q => fst p = fst q /\ a_rel (snd p) (snd q)) x y.

Lemma a_rel_refl a : a_rel a a.
Proof. unfold a_rel. repeat split; auto. apply Forall2_ci_refl. Qed.
Lemma attr_of_rel x y n : at_rel x y -> a_rel (attr_of x n) (attr_of y n).
Proof. unfold attr_of. induction 1 as [|[k a] [k' a'] t t' [H1 H2] _ IH]; simpl in *.
  - apply a_rel_refl.
  - subst k'. destruct (String.eqb n k); auto. Qed.
Lemma caps_of_rel x y n : at_rel x y -> caps_of x n = caps_of y n.
Proof. intros H. unfold caps_of. apply (attr_of_rel x y n H). Qed.
Lemma set_rel x y k a a' : at_rel x y -> a_rel a a' -> at_rel (set x k a) (set y k a').
Proof. intros H Ha. induction H as [|[k1 a1] [k2 a2] t t' [H1 H2] Ht IH]; simpl in *.
  - constructor; [split; auto|constructor].
  - subst k2. destruct (String.eqb k k1).
    + constructor; auto.
    + constructor; auto. Qed.
Lemma set_caps_rel x y n c : at_rel x y -> at_rel (set_caps x n c) (set_caps y n c).
Proof. intros H. unfold set_caps. apply set_rel; auto.
  destruct (attr_of_rel x y n H) as [H1 [H2 [H3 [H4 H5]]]]. unfold a_rel; simpl. repeat split; auto. Qed.

(* ---------- load_caps ---------- *)
Lemma load_caps_recased : forall cs cs' lseen lseen' creg,
  Forall2 ci lseen lseen' ->
  (forall y, In y lseen -> mem_ic y creg = true) ->
  fst (caps_recased creg cs cs') ->
  load_caps cs' lseen' creg = load_caps cs lseen creg /\
  snd (load_caps cs lseen creg) = snd (caps_recased creg cs cs').
Proof.
  induction cs as [|c t IH]; intros [|c' t'] lseen lseen' creg Hs Hcov Hp; simpl in Hp; try contradiction.
  - simpl. auto.
  - cbn [load_caps caps_recased].
    destruct (mem_ic c creg) eqn:Em; cbn [negb] in *.
    + (* a later occurrence *)
      destruct (caps_recased creg t t') as [p seen'] eqn:E. cbn [fst snd] in *. destruct Hp as [Hc Hp].
      rewrite <- (mem_ic_Forall2 c c' lseen lseen' Hc Hs).
      destruct (mem_ic c lseen) eqn:El.
      * specialize (IH t' lseen lseen' creg Hs Hcov). rewrite E in IH. apply IH. exact Hp.
      * destruct (ic_find_mem _ _ Em) as [s Es]. rewrite <- (ic_find_ci c c' creg Hc), Es.
        assert (Hcov' : forall y, In y (lseen ++ [c]) -> mem_ic y creg = true).
        { intros y Hy. apply in_app_iff in Hy. destruct Hy as [Hy|[<-|[]]]; auto. }
        specialize (IH t' (lseen ++ [c]) (lseen' ++ [c']) creg (Forall2_ci_app _ _ _ _ Hs Hc) Hcov').
        rewrite E in IH. destruct (IH Hp) as [IH1 IH2]. rewrite IH1.
        destruct (load_caps t (lseen ++ [c]) creg) as [l creg'']. cbn [fst snd] in *. auto.
    + (* the first occurrence *)
      destruct (caps_recased (creg ++ [c]) t t') as [p seen'] eqn:E. cbn [fst snd] in *. destruct Hp as [Hc Hp].
      subst c'.
      rewrite <- (mem_ic_Forall2 c c lseen lseen' (ci_refl c) Hs).
      assert (El : mem_ic c lseen = false).
      { destruct (mem_ic c lseen) eqn:El; auto. apply mem_ic_true in El. destruct El as [y [Hy Hcy]].
        rewrite (mem_ic_ci c y creg Hcy), (Hcov y Hy) in Em. discriminate. }
      rewrite El. apply ic_find_none in Em. rewrite Em.
      assert (Hcov' : forall y, In y (lseen ++ [c]) -> mem_ic y (creg ++ [c]) = true).
      { intros y Hy. rewrite mem_ic_app. apply in_app_iff in Hy. destruct Hy as [Hy|[<-|[]]].
        - rewrite (Hcov y Hy). reflexivity.
        - unfold mem_ic at 2. simpl. rewrite ic_eqb_refl. apply orb_true_r. }
      specialize (IH t' (lseen ++ [c]) (lseen' ++ [c]) (creg ++ [c])
                     (Forall2_ci_app _ _ _ _ Hs (ci_refl c)) Hcov').
      rewrite E in IH. destruct (IH Hp) as [IH1 IH2]. rewrite IH1.
      destruct (load_caps t (lseen ++ [c]) (creg ++ [c])) as [l creg'']. cbn [fst snd] in *. auto.
Qed.

(* ---------- add_units ---------- *)
Definition gs_rel (s s' : gstate) : Prop :=
  gs_g s = gs_g s' /\ at_rel (gs_at s) (gs_at s') /\ gs_ureg s = gs_ureg s' /\ gs_creg s = gs_creg s'.

Lemma add_units_recased : forall us us' s s', gs_rel s s' -> units_recased (gs_creg s) us us' ->
  match add_units us s, add_units us' s' with
  | inl r, inl r' => gs_rel r r'
  | inr e, inr e' => e = e'
  | _, _ => False
  end.
Proof.
  induction us as [|u t IH]; intros [|u' t'] s s' Hr Hu; simpl in Hu; try contradiction.
  - simpl. exact Hr.
  - destruct (caps_recased (gs_creg s) (d_caps u) (d_caps u')) as [p seen'] eqn:E.
    destruct Hu as [Hn [Hw [Hrl [Hwl [Hm [Hp Ht]]]]]].
    destruct Hr as [Hg [Ha [Hur Hcr]]].
    cbn [add_units]. rewrite <- Hn, <- Hw, <- Hur, <- Hcr, <- Hg, <- Hrl, <- Hwl.
    destruct (ic_find (d_name u) (gs_ureg s)) as [old|]; [reflexivity|].
    destruct (d_width u <=? 0)%Z; [reflexivity|].
    assert (Hp' : fst (caps_recased (gs_creg s) (d_caps u) (d_caps u'))) by (rewrite E; exact Hp).
    destruct (load_caps_recased (d_caps u) (d_caps u') [] [] (gs_creg s) (Forall2_nil _)
                (fun y (F : In y []) => match F with end) Hp') as [L1 L2].
    rewrite L1. rewrite E in L2. cbn [snd] in L2.
    destruct (load_caps (d_caps u) [] (gs_creg s)) as [caps creg'] eqn:EL. cbn [snd] in L2. subst seen'.
    apply IH.
    + unfold gs_rel; cbn. repeat split; auto. apply set_rel; auto.
      unfold a_rel; cbn. repeat split; auto.
    + cbn. exact Ht.
Qed.

Lemma add_units_ureg : forall us s r, add_units us s = inl r -> gs_ureg r = gs_ureg s ++ map d_name us.
Proof. induction us as [|u t IH]; intros s r; simpl.
  - intros [= <-]. rewrite app_nil_r. reflexivity.
  - destruct (ic_find (d_name u) (gs_ureg s)); [discriminate|].
    destruct (d_width u <=? 0)%Z; [discriminate|].
    destruct (load_caps (d_caps u) [] (gs_creg s)) as [caps creg'].
    intros H. apply IH in H. rewrite H. cbn. rewrite <- app_assoc. reflexivity. Qed.

(* ---------- add_edges ---------- *)
Definition edges_res_ci (r r' : graph + load_err) : Prop :=
  match r, r' with
  | inl g, inl g' => g = g'
  | inr (EBadEdge e), inr (EBadEdge e') => Forall2 ci e e'
  | inr (EUndefUnit n), inr (EUndefUnit n') => ci n n'
  | _, _ => False
  end.

Lemma add_edges_ci es es' : Forall2 (Forall2 ci) es es' -> forall ureg g,
  edges_res_ci (add_edges es ureg g) (add_edges es' ureg g).
Proof.
  induction 1 as [|e e' t t' He _ IH]; intros ureg g.
  - simpl. reflexivity.
  - cbn [add_edges].
    destruct He as [|a a' l l' Ha He]; [simpl; constructor|].
    destruct He as [|b b' l l' Hb He]; [simpl; repeat constructor; auto|].
    destruct He as [|c c' l l' Hc He].
    + rewrite <- (ic_find_ci a a' ureg Ha), <- (ic_find_ci b b' ureg Hb).
      destruct (ic_find a ureg); [|exact Ha].
      destruct (ic_find b ureg); [|exact Hb].
      apply IH.
    + simpl. repeat constructor; auto.
Qed.

Lemma add_edges_wf es ureg :
  (forall e, In e es -> exists a b, e = [a; b] /\ mem_ic a ureg = true /\ mem_ic b ureg = true) ->
  forall g, exists g', add_edges es ureg g = inl g'.
Proof. induction es as [|e t IH]; intros H g; simpl; [eauto|].
  destruct (H e (or_introl eq_refl)) as [a [b [-> [Ha Hb]]]].
  destruct (ic_find_mem _ _ Ha) as [a' ->]. destruct (ic_find_mem _ _ Hb) as [b' ->].
  apply IH. intros e He. apply H. right; auto. Qed.

(* ---------- everything after the graph is built ---------- *)
Definition finish (g : graph) (at0 : attrs) (creg : list string) : load_res :=
  match topo_sort g with
  | None => LoadErr ECycle
  | Some order =>
      let orig_in := in_ports_of g in
      let orig_out := out_ports_of g in
      let '(g1, at1) := rm_empty_units (clean_struct order (g, at0)) in
      match chk_terminals (S (length (g_nodes g1))) g1 orig_in orig_out with
      | inr e => LoadErr e
      | inl g2 =>
          match filter (fun p => has_node g2 p) orig_in with
          | [] => LoadErr EEmptyProc
          | _ =>
              match do_cap_checks g2 at1 (dfs_postorder g2) (out_ports_of g2) (cap_units g2 at1) with
              | Some e => LoadErr e
              | None => make_processor g2 at1 creg
              end
          end
      end
  end.
Lemma load_proc_desc_finish d :
  load_proc_desc d =
  match add_units (d_units d) {| gs_g := g_empty; gs_at := []; gs_ureg := []; gs_creg := [] |} with
  | inr e => LoadErr e
  | inl s =>
      match add_edges (d_edges d) (gs_ureg s) (gs_g s) with
      | inr e => LoadErr e
      | inl g => finish g (gs_at s) (gs_creg s)
      end
  end.
Proof. reflexivity. Qed.

Definition st_rel (st st' : graph * attrs) : Prop := fst st = fst st' /\ at_rel (snd st) (snd st').

Lemma clean_unit_rel st st' n : st_rel st st' -> st_rel (clean_unit st n) (clean_unit st' n).
Proof.
  destruct st as [g a], st' as [g' a']. intros [Hg Ha]; simpl in Hg, Ha. subst g'.
  unfold clean_unit. destruct (preds g n) as [|p0 ps]; [split; auto|].
  cbv zeta.
  match goal with |- st_rel (match ?X with _ => _ end) (match ?Y with _ => _ end) => assert (E : X = Y) end.
  { apply fold_left_ext. intros [g0 acc] p. rewrite (caps_of_rel a a' n Ha), (caps_of_rel a a' p Ha). reflexivity. }
  rewrite E.
  match goal with |- st_rel (match ?X with _ => _ end) _ => destruct X as [g1 new] end.
  split; simpl; auto. apply set_caps_rel; auto.
Qed.
Lemma clean_struct_rel order : forall st st', st_rel st st' -> st_rel (clean_struct order st) (clean_struct order st').
Proof. unfold clean_struct. induction order as [|n t IH]; intros st st' H; simpl; auto.
  apply IH. apply clean_unit_rel; auto. Qed.
Lemma rm_empty_units_rel st st' : st_rel st st' -> st_rel (rm_empty_units st) (rm_empty_units st').
Proof. destruct st as [g a], st' as [g' a']. intros [Hg Ha]; simpl in Hg, Ha. subst g'.
  unfold rm_empty_units. split; simpl; auto.
  apply fold_left_ext. intros g0 n. rewrite (caps_of_rel a a' n Ha). reflexivity. Qed.

Section Rel.
Variables (a a' : attrs).
Hypothesis Ha : at_rel a a'.

Lemma cap_units_rel g : cap_units g a = cap_units g a'.
Proof. unfold cap_units. apply fold_left_ext. intros m p. rewrite (caps_of_rel a a' p Ha). reflexivity. Qed.
Lemma has_cap_rel c n : has_cap a c n = has_cap a' c n.
Proof. unfold has_cap. rewrite (caps_of_rel a a' n Ha). reflexivity. Qed.
Lemma cap_succs_rel g c n : cap_succs g a c n = cap_succs g a' c n.
Proof. unfold cap_succs. rewrite has_cap_rel. destruct (has_cap a' c n); auto.
  apply filter_ext. intros x. apply has_cap_rel. Qed.
Lemma chk_multilock_rel g cap post : forall locks,
  chk_multilock g a cap post locks = chk_multilock g a' cap post locks.
Proof. induction post as [|n t IH]; intros locks; simpl; auto.
  rewrite has_cap_rel, cap_succs_rel.
  destruct (attr_of_rel a a' n Ha) as [_ [_ [H3 [H4 _]]]]. rewrite H3, H4.
  destruct (has_cap a' cap n); auto.
  destruct (calc_lock LkRead _ _ _ _ _); auto.
  destruct (calc_lock LkWrite _ _ _ _ _); auto. Qed.
Lemma reach_from_ext (adj adj' : string -> list string) : (forall x, adj x = adj' x) ->
  forall fuel fr seen, reach_from fuel adj fr seen = reach_from fuel adj' fr seen.
Proof. intros H. induction fuel as [|f IH]; intros fr seen; simpl; auto.
  destruct fr as [|x t]; auto. rewrite H. apply IH. Qed.
Lemma chk_flow_rel g cap outs ins : chk_flow g a cap outs ins = chk_flow g a' cap outs ins.
Proof. induction ins as [|p t IH]; cbn [chk_flow]; auto.
  rewrite (reach_from_ext (cap_succs g a cap) (cap_succs g a' cap) (cap_succs_rel g cap)).
  rewrite IH. reflexivity. Qed.
Lemma do_cap_checks_rel g post outs cus : do_cap_checks g a post outs cus = do_cap_checks g a' post outs cus.
Proof. induction cus as [|[cap ins] t IH]; simpl; auto.
  rewrite chk_multilock_rel, chk_flow_rel, IH. reflexivity. Qed.
Lemma std_mem_ci m m' creg : Forall2 ci m m' -> std_mem m creg = std_mem m' creg.
Proof. induction 1 as [|c c' t t' Hc _ IH]; simpl; auto.
  rewrite (ic_find_ci c c' creg Hc), IH. reflexivity. Qed.
Lemma mk_units_rel ns creg : mk_units ns a creg = mk_units ns a' creg.
Proof. induction ns as [|n t IH]; simpl; auto.
  destruct (attr_of_rel a a' n Ha) as [H1 [H2 [H3 [H4 H5]]]].
  rewrite (std_mem_ci _ _ creg H5), IH. unfold mk_unit. rewrite H1, H2, H3, H4. reflexivity. Qed.
Lemma make_processor_rel g creg : make_processor g a creg = make_processor g a' creg.
Proof. unfold make_processor. rewrite mk_units_rel. reflexivity. Qed.
End Rel.

Lemma finish_rel g a a' creg : at_rel a a' -> finish g a creg = finish g a' creg.
Proof. intros Ha. unfold finish. destruct (topo_sort g) as [order|]; auto. cbv zeta.
  assert (R : st_rel (rm_empty_units (clean_struct order (g, a))) (rm_empty_units (clean_struct order (g, a')))).
  { apply rm_empty_units_rel, clean_struct_rel. split; auto. }
  destruct (rm_empty_units (clean_struct order (g, a))) as [g1 a1].
  destruct (rm_empty_units (clean_struct order (g, a'))) as [g1' a1'].
  destruct R as [R1 R2]; simpl in R1, R2. subst g1'.
  destruct (chk_terminals _ g1 _ _) as [g2|e]; auto.
  rewrite (cap_units_rel a1 a1' R2), (do_cap_checks_rel a1 a1' R2), (make_processor_rel a1 a1' R2).
  reflexivity. Qed.

(* ---------- the two theorems ---------- *)
Definition init_gs : gstate := {| gs_g := g_empty; gs_at := []; gs_ureg := []; gs_creg := [] |}.

Lemma gs_rel_refl s : gs_rel s s.
Proof. unfold gs_rel. repeat split; auto. unfold at_rel. induction (gs_at s); constructor; auto.
  split; auto. apply a_rel_refl. Qed.

Lemma load_res_ci_refl r : load_res_ci r r.
Proof. destruct r as [P|[]]; simpl; auto. apply Forall2_ci_refl. apply ci_refl. Qed.

Lemma C13_loader_lemma : forall d d', recased d d' -> load_res_ci (load_proc_desc d) (load_proc_desc d').
Proof.
  intros d d' [Hu He]. rewrite !load_proc_desc_finish. fold init_gs.
  pose proof (add_units_recased (d_units d) (d_units d') init_gs init_gs (gs_rel_refl _) Hu) as R.
  destruct (add_units (d_units d) init_gs) as [s|e], (add_units (d_units d') init_gs) as [s'|e'];
    try contradiction.
  - destruct R as [Hg [Ha [Hur Hcr]]]. rewrite <- Hg, <- Hur, <- Hcr.
    pose proof (add_edges_ci _ _ He (gs_ureg s) (gs_g s)) as R. unfold edges_res_ci in R.
    destruct (add_edges (d_edges d) (gs_ureg s) (gs_g s)) as [g|e],
             (add_edges (d_edges d') (gs_ureg s) (gs_g s)) as [g'|e']; try contradiction.
    + subst g'. rewrite (finish_rel g _ _ (gs_creg s) Ha). apply load_res_ci_refl.
    + destruct e; contradiction.
    + destruct e, e'; try contradiction; exact R.
  - subst e'. apply load_res_ci_refl.
Qed.

Lemma C13_loader_exact_lemma : forall d d', recased d d' -> edges_wf d -> load_proc_desc d = load_proc_desc d'.
Proof.
  intros d d' [Hu He] Hwf. rewrite !load_proc_desc_finish. fold init_gs.
  pose proof (add_units_recased (d_units d) (d_units d') init_gs init_gs (gs_rel_refl _) Hu) as R.
  destruct (add_units (d_units d) init_gs) as [s|e] eqn:Es, (add_units (d_units d') init_gs) as [s'|e'];
    try contradiction.
  - destruct R as [Hg [Ha [Hur Hcr]]]. rewrite <- Hg, <- Hur, <- Hcr.
    pose proof (add_edges_ci _ _ He (gs_ureg s) (gs_g s)) as R. unfold edges_res_ci in R.
    apply add_units_ureg in Es. simpl in Es.
    destruct (add_edges_wf (d_edges d) (gs_ureg s)) with (g := gs_g s) as [g Eg].
    { rewrite Es. exact Hwf. }
    rewrite Eg in *.
    destruct (add_edges (d_edges d') (gs_ureg s) (gs_g s)) as [g'|e']; try contradiction.
    subst g'. apply finish_rel; auto.
  - subst e'. reflexivity.
Qed.
