(* C12_loader.v -- the graph handed to make_processor by load_proc_desc is well formed; what
   make_processor builds from a well-formed graph. *)
From Coq Require Import Lia Permutation ZArith.
From PS Require Import Base Str Sim Graph Loader Diag LoaderSpec Lists C17_strord Graph_facts
  C12_lists C12_graph C12_desc.

(* ---------- gwf along the loader's passes ---------- *)
Lemma add_units_gwf us : forall s s', add_units us s = inl s' -> gwf (gs_g s) -> gwf (gs_g s').
Proof. induction us as [|u t IH]; intros s s' H Hw; simpl in H.
  - inversion H; subst; auto.
  - destruct (ic_find (d_name u) (gs_ureg s)); [discriminate|].
    destruct (d_width u <=? 0)%Z; [discriminate|].
    destruct (load_caps (d_caps u) [] (gs_creg s)) as [caps creg'].
    apply IH in H; auto. simpl. apply gwf_add_node; auto. Qed.
Lemma add_edges_gwf es ureg : forall g g', add_edges es ureg g = inl g' -> gwf g -> gwf g'.
Proof. induction es as [|e t IH]; intros g g' H Hw; simpl in H.
  - inversion H; subst; auto.
  - destruct e as [|a [|b [|c r]]]; try discriminate.
    destruct (ic_find a ureg); [|discriminate]. destruct (ic_find b ureg); [|discriminate].
    apply IH in H; auto. apply gwf_add_edge; auto. Qed.

Definition clean_edge (at_ : attrs) (mine : list string) (n : string)
  : graph * list string -> string -> graph * list string :=
  fun '(g, acc) p =>
    let common := inter mine (caps_of at_ p) in
    match common with
    | [] => (remove_edge g p n, acc)
    | _ => (g, union acc common)
    end.
Lemma clean_edge_fold at_ mine n : forall ps st,
  gwf (fst st) -> In n (g_nodes (fst st)) -> incl ps (g_nodes (fst st)) ->
  gwf (fst (fold_left (clean_edge at_ mine n) ps st)).
Proof. induction ps as [|p t IH]; intros [g acc] Hw Hn Hps; simpl; auto.
  apply IH.
  - destruct (inter mine (caps_of at_ p)); simpl; auto. apply gwf_remove_edge; auto.
    apply Hps. left; auto.
  - destruct (inter mine (caps_of at_ p)); simpl; auto.
  - intros x Hx. destruct (inter mine (caps_of at_ p)); simpl; apply Hps; right; auto. Qed.
Lemma clean_unit_unfold g at_ n :
  clean_unit (g, at_) n =
  match preds g n with
  | [] => (g, at_)
  | ps => let '(g', new) := fold_left (clean_edge at_ (caps_of at_ n) n) ps (g, []) in
          (g', set_caps at_ n new)
  end.
Proof. reflexivity. Qed.
Lemma clean_unit_gwf st n : gwf (fst st) -> gwf (fst (clean_unit st n)).
Proof. destruct st as [g at_]. rewrite clean_unit_unfold. cbn [fst]. intros Hw.
  destruct (preds g n) as [|p ps] eqn:E; auto.
  assert (Hin : forall x, In x (p :: ps) -> In x (g_nodes g) /\ In n (g_nodes g)).
  { intros x Hx. rewrite <- E in Hx. apply (gwf_preds_in g Hw); auto. }
  pose proof (clean_edge_fold at_ (caps_of at_ n) n (p :: ps) (g, []) Hw) as Hf.
  destruct (fold_left (clean_edge at_ (caps_of at_ n) n) (p :: ps) (g, [])) as [g' new].
  cbn [fst] in *. apply Hf.
  - apply (Hin p). left; auto.
  - intros x Hx. apply (Hin x); auto. Qed.
Lemma clean_struct_gwf order : forall st, gwf (fst st) -> gwf (fst (clean_struct order st)).
Proof. unfold clean_struct. induction order as [|n t IH]; intros st Hw; simpl; auto.
  apply IH. apply clean_unit_gwf; auto. Qed.
Lemma fold_remove_node_gwf {A} (f : graph -> A -> graph) l :
  (forall g x, gwf g -> gwf (f g x)) -> forall g, gwf g -> gwf (fold_left f l g).
Proof. intros Hf. induction l; intros g Hw; simpl; auto. Qed.
Lemma rm_empty_units_gwf st : gwf (fst st) -> gwf (fst (rm_empty_units st)).
Proof. destruct st as [g at_]. simpl. intros Hw. apply fold_remove_node_gwf; auto.
  intros g0 x H0. destruct (caps_of at_ x); auto. apply gwf_remove_node; auto. Qed.
Lemma chk_terminals_gwf fuel : forall g oi oo g', chk_terminals fuel g oi oo = inl g' -> gwf g -> gwf g'.
Proof. induction fuel as [|f IH]; intros g oi oo g' H Hw; cbn [chk_terminals] in H.
  - inversion H; subst; auto.
  - destruct (filter (fun n => negb (mem_str n oo)) (out_ports_of g)) as [|x new] eqn:E.
    + inversion H; subst; auto.
    + destruct (filter (fun n => mem_str n oi) (x :: new)); [|discriminate].
      apply IH in H; auto. apply fold_remove_node_gwf; auto. intros; apply gwf_remove_node; auto. Qed.

Lemma load_proc_desc_inv d P : load_proc_desc d = LoadOk P ->
  exists g2 at1 creg, gwf g2 /\ make_processor g2 at1 creg = LoadOk P.
Proof. unfold load_proc_desc.
  destruct (add_units (d_units d) _) as [s|e] eqn:E1; [|discriminate].
  destruct (add_edges (d_edges d) (gs_ureg s) (gs_g s)) as [g|e] eqn:E2; [|discriminate].
  destruct (topo_sort g) as [order|] eqn:E3; [|discriminate].
  destruct (rm_empty_units (clean_struct order (g, gs_at s))) as [g1 at1] eqn:E4.
  destruct (chk_terminals (S (length (g_nodes g1))) g1 (in_ports_of g) (out_ports_of g)) as [g2|e] eqn:E5;
    [|discriminate].
  destruct (filter (fun p => has_node g2 p) (in_ports_of g)); [discriminate|].
  destruct (do_cap_checks g2 at1 (dfs_postorder g2) (out_ports_of g2) (cap_units g2 at1)); [discriminate|].
  intros H. exists g2, at1, (gs_creg s). split; auto.
  apply add_units_gwf in E1; [|apply gwf_empty]. apply add_edges_gwf in E2; auto.
  apply chk_terminals_gwf in E5; auto.
  change g1 with (fst (g1, at1)). rewrite <- E4. apply rm_empty_units_gwf, clean_struct_gwf. auto. Qed.

(* ---------- make_processor ---------- *)
Definition mp_model (um : list (string * unit)) (n : string) : unit := assoc (mk_unit n dflt_attr []) um n.
Definition mp_fu (g : graph) (um : list (string * unit)) (n : string) : funit :=
  {| f_model := mp_model um n; f_preds := preds g n |}.
Definition mp_cls (g : graph) (i o : bool) : list string :=
  filter (fun n => Bool.eqb (0 <? in_degree g n) i && Bool.eqb (0 <? out_degree g n) o) (g_nodes g).
Lemma make_processor_unfold g at_ creg :
  make_processor g at_ creg =
  match mk_units (g_nodes g) at_ creg with
  | None => LoadErr EAclAssert
  | Some um =>
      match make_desc (map (mp_model um) (mp_cls g false true)) (map (mp_fu g um) (mp_cls g true false))
                      (map (mp_model um) (mp_cls g false false)) (map (mp_fu g um) (mp_cls g true true)) with
      | Some P => LoadOk P
      | None => LoadErr ECycle
      end
  end.
Proof. reflexivity. Qed.

Lemma mk_units_name ns at_ creg : forall um, mk_units ns at_ creg = Some um -> forall n, u_name (mp_model um n) = n.
Proof. unfold mp_model. induction ns as [|n0 t IH]; intros um H n; simpl in H.
  - inversion H; subst. reflexivity.
  - destruct (std_mem (a_mem (attr_of at_ n0)) creg); [|discriminate].
    destruct (mk_units t at_ creg) as [um0|]; [|discriminate]. inversion H; subst. simpl.
    destruct (String.eqb_spec n n0) as [->|Hn]; [reflexivity|]. apply IH; auto. Qed.

Lemma mp_cls_In g i o n : In n (mp_cls g i o) <->
  In n (g_nodes g) /\ (0 <? in_degree g n) = i /\ (0 <? out_degree g n) = o.
Proof. unfold mp_cls. rewrite filter_In, andb_true_iff.
  destruct (0 <? in_degree g n), (0 <? out_degree g n), i, o; simpl; intuition congruence. Qed.

Lemma nonempty_l_length {A} (l : list A) : nonempty_l l = (0 <? length l).
Proof. destruct l; reflexivity. Qed.

Lemma make_processor_checks g at_ creg P : gwf g -> make_processor g at_ creg = LoadOk P ->
  C12_order_checkb P = true /\ C12_classify_checkb P = true.
Proof. intros Hw. rewrite make_processor_unfold.
  destruct (mk_units (g_nodes g) at_ creg) as [um|] eqn:Eu; [|discriminate].
  destruct (make_desc _ _ _ _) as [P'|] eqn:Ed; [|discriminate].
  intros HP; inversion HP; subst P'; clear HP.
  pose proof (mk_units_name _ _ _ _ Eu) as Hname.
  assert (Hfn : forall i o, map fname (map (mp_fu g um) (mp_cls g i o)) = mp_cls g i o).
  { intros i o. rewrite map_map. rewrite <- (map_id (mp_cls g i o)) at 2. apply map_ext.
    intros n. unfold fname. simpl. apply Hname. }
  assert (Hnd : NoDup (map fname (map (mp_fu g um) (mp_cls g true true)))).
  { rewrite Hfn. apply NoDup_filter. apply Hw. }
  destruct (make_desc_spec _ _ _ _ _ Hnd Ed) as [A1 [A2 [A3 [A4 [A5 A6]]]]].
  split; [eapply order_check; eauto|].
  (* the functional units of P are the nodes with a predecessor *)
  assert (HF : forall f, In f (funits P) <->
             exists s, In s (g_nodes g) /\ (0 <? in_degree g s) = true /\ f = norm_funit (mp_fu g um s)).
  { intros f. unfold funits. rewrite in_app_iff, A3. split.
    - intros [Hf|Hf].
      + apply isort_incl in Hf. rewrite map_map in Hf. apply in_map_iff in Hf.
        destruct Hf as [s [<- Hs]]. apply mp_cls_In in Hs. exists s. tauto.
      + apply (Permutation_in f A4) in Hf. rewrite map_map in Hf. apply in_map_iff in Hf.
        destruct Hf as [s [<- Hs]]. apply mp_cls_In in Hs. exists s. tauto.
    - intros [s [Hs1 [Hs2 ->]]]. destruct (0 <? out_degree g s) eqn:Eo.
      + right. apply (Permutation_in _ (Permutation_sym A4)). rewrite map_map.
        apply in_map_iff. exists s. split; auto. apply mp_cls_In. auto.
      + left. apply (Permutation_in _ (isort_perm funit_leb _)). rewrite map_map.
        apply in_map_iff. exists s. split; auto. apply mp_cls_In. auto. }
  assert (HS : forall u, nonempty_l (succs_of P u) = (0 <? out_degree g u)).
  { intros u. rewrite nonempty_l_length. unfold succs_of. rewrite map_length.
    destruct (0 <? out_degree g u) eqn:Eo.
    - apply Nat.ltb_lt in Eo. unfold out_degree in Eo.
      destruct (succs g u) as [|s l] eqn:Es; [simpl in Eo; lia|].
      assert (Hs : In s (succs g u)) by (rewrite Es; left; auto).
      assert (Hp : In u (preds g s)) by (apply (gwf_sym g Hw); auto).
      assert (Hf : In (norm_funit (mp_fu g um s)) (filter (fun f => mem_str u (f_preds f)) (funits P))).
      { apply filter_In. split.
        - apply HF. exists s. split; [apply (gwf_in g Hw) in Hs; tauto|]. split; auto.
          apply Nat.ltb_lt. unfold in_degree. destruct (preds g s); [destruct Hp|simpl; lia].
        - apply mem_str_In. simpl. apply sort_str_In; auto. }
      apply Nat.ltb_lt. destruct (filter _ (funits P)); [destruct Hf|simpl; lia].
    - apply Nat.ltb_ge. apply Nat.ltb_ge in Eo. unfold out_degree in Eo.
      destruct (filter (fun f => mem_str u (f_preds f)) (funits P)) as [|f l] eqn:Ef; [simpl; lia|].
      exfalso. assert (Hf : In f (filter (fun f => mem_str u (f_preds f)) (funits P))) by (rewrite Ef; left; auto).
      apply filter_In in Hf. destruct Hf as [Hf1 Hf2]. apply HF in Hf1. destruct Hf1 as [s [_ [_ ->]]].
      apply mem_str_In in Hf2. simpl in Hf2. rewrite sort_str_In in Hf2. apply (gwf_sym g Hw) in Hf2.
      destruct (succs g u); [destruct Hf2|simpl in Eo; lia]. }
  assert (HN : forall s, (0 <? in_degree g s) = true -> nonempty_l (f_preds (norm_funit (mp_fu g um s))) = true).
  { intros s Hs. rewrite nonempty_l_length. simpl. rewrite sort_str_length. exact Hs. }
  unfold C12_classify_checkb. rewrite A1, A2.
  repeat (apply andb_true_iff; split); apply forallb_forall.
  - intros u Hu. apply in_map_iff in Hu. destruct Hu as [n [<- Hn]]. apply mp_cls_In in Hn.
    rewrite HS, Hname. tauto.
  - intros u Hu. apply in_map_iff in Hu. destruct Hu as [n [<- Hn]]. apply mp_cls_In in Hn.
    rewrite HS, Hname. destruct Hn as [_ [_ ->]]. reflexivity.
  - intros f Hf. rewrite A3 in Hf. apply isort_incl in Hf. rewrite map_map in Hf. apply in_map_iff in Hf.
    destruct Hf as [n [<- Hn]]. apply mp_cls_In in Hn. destruct Hn as [_ [Hi Ho]].
    rewrite HN, HS; auto. simpl. rewrite Hname, Ho. reflexivity.
  - intros f Hf. apply (Permutation_in f A4) in Hf. rewrite map_map in Hf. apply in_map_iff in Hf.
    destruct Hf as [n [<- Hn]]. apply mp_cls_In in Hn. destruct Hn as [_ [Hi Ho]].
    rewrite HN, HS; auto. simpl. rewrite Hname, Ho. reflexivity. Qed.

Lemma C12_loaded_lemma :
  forall d P, load_proc_desc d = LoadOk P ->
    C12_order_checkb P = true /\ C12_classify_checkb P = true.
Proof. intros d P H. apply load_proc_desc_inv in H. destruct H as [g2 [at1 [creg [Hw H]]]].
  eapply make_processor_checks; eauto. Qed.

(* ---------- bonus (reusable): the graph handed to make_processor is also acyclic ---------- *)
Definition gsub (g' g : graph) : Prop := forall a b, In b (succs g' a) -> In b (succs g a).
Lemma gsub_refl g : gsub g g.
Proof. intros a b H; auto. Qed.
Lemma gsub_trans g1 g2 g3 : gsub g1 g2 -> gsub g2 g3 -> gsub g1 g3.
Proof. intros H1 H2 a b H. auto. Qed.
Lemma gsub_remove_edge g a b : gsub (remove_edge g a b) g.
Proof. intros x y H. apply remove_edge_succs in H. tauto. Qed.
Lemma gsub_remove_node g n : gsub (remove_node g n) g.
Proof. intros x y H. apply remove_node_succs in H. tauto. Qed.
Lemma gsub_fold {A} (f : graph -> A -> graph) l :
  (forall g x, gsub (f g x) g) -> forall g, gsub (fold_left f l g) g.
Proof. intros Hf. induction l; intros g; simpl; [apply gsub_refl|].
  eapply gsub_trans; [apply IHl|apply Hf]. Qed.
Lemma clean_edge_fold_sub at_ mine n : forall ps st, gsub (fst (fold_left (clean_edge at_ mine n) ps st)) (fst st).
Proof. induction ps as [|p t IH]; intros [g acc]; simpl; [apply gsub_refl|].
  eapply gsub_trans; [apply IH|]. destruct (inter mine (caps_of at_ p)); simpl;
  [apply gsub_remove_edge|apply gsub_refl]. Qed.
Lemma clean_unit_sub st n : gsub (fst (clean_unit st n)) (fst st).
Proof. destruct st as [g at_]. rewrite clean_unit_unfold. cbn [fst].
  destruct (preds g n) as [|p ps]; [apply gsub_refl|].
  pose proof (clean_edge_fold_sub at_ (caps_of at_ n) n (p :: ps) (g, [])) as Hf.
  destruct (fold_left (clean_edge at_ (caps_of at_ n) n) (p :: ps) (g, [])) as [g' new]. exact Hf. Qed.
Lemma clean_struct_sub order : forall st, gsub (fst (clean_struct order st)) (fst st).
Proof. unfold clean_struct. induction order as [|n t IH]; intros st; simpl; [apply gsub_refl|].
  eapply gsub_trans; [apply IH|apply clean_unit_sub]. Qed.
Lemma rm_empty_units_sub st : gsub (fst (rm_empty_units st)) (fst st).
Proof. destruct st as [g at_]. simpl. apply gsub_fold. intros g0 x.
  destruct (caps_of at_ x); [apply gsub_remove_node|apply gsub_refl]. Qed.
Lemma chk_terminals_sub fuel : forall g oi oo g', chk_terminals fuel g oi oo = inl g' -> gsub g' g.
Proof. induction fuel as [|f IH]; intros g oi oo g' H; cbn [chk_terminals] in H.
  - inversion H; subst. apply gsub_refl.
  - destruct (filter (fun n => negb (mem_str n oo)) (out_ports_of g)) as [|x new] eqn:E.
    + inversion H; subst. apply gsub_refl.
    + destruct (filter (fun n => mem_str n oi) (x :: new)); [|discriminate].
      apply IH in H. eapply gsub_trans; [apply H|]. apply gsub_fold. apply gsub_remove_node. Qed.

(* g: the graph of the description as built by _create_graph; g2: the pruned graph *)
Lemma load_proc_desc_graphs d P : load_proc_desc d = LoadOk P ->
  exists s g order g1 at1 g2,
    add_units (d_units d) {| gs_g := g_empty; gs_at := []; gs_ureg := []; gs_creg := [] |} = inl s /\
    add_edges (d_edges d) (gs_ureg s) (gs_g s) = inl g /\ topo_sort g = Some order /\
    rm_empty_units (clean_struct order (g, gs_at s)) = (g1, at1) /\
    chk_terminals (S (length (g_nodes g1))) g1 (in_ports_of g) (out_ports_of g) = inl g2 /\
    gwf g /\ acyclic g /\ gwf g1 /\ gwf g2 /\ gsub g2 g /\ acyclic g2 /\
    make_processor g2 at1 (gs_creg s) = LoadOk P.
Proof. unfold load_proc_desc.
  destruct (add_units (d_units d) _) as [s|e] eqn:E1; [|discriminate].
  destruct (add_edges (d_edges d) (gs_ureg s) (gs_g s)) as [g|e] eqn:E2; [|discriminate].
  destruct (topo_sort g) as [order|] eqn:E3; [|discriminate].
  destruct (rm_empty_units (clean_struct order (g, gs_at s))) as [g1 at1] eqn:E4.
  destruct (chk_terminals (S (length (g_nodes g1))) g1 (in_ports_of g) (out_ports_of g)) as [g2|e] eqn:E5;
    [|discriminate].
  destruct (filter (fun p => has_node g2 p) (in_ports_of g)); [discriminate|].
  destruct (do_cap_checks g2 at1 (dfs_postorder g2) (out_ports_of g2) (cap_units g2 at1)); [discriminate|].
  intros H. exists s, g, order, g1, at1, g2.
  assert (Hg : gwf g).
  { pose proof (add_units_gwf _ _ _ E1 gwf_empty). eapply add_edges_gwf; eauto. }
  assert (Hg1 : gwf g1).
  { change g1 with (fst (g1, at1)). rewrite <- E4. apply rm_empty_units_gwf, clean_struct_gwf. auto. }
  assert (Hs1 : gsub g1 g).
  { change g1 with (fst (g1, at1)). rewrite <- E4.
    eapply gsub_trans; [apply rm_empty_units_sub|]. apply (clean_struct_sub order (g, gs_at s)). }
  assert (Hs2 : gsub g2 g) by (eapply gsub_trans; [eapply chk_terminals_sub; eauto|auto]).
  assert (Ha : acyclic g) by (eapply topo_sort_some_acyclic; eauto).
  repeat (split; [auto; fail|]).
  split; [eapply chk_terminals_gwf; eauto|]. split; auto. split; auto.
  eapply acyclic_sub; eauto. Qed.
