(* C08_recon.v -- the checker clauses of C08 other than the bound:
   - a cycle depends on the queue map only through `assoc [] qs reg` (queue congruence);
   - the state reconstructed from the diagram of a reachable state agrees with that state on table,
     entered, exited and (HZ_recon.recon_assoc) pointwise on the queues;
   - consecutive records of a reachable table differ. *)
From Coq Require Import Lia.
From PS Require Import Base Bag RegAccess Sim Diag Lists Run C03_lists C03_step C03_track C03_proof.
From PS Require Import HZ_queue HZ_plan HZ_diag HZ_haz HZ_inv HZ_recon.
Close Scope string_scope.

(* ================= queue congruence ================= *)
Definition qeq (q1 q2 : queues) : Prop := forall reg, assoc [] q1 reg = assoc [] q2 reg.

Lemma all_access_ext q1 q2 ty i : qeq q1 q2 -> forall regs, all_access q1 ty i regs = all_access q2 ty i regs.
Proof. intros H. induction regs as [|r t IH]; cbn [all_access]; auto. rewrite (H r).
  destruct (can_access (assoc [] q2 r) ty i) as [[|]|]; auto. Qed.

Lemma regs_avail_ext q1 q2 u i ins : qeq q1 q2 -> regs_avail u i ins q1 = regs_avail u i ins q2.
Proof. intros H. unfold regs_avail.
  rewrite (all_access_ext q1 q2 RD i H), (all_access_ext q1 q2 WR i H). reflexivity. Qed.

Lemma stall_unit_ext q1 q2 u old prog : qeq q1 q2 ->
  forall es cl, stall_unit u old prog q1 es cl = stall_unit u old prog q2 es cl.
Proof. intros H. induction es as [|[i l] t IH]; intros cl; cbn [stall_unit]; auto.
  destruct (regs_loaded old i).
  - rewrite IH. reflexivity.
  - destruct (nth_error prog i) as [ins|]; auto. rewrite (regs_avail_ext q1 q2 u i ins H).
    destruct (regs_avail u i ins q2) as [[regs|]|]; auto; rewrite IH; reflexivity. Qed.

Lemma hazards_ext P old prog q1 q2 : qeq q1 q2 ->
  forall r cl, chk_hazards_units P old prog q1 r cl = chk_hazards_units P old prog q2 r cl.
Proof. intros H. induction r as [|[n es] t IH]; intros cl; cbn [chk_hazards_units]; auto.
  destruct es as [|e es].
  - rewrite IH. reflexivity.
  - destruct (find_unit P n) as [u|]; auto. rewrite (stall_unit_ext q1 q2 u (get old n) prog H).
    destruct (stall_unit u (get old n) prog q2 (e :: es) cl) as [[es' c']|]; auto. rewrite IH. reflexivity. Qed.

Lemma apply_clears_ext : forall cl q1 q2, qeq q1 q2 ->
  match apply_clears q1 cl, apply_clears q2 cl with
  | Ok a, Ok b => qeq a b
  | Err e1, Err e2 => e1 = e2
  | _, _ => False
  end.
Proof. induction cl as [|c cl IH]; intros q1 q2 H; cbn [apply_clears]; auto.
  rewrite (H (fst c)). destruct (dequeue (assoc [] q2 (fst c)) (snd c)) as [q'|e]; auto.
  apply IH. intros reg. rewrite !assoc_set. destruct (String.eqb reg (fst c)); auto. Qed.

Lemma run_cycle_stalled_ext P prog s1 s2 d :
  tbl s1 = tbl s2 -> entered s1 = entered s2 -> qeq (qs_ s1) (qs_ s2) ->
  run_cycle P prog s1 = inr (Stalled d) -> exists d', run_cycle P prog s2 = inr (Stalled d').
Proof. intros Ht He Hq. unfold run_cycle. rewrite <- Ht, <- He.
  destruct (mov_flights P prog (last (tbl s1) [])) as [r1 busy].
  destruct (fill_inputs (S (length prog)) prog (in_ports_sorted P) r1 busy (entered s1)) as [r2 ent].
  rewrite <- (hazards_ext P (last (tbl s1) []) prog _ _ Hq r2 []).
  destruct (chk_hazards_units P (last (tbl s1) []) prog (qs_ s1) r2 []) as [[r3 cl]|e]; [|discriminate].
  pose proof (apply_clears_ext cl _ _ Hq) as G.
  destruct (apply_clears (qs_ s1) cl) as [qa|e1]; [|discriminate].
  destruct (apply_clears (qs_ s2) cl) as [qb|e2]; [|destruct G].
  destruct (bag_eqb r3 (last (tbl s1) [])); [|discriminate]. eauto. Qed.

(* ================= counting ================= *)
Lemma filter_ltb_seq e n : e <= n -> length (filter (fun i => i <? e) (seq 0 n)) = e.
Proof. intros H. replace n with (e + (n - e)) by lia. rewrite seq_app, filter_app, app_length.
  rewrite filter_all, seq_length.
  - rewrite filter_none; [simpl; lia|]. intros x Hx. apply in_seq in Hx. apply Nat.ltb_ge. lia.
  - intros x Hx. apply in_seq in Hx. apply Nat.ltb_lt. lia. Qed.

Lemma fold_left_add_app {A} (g : A -> nat) l1 l2 a :
  fold_left (fun n r => n + g r) (l1 ++ l2) a = fold_left (fun n r => n + g r) l2 (fold_left (fun n r => n + g r) l1 a).
Proof. apply fold_left_app. Qed.

Section Recon.
Variables (P : proc) (prog : list instr).
Hypothesis Hwf : wf_procb P = true.
Hypothesis Hwp : wf_progb prog = true.

Lemma retired_exited s : reach P prog s -> retired_count P (tbl s) = exited s.
Proof. induction 1 as [|s s' Hr IH Hc Hrun]; [reflexivity|].
  destruct (run_cycle_inl _ _ _ _ Hrun) as (r1 & busy & r2 & ent & r3 & cl & qs' & _ & _ & _ & _ & _ & ->).
  cbn [tbl exited]. unfold retired_count in *. rewrite fold_left_app, IH. reflexivity. Qed.

Lemma appears_entered s i : reach P prog s -> (appears (tbl s) i = true <-> i < entered s).
Proof. intros Hr. destruct (reach_SI P Hwf prog s Hr) as (HR & HT & _ & _). rewrite appears_track. split.
  - apply (track_lt prog); auto.
  - destruct (HT i) as (_ & _ & _ & T4 & _). exact T4. Qed.

Lemma issued_entered s : reach P prog s -> issued_count prog (tbl s) = entered s.
Proof. intros Hr. unfold issued_count.
  rewrite (filter_ext_in' (appears (tbl s)) (fun i => i <? entered s)).
  - apply filter_ltb_seq. destruct (reach_RI P Hwf prog s Hr) as [_ Hle]. exact Hle.
  - intros a _. apply bool_eq_iff. rewrite (appears_entered s a Hr), Nat.ltb_lt. tauto. Qed.

Lemma exited_le_entered s : reach P prog s -> exited s <= entered s.
Proof. intros Hr. destruct (reach_SI P Hwf prog s Hr) as (_ & _ & _ & (L & Hnd & Hlen & HL)).
  rewrite <- Hlen. rewrite <- (seq_length (entered s) 0). apply NoDup_incl_length; auto.
  intros x Hx. apply in_seq. destruct (HL x Hx). lia. Qed.

(* the reconstructed state, clause by clause *)
Lemma recon_entered s : reach P prog s -> entered (recon_state P prog (tbl s)) = entered s.
Proof. intros Hr. cbn [recon_state entered]. apply issued_entered; auto. Qed.
Lemma recon_exited s : reach P prog s -> exited (recon_state P prog (tbl s)) = exited s.
Proof. intros Hr. cbn [recon_state exited]. apply retired_exited; auto. Qed.
Lemma recon_qeq s : reach P prog s -> qeq (qs_ s) (qs_ (recon_state P prog (tbl s))).
Proof. intros Hr reg. cbn [recon_state qs_]. symmetry. apply (recon_assoc P prog Hwf Hwp s reg Hr). Qed.

Lemma recon_done s : reach P prog s -> loop_cond prog s = false ->
  let s' := recon_state P prog (tbl s) in
  (entered s' =? length prog) && (exited s' =? entered s') = true.
Proof. intros Hr Hc. cbv zeta. rewrite (recon_entered s Hr), (recon_exited s Hr).
  unfold loop_cond in Hc. apply orb_false_iff in Hc. destruct Hc as [H1 H2]. apply Nat.ltb_ge in H1, H2.
  destruct (reach_RI P Hwf prog s Hr) as [_ Hle]. pose proof (exited_le_entered s Hr).
  apply andb_true_iff. split; apply Nat.eqb_eq; lia. Qed.

Lemma recon_stalled s d : reach P prog s -> loop_cond prog s = true -> run_cycle P prog s = inr (Stalled d) ->
  let s' := recon_state P prog (tbl s) in
  ((entered s' <? length prog) || (exited s' <? entered s'))
  && match run_cycle P prog s' with inr (Stalled _) => true | _ => false end = true.
Proof. intros Hr Hc Hrun. cbv zeta. rewrite (recon_entered s Hr), (recon_exited s Hr).
  unfold loop_cond in Hc. rewrite Hc. cbn [andb].
  destruct (run_cycle_stalled_ext P prog s (recon_state P prog (tbl s)) d) as [d' ->]; auto.
  - symmetry. apply recon_entered; auto.
  - apply recon_qeq; auto. Qed.

(* consecutive records differ *)
Lemma reach_records_differ s : reach P prog s -> records_differ (tbl s) = true.
Proof. intros Hr. unfold records_differ. apply forallb_forall. intros t Ht. apply in_seq in Ht.
  destruct Ht as [_ Ht]. cbn [plus] in Ht.
  destruct (reach_tbl_prefix P prog s Hr t Ht) as (s0 & s1 & Hr0 & _ & Hrun & Ht0 & Ht1 & Hn).
  destruct (run_cycle_inl _ _ _ _ Hrun) as (r1 & busy & r2 & ent & r3 & cl & qs' & _ & _ & _ & _ & Hne & E).
  assert (E1 : rec_at (tbl s) t = r3).
  { unfold rec_at. rewrite Hn, E. cbn [tbl]. apply last_last. }
  assert (E0 : last (tbl s0) [] = match t with 0 => [] | S t' => rec_at (tbl s) t' end).
  { rewrite Ht0. destruct t as [|t']; [reflexivity|]. unfold rec_at. apply last_firstn. lia. }
  rewrite E1, <- E0, Hne. reflexivity. Qed.

(* all clauses of C08_checkb except the bound *)
Definition C08_checkb_nobound (tg : dtag) (d : diagram) : bool :=
  records_differ d
  && match tg with
     | TDone =>
         let s := recon_state P prog d in
         (entered s =? length prog) && (exited s =? entered s)
     | TStalled =>
         let s := recon_state P prog d in
         ((entered s <? length prog) || (exited s <? entered s))
         && match run_cycle P prog s with inr (Stalled _) => true | _ => false end
     | TOther => false
     end.

Lemma C08_checkb_split tg d :
  C08_checkb P prog tg d = (length d <=? cycle_bound P prog) && C08_checkb_nobound tg d.
Proof. unfold C08_checkb, C08_checkb_nobound. rewrite andb_assoc. reflexivity. Qed.

Lemma checker_nobound fuel tg d : sim_result fuel P prog tg d -> C08_checkb_nobound tg d = true.
Proof. intros [[-> H]|[-> H]]; unfold C08_checkb_nobound.
  - apply simulate_done in H. destruct H as (s & Hr & <- & Hc).
    rewrite (reach_records_differ s Hr). cbn [andb]. apply recon_done; auto.
  - apply simulate_stalled in H. destruct H as (s & Hr & <- & Hc & Hrun).
    rewrite (reach_records_differ s Hr). cbn [andb]. eapply recon_stalled; eauto. Qed.

End Recon.

Lemma C08_checker_accepts_partial_lemma :
  forall (P : proc) (prog : list instr) (fuel : nat) (tg : dtag) (d : diagram),
    wf_procb P = true -> wf_progb prog = true -> sim_result fuel P prog tg d ->
    C08_checkb_nobound P prog tg d = true.
Proof. intros P prog fuel tg d Hwf Hwp H. eapply checker_nobound; eauto. Qed.
