(* C08_phi.v -- the potential argument: every successful cycle strictly increases a potential that
   is bounded by  length prog * (3 * nunits P + 1), hence reachable tables are that short. *)
From Coq Require Import Lia Permutation.
From PS Require Import Base Bag RegAccess Sim Diag Lists Run C03_lists C03_step C03_track C03_proof.
From PS Require Import C17_proof.
Close Scope string_scope.

(* ================= sums ================= *)
Lemma sum_le (f g : nat -> nat) : forall l, (forall i, In i l -> f i <= g i) ->
  list_sum (map f l) <= list_sum (map g l).
Proof. induction l as [|a l IH]; intros H; simpl; [lia|].
  pose proof (H a (or_introl eq_refl)). assert (list_sum (map f l) <= list_sum (map g l)) by (apply IH; intros; apply H; right; auto).
  lia. Qed.
Lemma sum_eq_pointwise (f g : nat -> nat) : forall l, (forall i, In i l -> f i <= g i) ->
  list_sum (map f l) = list_sum (map g l) -> forall i, In i l -> f i = g i.
Proof. induction l as [|a l IH]; intros H E i Hi; [destruct Hi|]. simpl in E.
  pose proof (H a (or_introl eq_refl)).
  assert (Hl : forall i, In i l -> f i <= g i) by (intros; apply H; right; auto).
  pose proof (sum_le f g l Hl). destruct Hi as [<-|Hi]; [lia|]. apply IH; auto. lia. Qed.
Lemma sum_bound (f : nat -> nat) R : forall l, (forall i, In i l -> f i <= R) -> list_sum (map f l) <= length l * R.
Proof. induction l as [|a l IH]; intros H; simpl; [lia|].
  pose proof (H a (or_introl eq_refl)). assert (list_sum (map f l) <= length l * R) by (apply IH; intros; apply H; right; auto).
  lia. Qed.

Lemma idx_le x : forall l, idx x l <= length l.
Proof. induction l as [|y t IH]; simpl; [lia|]. destruct (String.eqb x y); lia. Qed.

Lemma NoDup_of_map {A B} (g : A -> B) (l : list A) : NoDup (map g l) -> NoDup l.
Proof. induction l as [|a l IH]; simpl; intros H; [constructor|]. inversion H; subst. constructor; auto.
  intros Hin. apply H2. apply in_map; auto. Qed.

Section Phi.
Variables (P : proc) (prog : list instr).
Hypothesis Hwf : wf_procb P = true.

Definition NF : nat := length (funits P).
Definition pos (u : string) : nat := NF - rk P u.
Definition lv (l : label) : nat := match l with LD => 0 | LU => 1 | LS => 2 end.
Definition RR : nat := 3 * nunits P + 1.

Lemma rk_le u : rk P u <= NF.
Proof. unfold rk, NF. pose proof (idx_le u (map fname (funits P))) as H. rewrite map_length in H. exact H. Qed.
Lemma pos_lt p u : In p (preds_of P u) -> pos p < pos u.
Proof. intros H. apply (rk_lt P Hwf) in H. pose proof (rk_le p). unfold pos. lia. Qed.
Lemma pos_le u : pos u <= NF.
Proof. unfold pos. lia. Qed.
Lemma in_names_pos x u : In x (in_names P) -> pos u < nunits P.
Proof. intros H. pose proof (pos_le u) as Hp. unfold in_names in H. apply in_map_iff in H. destruct H as (y & _ & Hy).
  assert (1 <= length (p_in P ++ p_inout P)) by (destruct (p_in P ++ p_inout P); [destruct Hy|simpl; lia]).
  unfold nunits, all_units, NF, funits in *. rewrite !app_length, !map_length in *. lia. Qed.

Definition rankI (r : record) (ent i : nat) : nat :=
  if ent <=? i then 0
  else match places r i with [] => RR | (u, l) :: _ => 1 + 3 * pos u + lv l end.
Definition Phi (s : state) : nat :=
  list_sum (map (rankI (last (tbl s) []) (entered s)) (seq 0 (length prog))).

Lemma rankI_out r ent i : ent <= i -> rankI r ent i = 0.
Proof. intros H. unfold rankI. destruct (Nat.leb_spec ent i); auto. lia. Qed.
Lemma rankI_in r ent i u l : Kq r -> Uq r -> i < ent -> In (i, l) (get r u) ->
  rankI r ent i = 1 + 3 * pos u + lv l.
Proof. intros HK HU Hi Hin. unfold rankI. destruct (Nat.leb_spec ent i); [lia|].
  destruct (places_spec r i HK HU) as [[_ Hno]|(u' & l' & -> & Hin')].
  - exfalso. apply Hno. exists u, l. auto.
  - destruct (Uq_same _ _ _ _ _ _ HU Hin Hin') as [<- <-]. reflexivity. Qed.
Lemma rankI_gone r ent i : Kq r -> Uq r -> i < ent -> ~ inrec r i -> rankI r ent i = RR.
Proof. intros HK HU Hi Hno. unfold rankI. destruct (Nat.leb_spec ent i); [lia|].
  destruct (places_spec r i HK HU) as [[-> _]|(u' & l' & _ & Hin')]; auto.
  exfalso. apply Hno. exists u', l'. auto. Qed.

Lemma lv_le l : lv l <= 2. Proof. destruct l; simpl; lia. Qed.

(* an in-flight instruction sits in a unit whose position is below the number of units *)
Lemma inflight_pos s u i l : reach P prog s -> In (i, l) (get (last (tbl s) []) u) -> pos u < nunits P.
Proof. intros Hr Hin. destruct (reach_SI P Hwf prog s Hr) as (HR & HT & _ & _).
  pose proof (RI_last prog s HR) as (_ & _ & Hlt).
  assert (Hi : i < entered s) by (apply Hlt; exists u, l; auto).
  destruct (HT i) as (_ & _ & _ & T4 & T5 & _). specialize (T4 Hi).
  destruct (track (tbl s) i) as [|x t] eqn:E; [congruence|].
  destruct (T5 x t eq_refl) as [G _]. eapply in_names_pos; eauto. Qed.

Lemma rankI_bound s i : reach P prog s -> rankI (last (tbl s) []) (entered s) i <= RR.
Proof. intros Hr. pose proof (RI_last prog s (reach_RI P Hwf prog s Hr)) as (HK & HU & Hlt).
  destruct (Nat.le_gt_cases (entered s) i) as [Hi|Hi]; [rewrite rankI_out by auto; lia|].
  destruct (places_spec (last (tbl s) []) i HK HU) as [[_ Hno]|(u & l & _ & Hin)].
  - rewrite rankI_gone; auto.
  - rewrite (rankI_in _ _ _ u l) by auto. pose proof (inflight_pos s u i l Hr Hin). pose proof (lv_le l).
    unfold RR. lia. Qed.

Lemma Phi_bound s : reach P prog s -> Phi s <= length prog * RR.
Proof. intros Hr. unfold Phi. rewrite <- (seq_length (length prog) 0) at 2. apply sum_bound.
  intros i _. apply rankI_bound; auto. Qed.

(* ---------- one successful cycle ---------- *)
Lemma Phi_step s s' : reach P prog s -> run_cycle P prog s = inl s' -> Phi s < Phi s'.
Proof. intros Hr Hrun. pose proof (reach_RI P Hwf prog s Hr) as HR.
  destruct (RI_step P Hwf prog s s' HR Hrun) as (r3 & Htbl & HR' & Hent & _ & S4 & S1 & S2 & S3).
  cbv zeta in S4, S1, S2, S3.
  pose proof (RI_last prog s HR) as (HKo & HUo & Hlto).
  pose proof (RI_last prog s' HR') as (HK3 & HU3 & Hlt3).
  assert (Hlast' : last (tbl s') [] = r3) by (rewrite Htbl; apply last_last).
  rewrite Hlast' in HK3, HU3, Hlt3.
  assert (Hle' : entered s' <= length prog) by (destruct HR'; auto).
  assert (Hne : bag_eqb r3 (last (tbl s) []) = false).
  { destruct (run_cycle_inl _ _ _ _ Hrun) as (r1 & busy & r2 & ent & r3' & cl & qs' & _ & _ & _ & _ & Hb & E).
    rewrite E in Htbl. cbn [tbl] in Htbl. apply app_inj_tail in Htbl. destruct Htbl as [_ ->]. exact Hb. }
  set (old := last (tbl s) []) in *. set (ent := entered s) in *. set (ent' := entered s') in *.
  assert (Hgone : forall i, i < ent -> ~ inrec old i -> ~ inrec r3 i).
  { intros i Hi Hno (u & l' & Hin).
    destruct (S1 _ _ _ Hin) as [(l & G & _)|[(_ & h & l & _ & G & _)|(_ & G & _)]].
    - apply Hno. exists u, l; auto.
    - apply Hno. exists h, l; auto.
    - lia. }
  (* per-instruction monotonicity, with the equality case *)
  assert (Hmono : forall i, rankI old ent i <= rankI r3 ent' i /\
            (rankI old ent i = rankI r3 ent' i ->
             (ent <= i -> ent' <= i) /\ (forall u l, In (i, l) (get old u) <-> In (i, l) (get r3 u)))).
  { intros i. destruct (Nat.le_gt_cases ent' i) as [Hi'|Hi'].
    { rewrite !rankI_out by lia. split; auto. intros _. split; auto. intros u l. split; intros Hin; exfalso.
      - assert (i < ent) by (apply Hlto; exists u, l; auto). lia.
      - assert (i < ent') by (apply Hlt3; exists u, l; auto). lia. }
    destruct (Nat.le_gt_cases ent i) as [Hi|Hi].
    { rewrite (rankI_out old) by lia. destruct (S4 i (conj Hi Hi')) as (u & l & Hin).
      rewrite (rankI_in r3 ent' i u l) by auto. split; [lia|]. intros E. lia. }
    destruct (places_spec old i HKo HUo) as [[_ Hno]|(u & l & _ & Hin)].
    { pose proof (Hgone i Hi Hno) as Hno3. rewrite !rankI_gone by auto. split; auto. intros _. split; [lia|].
      intros u l. split; intros Hin; exfalso; [apply Hno|apply Hno3]; exists u, l; auto. }
    rewrite (rankI_in old ent i u l) by auto.
    pose proof (inflight_pos s u i l Hr Hin) as Hpos. pose proof (lv_le l) as Hlv.
    destruct (S2 _ _ _ Hin) as [(u' & l' & Hin')|(Hu & Hl & Hno3)].
    2:{ rewrite rankI_gone by auto. unfold RR. split; [lia|]. intros E. exfalso.
        destruct l; [congruence|simpl in E; lia..]. }
    rewrite (rankI_in r3 ent' i u' l') by auto.
    assert (Hiff : u' = u -> l' = l -> forall v x, In (i, x) (get old v) <-> In (i, x) (get r3 v)).
    { intros -> -> v x. split; intros Hx.
      - destruct (Uq_same _ _ _ _ _ _ HUo Hin Hx) as [<- <-]. auto.
      - destruct (Uq_same _ _ _ _ _ _ HU3 Hin' Hx) as [<- <-]. auto. }
    destruct (S1 _ _ _ Hin') as [(l0 & G & G2 & G3 & G4)|[(Hl' & h & l0 & Hp & G & Hl0 & _)|(_ & G & _)]].
    - destruct (Uq_same _ _ _ _ _ _ HUo Hin G) as [<- <-].
      destruct l.
      + specialize (G4 eq_refl). destruct l'; [|congruence|]; simpl.
        * split; [lia|]. intros _. split; [lia|]. apply Hiff; auto.
        * split; [lia|]. intros E; lia.
      + rewrite G3 by discriminate. simpl. split; [lia|]. intros _. split; [lia|]. apply Hiff; auto.
        apply G3. discriminate.
      + rewrite G3 by discriminate. simpl. split; [lia|]. intros E; lia.
    - destruct (Uq_same _ _ _ _ _ _ HUo Hin G) as [<- <-]. apply pos_lt in Hp.
      assert (lv l' <= 2) by apply lv_le. split; [lia|]. intros E. lia.
    - lia. }
  unfold Phi. fold old ent ent'. rewrite Hlast'.
  assert (Hle : list_sum (map (rankI old ent) (seq 0 (length prog))) <=
                list_sum (map (rankI r3 ent') (seq 0 (length prog)))).
  { apply sum_le. intros i _. apply Hmono. }
  destruct (Nat.eq_dec (list_sum (map (rankI old ent) (seq 0 (length prog))))
                       (list_sum (map (rankI r3 ent') (seq 0 (length prog))))) as [E|E]; [|lia].
  exfalso.
  assert (Heq : forall i, i < length prog -> rankI old ent i = rankI r3 ent' i).
  { intros i Hi. apply (sum_eq_pointwise _ _ (seq 0 (length prog))); auto.
    - intros j _. apply Hmono.
    - apply in_seq. lia. }
  assert (Hperm : forall k, Permutation (get r3 k) (get old k)).
  { intros k. apply NoDup_Permutation.
    - apply (NoDup_of_map fst). apply HU3.
    - apply (NoDup_of_map fst). apply HUo.
    - intros [i l]. split; intros Hin.
      + assert (Hi : i < length prog) by (assert (i < ent') by (apply Hlt3; exists k, l; auto); lia).
        apply (proj2 (proj2 (Hmono i) (Heq i Hi))). exact Hin.
      + assert (Hi : i < length prog).
        { assert (i < ent) by (apply Hlto; exists k, l; auto). lia. }
        apply (proj2 (proj2 (Hmono i) (Heq i Hi))). exact Hin. }
  apply (C17_eq_iff_lemma r3 old HK3 HKo) in Hperm. congruence. Qed.

Lemma tbl_le_Phi s : reach P prog s -> length (tbl s) <= Phi s.
Proof. induction 1 as [|s s' Hr IH Hc Hrun]; [simpl; lia|].
  pose proof (Phi_step s s' Hr Hrun).
  destruct (run_cycle_inl _ _ _ _ Hrun) as (r1 & busy & r2 & ent & r3 & cl & qs' & _ & _ & _ & _ & _ & E).
  rewrite E at 1. cbn [tbl]. rewrite app_length. simpl. lia. Qed.

Lemma tbl_bound s : reach P prog s -> length (tbl s) <= length prog * (3 * nunits P + 1).
Proof. intros Hr. pose proof (tbl_le_Phi s Hr). pose proof (Phi_bound s Hr). unfold RR in *. lia. Qed.

End Phi.
