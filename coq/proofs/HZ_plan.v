(* HZ_plan.v -- the access plan of a register is `grp (accs prog reg)`, where `accs prog reg` lists the
   accesses to reg in program order (READ of instruction i before its WRITE); for duplicate-free
   sources this list is strictly sorted by `key`. *)
From Coq Require Import Lia.
From PS Require Import Base Bag RegAccess Sim Diag Lists C03_lists HZ_queue.

(* ---------- qb_append / build_queue on grp ---------- *)
Lemma qb_append_cons g q ty o : q <> [] -> qb_append (g :: q) ty o = g :: qb_append q ty o.
Proof. destruct q; [congruence|reflexivity]. Qed.
Lemma grp_RD_unfold o t :
  grp ((RD, o) :: t) = match grp t with
                       | g :: q' => match g_ty g with
                                    | RD => mkG RD (o :: g_reqs g) :: q'
                                    | WR => mkG RD [o] :: g :: q'
                                    end
                       | [] => [mkG RD [o]]
                       end.
Proof. reflexivity. Qed.
Lemma set_add_cons o p l : o <> p -> set_add o (p :: l) = p :: set_add o l.
Proof. intros H. unfold set_add. cbn [memn existsb]. destruct (Nat.eqb_spec o p); [contradiction|].
  cbn [orb]. fold (memn o l). destruct (memn o l); reflexivity. Qed.

Lemma qb_append_grp : forall M ty o, ~ In (ty, o) M -> qb_append (grp M) ty o = grp (M ++ [(ty, o)]).
Proof. induction M as [|[[|] p] t IH]; intros ty o Hn.
  - destruct ty; reflexivity.
  - assert (Hn' : ~ In (ty, o) t) by (intros H; apply Hn; right; auto).
    specialize (IH ty o Hn'). cbn [app]. rewrite !grp_RD_unfold, <- IH.
    destruct (grp t) as [|g q'] eqn:Eg.
    + destruct ty; cbn [qb_append aty_eqb andb g_ty g_reqs]; auto.
      rewrite set_add_cons; [reflexivity|]. intros ->. apply Hn. left; auto.
    + destruct g as [gt gr]. destruct gt; cbn [g_ty g_reqs].
      * destruct q' as [|g2 q''].
        -- destruct ty; cbn [qb_append aty_eqb andb g_ty g_reqs]; auto.
           rewrite set_add_cons; [reflexivity|]. intros ->. apply Hn. left; auto.
        -- rewrite !qb_append_cons by discriminate. reflexivity.
      * rewrite qb_append_cons by discriminate.
        destruct q' as [|g2 q''].
        -- cbn [qb_append g_ty aty_eqb]. rewrite andb_false_r. reflexivity.
        -- rewrite (qb_append_cons _ (g2 :: q'')) by discriminate. reflexivity.
  - assert (Hn' : ~ In (ty, o) t) by (intros H; apply Hn; right; auto).
    specialize (IH ty o Hn'). cbn [app]. rewrite !grp_WR, <- IH.
    destruct (grp t) as [|g q'] eqn:Eg.
    + cbn [qb_append g_ty aty_eqb]. rewrite andb_false_r. reflexivity.
    + rewrite qb_append_cons by discriminate. reflexivity. Qed.

Lemma build_queue_grp_gen : forall L M, NoDup (M ++ L) ->
  fold_left (fun q (r : acc) => qb_append q (fst r) (snd r)) L (grp M) = grp (M ++ L).
Proof. induction L as [|[ty o] L IH]; intros M H; cbn [fold_left fst snd].
  - rewrite app_nil_r. auto.
  - rewrite qb_append_grp.
    + rewrite IH; rewrite <- app_assoc; [reflexivity|exact H].
    + intros Hin. eapply NoDup_app_disj; eauto. left; auto. Qed.
Lemma build_queue_grp L : NoDup L -> build_queue L = grp L.
Proof. intros H. unfold build_queue, qb_create. apply (build_queue_grp_gen L [] H). Qed.

(* ---------- the plan of a register ---------- *)
Definition iaccs (reg : string) (i : nat) (ins : instr) : list acc :=
  flat_map (fun s => if String.eqb s reg then [(RD, i)] else []) (i_srcs ins)
  ++ (if String.eqb (i_dst ins) reg then [(WR, i)] else []).
Fixpoint paccs (reg : string) (k : nat) (prog : list instr) : list acc :=
  match prog with [] => [] | ins :: t => iaccs reg k ins ++ paccs reg (S k) t end.
Definition accs (prog : list instr) (reg : string) : list acc := paccs reg 0 prog.

Lemma assoc_set {A} (d : A) l k v k' : assoc d (set l k v) k' = if String.eqb k' k then v else assoc d l k'.
Proof. induction l as [|[k2 v2] t IH]; cbn [set assoc].
  - destruct (String.eqb k' k); reflexivity.
  - destruct (String.eqb_spec k k2) as [->|Hne]; cbn [assoc].
    + destruct (String.eqb k' k2); reflexivity.
    + rewrite IH. destruct (String.eqb_spec k' k2) as [->|Hne2]; auto.
      destruct (String.eqb_spec k2 k); [congruence|reflexivity]. Qed.

Definition qapp (q : queue) (r : acc) : queue := qb_append q (fst r) (snd r).
Lemma fold_app {A B} (f : A -> B -> A) l1 l2 a : fold_left f (l1 ++ l2) a = fold_left f l2 (fold_left f l1 a).
Proof. apply fold_left_app. Qed.

Lemma srcs_fold reg i : forall srcs qs,
  assoc [] (fold_left (fun qs r => q_append qs r RD i) srcs qs) reg =
  fold_left qapp (flat_map (fun s => if String.eqb s reg then [(RD, i)] else []) srcs) (assoc [] qs reg).
Proof. induction srcs as [|s srcs IH]; intros qs; cbn [fold_left flat_map]; auto.
  rewrite IH, fold_app. f_equal. unfold q_append. rewrite assoc_set.
  rewrite (String.eqb_sym reg s). destruct (String.eqb_spec s reg) as [->|Hne]; reflexivity. Qed.

Lemma plan_fold reg : forall prog k qs,
  assoc [] (snd (fold_left add_access prog (k, qs))) reg = fold_left qapp (paccs reg k prog) (assoc [] qs reg).
Proof. induction prog as [|ins prog IH]; intros k qs; cbn [fold_left paccs]; auto.
  cbn [add_access]. rewrite IH, fold_app. f_equal. unfold iaccs. rewrite fold_app.
  unfold q_append at 1. rewrite assoc_set. rewrite (String.eqb_sym reg (i_dst ins)).
  destruct (String.eqb_spec (i_dst ins) reg) as [->|Hne]; rewrite srcs_fold; reflexivity. Qed.

Lemma plan_assoc prog reg : assoc [] (build_acc_plan prog) reg = build_queue (accs prog reg).
Proof. unfold build_acc_plan, build_queue, qb_create, accs. rewrite plan_fold. reflexivity. Qed.

(* ---------- membership ---------- *)
Lemma iaccs_RD reg i j ins : In (RD, j) (iaccs reg i ins) <-> j = i /\ In reg (i_srcs ins).
Proof. unfold iaccs. rewrite in_app_iff, in_flat_map. split.
  - intros [[s [H1 H2]]|H].
    + destruct (String.eqb_spec s reg); [|destruct H2]. destruct H2 as [H2|[]]. inversion H2; subst. auto.
    + destruct (String.eqb (i_dst ins) reg); [destruct H as [H|[]]; discriminate|destruct H].
  - intros [-> H]. left. exists reg. split; auto. rewrite String.eqb_refl. left; auto. Qed.
Lemma iaccs_WR reg i j ins : In (WR, j) (iaccs reg i ins) <-> j = i /\ i_dst ins = reg.
Proof. unfold iaccs. rewrite in_app_iff, in_flat_map. split.
  - intros [[s [H1 H2]]|H].
    + destruct (String.eqb s reg); [destruct H2 as [H2|[]]; discriminate|destruct H2].
    + destruct (String.eqb_spec (i_dst ins) reg); [|destruct H]. destruct H as [H|[]]. inversion H; auto.
  - intros [-> H]. right. rewrite H, String.eqb_refl. left; auto. Qed.

Lemma paccs_RD reg : forall prog k j,
  In (RD, j) (paccs reg k prog) <-> exists ins, k <= j /\ nth_error prog (j - k) = Some ins /\ In reg (i_srcs ins).
Proof. induction prog as [|ins prog IH]; intros k j; cbn [paccs].
  - split; [intros []|]. intros (x & _ & H & _). destruct (j - k); discriminate.
  - rewrite in_app_iff, iaccs_RD, IH. split.
    + intros [[-> H]|(x & H1 & H2 & H3)].
      * exists ins. rewrite Nat.sub_diag. auto.
      * exists x. split; [lia|]. replace (j - k) with (S (j - S k)) by lia. auto.
    + intros (x & H1 & H2 & H3). destruct (Nat.eq_dec j k) as [->|Hne].
      * rewrite Nat.sub_diag in H2. inversion H2; subst. auto.
      * right. exists x. split; [lia|]. replace (j - k) with (S (j - S k)) in H2 by lia. auto. Qed.
Lemma paccs_WR reg : forall prog k j,
  In (WR, j) (paccs reg k prog) <-> exists ins, k <= j /\ nth_error prog (j - k) = Some ins /\ i_dst ins = reg.
Proof. induction prog as [|ins prog IH]; intros k j; cbn [paccs].
  - split; [intros []|]. intros (x & _ & H & _). destruct (j - k); discriminate.
  - rewrite in_app_iff, iaccs_WR, IH. split.
    + intros [[-> H]|(x & H1 & H2 & H3)].
      * exists ins. rewrite Nat.sub_diag. auto.
      * exists x. split; [lia|]. replace (j - k) with (S (j - S k)) by lia. auto.
    + intros (x & H1 & H2 & H3). destruct (Nat.eq_dec j k) as [->|Hne].
      * rewrite Nat.sub_diag in H2. inversion H2; subst. auto.
      * right. exists x. split; [lia|]. replace (j - k) with (S (j - S k)) in H2 by lia. auto. Qed.

Lemma accs_RD prog reg j : In (RD, j) (accs prog reg) <-> In reg (srcs_of prog j).
Proof. unfold accs, srcs_of. rewrite paccs_RD, Nat.sub_0_r. split.
  - intros (x & _ & -> & H). auto.
  - destruct (nth_error prog j) as [x|]; [|intros []]. intros H. exists x. split; [lia|auto]. Qed.
Lemma accs_WR prog reg j : In (WR, j) (accs prog reg) <-> j < length prog /\ dst_of prog j = reg.
Proof. unfold accs, dst_of. rewrite paccs_WR, Nat.sub_0_r. split.
  - intros (x & _ & E & H). rewrite E. split; auto. apply nth_error_Some. congruence.
  - intros [H1 H2]. destruct (nth_error prog j) as [x|] eqn:E.
    + exists x. split; [lia|auto].
    + apply nth_error_None in E. lia. Qed.

(* ---------- sortedness ---------- *)
Definition key (a : acc) : nat := 2 * snd a + match fst a with RD => 0 | WR => 1 end.
Fixpoint ksorted (L : list acc) : Prop :=
  match L with [] => True | a :: t => (forall b, In b t -> key a < key b) /\ ksorted t end.

Lemma key_inj a b : key a = key b -> a = b.
Proof. destruct a as [[|] i], b as [[|] j]; unfold key; cbn [fst snd]; intros H; f_equal; lia. Qed.
Lemma ksorted_app A B : ksorted A -> ksorted B -> (forall a b, In a A -> In b B -> key a < key b) -> ksorted (A ++ B).
Proof. induction A as [|x A IH]; cbn [app ksorted]; intros HA HB H; auto. destruct HA as [H1 H2]. split.
  - intros b Hb. apply in_app_iff in Hb. destruct Hb as [Hb|Hb]; [auto|apply H; [left; auto|auto]].
  - apply IH; auto. intros a b Ha Hb. apply H; [right; auto|auto]. Qed.
Lemma ksorted_filter p L : ksorted L -> ksorted (filter p L).
Proof. induction L as [|a t IH]; cbn [filter ksorted]; auto. intros [H1 H2].
  destruct (p a); cbn [ksorted]; auto. split; auto. intros b Hb. apply filter_In in Hb. apply H1; tauto. Qed.
Lemma ksorted_NoDup L : ksorted L -> NoDup L.
Proof. induction L as [|a t IH]; cbn [ksorted]; [constructor|]. intros [H1 H2]. constructor; auto.
  intros Hin. specialize (H1 a Hin). lia. Qed.
Lemma before_ksorted L x y : ksorted L -> In x L -> (In y (before x L) <-> In y L /\ key y < key x).
Proof. induction L as [|a t IH]; cbn [ksorted before]; [intros _ []|]. intros [H1 H2] Hin.
  destruct (acc_eqb x a) eqn:E.
  - apply acc_eqb_eq in E. subst a. split; [intros []|]. intros [[->|Hy] Hlt]; [lia|]. specialize (H1 y Hy). lia.
  - apply acc_eqb_neq in E. destruct Hin as [Hin|Hin]; [congruence|]. specialize (IH H2 Hin). split.
    + intros [<-|Hy]; [split; [left; auto|apply H1; auto]|]. apply IH in Hy. split; [right; tauto|tauto].
    + intros [[<-|Hy] Hlt]; [left; auto|right; apply IH; auto]. Qed.

Lemma srcs_flat_nodup reg (i : nat) : forall srcs, NoDup srcs ->
  flat_map (fun s => if String.eqb s reg then [(RD, i)] else []) srcs = if mem_str reg srcs then [(RD, i)] else [].
Proof. induction srcs as [|s srcs IH]; intros H; cbn [flat_map]; auto. inversion H; subst.
  rewrite IH by auto. unfold mem_str. cbn [existsb]. fold (mem_str reg srcs). rewrite (String.eqb_sym reg s).
  destruct (String.eqb_spec s reg) as [->|Hne]; cbn [orb app]; auto.
  destruct (mem_str reg srcs) eqn:E; auto. apply mem_str_In in E. contradiction. Qed.

Lemma iaccs_sorted reg i ins : NoDup (i_srcs ins) -> ksorted (iaccs reg i ins).
Proof. intros H. unfold iaccs. rewrite srcs_flat_nodup by auto.
  destruct (mem_str reg (i_srcs ins)), (String.eqb (i_dst ins) reg); cbn [app ksorted]; auto.
  - split; [|split; auto; intros b []]. intros b [<-|[]]. unfold key; cbn [fst snd]. lia.
  - split; auto. intros b [].
  - split; auto. intros b []. Qed.
Lemma iaccs_key reg i ins a : In a (iaccs reg i ins) -> 2 * i <= key a < 2 * S i.
Proof. destruct a as [[|] j]; [rewrite iaccs_RD|rewrite iaccs_WR]; intros [-> _]; unfold key; cbn [fst snd]; lia. Qed.
Lemma paccs_key reg : forall prog k a, In a (paccs reg k prog) -> 2 * k <= key a.
Proof. induction prog as [|ins prog IH]; intros k a; cbn [paccs]; [intros []|]. rewrite in_app_iff. intros [H|H].
  - apply iaccs_key in H. lia.
  - apply IH in H. lia. Qed.
Lemma paccs_sorted reg : forall prog k, forallb (fun ins => nodupb String.eqb (i_srcs ins)) prog = true ->
  ksorted (paccs reg k prog).
Proof. induction prog as [|ins prog IH]; intros k H; cbn [paccs ksorted]; auto.
  cbn [forallb] in H. apply andb_true_iff in H. destruct H as [H1 H2]. apply ksorted_app.
  - apply iaccs_sorted. apply nodupb_NoDup; auto.
  - apply IH; auto.
  - intros a b Ha Hb. apply iaccs_key in Ha. apply paccs_key in Hb. lia. Qed.
Lemma accs_sorted prog reg : wf_progb prog = true -> ksorted (accs prog reg).
Proof. intros H. apply paccs_sorted. exact H. Qed.

Lemma plan_grp prog reg : wf_progb prog = true -> assoc [] (build_acc_plan prog) reg = grp (accs prog reg).
Proof. intros H. rewrite plan_assoc. apply build_queue_grp. apply ksorted_NoDup, accs_sorted; auto. Qed.

(* ---------- who is granted, on a plan with some accesses removed ---------- *)
Section Pending.
Variable L : list acc.
Variable pend : acc -> bool.
Hypothesis HL : ksorted L.
Let M := filter pend L.

Lemma pend_before x y : In x L -> pend x = true -> (In y (before x M) <-> In y L /\ pend y = true /\ key y < key x).
Proof. intros Hx Hp. unfold M. rewrite before_ksorted; [|apply ksorted_filter; auto|apply filter_In; auto].
  rewrite filter_In. tauto. Qed.

Lemma lead_sorted i : In (RD, i) L -> pend (RD, i) = true ->
  (In i (lead M) <-> forall k, k < i -> In (WR, k) L -> pend (WR, k) = false).
Proof. intros Hin Hp. rewrite lead_iff. split.
  - intros [_ H] k Hk Hw. destruct (pend (WR, k)) eqn:E; auto.
    assert (G : In (WR, k) (before (RD, i) M)).
    { apply pend_before; auto. split; auto. split; auto. unfold key; cbn [fst snd]. lia. }
    apply H in G. discriminate.
  - intros H. split; [apply filter_In; auto|]. intros [[|] k] Hy; auto.
    apply pend_before in Hy; auto. destruct Hy as (H1 & H2 & H3). unfold key in H3; cbn [fst snd] in H3.
    rewrite H in H2; [discriminate|lia|auto]. Qed.

Lemma wr_sorted i : In (WR, i) L -> pend (WR, i) = true ->
  (wr_ok M i = true <-> forall y, In y L -> snd y < i -> pend y = false).
Proof. intros Hin Hp. rewrite wr_ok_iff by (apply ksorted_NoDup, ksorted_filter; auto). split.
  - intros [_ H] y Hy Hlt. destruct (pend y) eqn:E; auto.
    assert (G : In y (before (WR, i) M)).
    { apply pend_before; auto. split; auto. split; auto. destruct y as [[|] k]; unfold key; cbn [fst snd] in *; lia. }
    apply H in G. subst y. cbn [snd] in Hlt. lia.
  - intros H. split; [apply filter_In; auto|]. intros [ty k] Hy.
    apply pend_before in Hy; auto. destruct Hy as (H1 & H2 & H3).
    destruct (Nat.lt_ge_cases k i) as [Hk|Hk].
    + rewrite (H _ H1 Hk) in H2. discriminate.
    + destruct ty; unfold key in H3; cbn [fst snd] in H3; [f_equal; lia|lia]. Qed.
End Pending.
