(* C19_proof.v -- the concrete register access queue refines spec/QueueSpec.v along every
   permitted history.  (C19_no_failure_lemma, C19_maximal_history_empties_lemma and
   C19_histories_finite_lemma are proved in C19_concrete.v and re-exported here.) *)
From Coq Require Import Lia.
From PS Require Import Base RegAccess QueueSpec Lists.
From PS Require Export C19_concrete.
From PS Require Import C19_build C19_sim.

Lemma split_reads T : forallb pending T = true ->
  exists L' T', T = L' ++ T' /\ forallb is_read L' = true /\ forallb pending T' = true
                /\ starts_write T'.
Proof. induction T as [|x T IH]; intros H.
  - exists [], []. simpl. auto.
  - pose proof H as H0. cbn [forallb] in H. apply andb_true_iff in H. destruct H as [Hx HT].
    destruct (is_read x) eqn:E.
    + destruct (IH HT) as [L' [T' [-> [H1 [H2 H3]]]]]. exists (x :: L'), T'.
      cbn [forallb]. rewrite E, H1. auto.
    + exists [], (x :: T). simpl. auto. Qed.

Lemma inv_init rs : Inv (a_init rs).
Proof. assert (H : forallb pending (a_init rs) = true).
  { unfold a_init. apply forallb_forall. intros x Hin. apply in_map_iff in Hin.
    destruct Hin as [r [<- _]]. reflexivity. }
  destruct (split_reads _ H) as [L' [T' [E [H1 [H2 H3]]]]].
  exists [], L', T'. constructor; auto. Qed.

Lemma sim_step a o : Inv a -> servable_owner (abs_queue a) o = true ->
  exists a', a_dequeue a o = Some a' /\ dequeue (abs_queue a) o = Ok (abs_queue a') /\ Inv a'.
Proof. intros [P [L [T D]]] Hs. rewrite (abs_decomp _ _ _ _ D) in *.
  destruct D as [-> HP HL HT HW].
  apply servable_front in Hs. destruct Hs as [g [rest [HQ Hm]]].
  unfold Q in *. destruct (oset L []) as [|y r] eqn:EO.
  - (* the run of reads is exhausted: the front group is the first untouched request, a write *)
    pose proof (oset_nil_removed L EO) as HLr.
    cbn [frontq app] in *. destruct T as [|w T']; [discriminate|].
    cbn [tailq] in *. inversion HQ; subst g rest. cbn [g_reqs] in Hm.
    simpl in Hm. rewrite orb_false_r in Hm.
    pose proof HT as HT0. cbn [forallb] in HT. apply andb_true_iff in HT. destruct HT as [Hw HT'].
    unfold pending in Hw. apply negb_true_iff in Hw. simpl in HW.
    exists (P ++ L ++ (fst w, true) :: T'). split; [|split].
    + rewrite a_dequeue_skip by auto. rewrite a_dequeue_skip by auto.
      cbn [a_dequeue]. rewrite Hw, HW. rewrite (Nat.eqb_sym (owner w) o), Hm. reflexivity.
    + cbn [dequeue g_reqs]. simpl. rewrite Hm. simpl.
      change ((fst w, true) :: T') with ([(fst w, true)] ++ T'). rewrite !app_assoc.
      rewrite abs_queue_skip; [reflexivity|]. rewrite !forallb_app. rewrite HP, HLr. reflexivity.
    + destruct (split_reads _ HT') as [L' [T'' [E [H1 [H2 H3]]]]].
      exists (P ++ L ++ [(fst w, true)]), L', T''. constructor; auto.
      * rewrite E. rewrite <- !app_assoc. reflexivity.
      * rewrite !forallb_app. rewrite HP, HLr. reflexivity.
  - (* the front group is the run of reads *)
    cbn [frontq app] in *. inversion HQ; subst g rest. cbn [g_reqs] in Hm.
    rewrite <- EO in Hm. rewrite memn_oset in Hm. simpl in Hm.
    exists (P ++ mark_reads L o ++ T).
    assert (D' : decomp (P ++ mark_reads L o ++ T) P (mark_reads L o) T).
    { constructor; auto. apply mark_reads_reads; auto. }
    split; [|split].
    + rewrite a_dequeue_skip by auto. rewrite a_dequeue_reads by auto. reflexivity.
    + rewrite (abs_decomp _ _ _ _ D'). unfold Q.
      change (@nil nat) with (set_remove o []) at 1. rewrite oset_mark by auto. rewrite EO.
      cbn [dequeue g_reqs g_ty]. set (sr := set_remove o (y :: r)).
      rewrite <- EO. rewrite memn_oset. rewrite Hm. simpl.
      destruct sr; reflexivity.
    + exists P, (mark_reads L o), T. exact D'. Qed.

Lemma sim_run h : forall a, Inv a -> permitted (abs_queue a) h = true ->
  exists a', a_run_hist a h = Some a' /\ run_hist (abs_queue a) h = Ok (abs_queue a') /\ Inv a'.
Proof. induction h as [|o h IH]; intros a HI Hp.
  - exists a. simpl. auto.
  - cbn [permitted] in Hp. apply andb_true_iff in Hp. destruct Hp as [Hs Hp].
    destruct (sim_step a o HI Hs) as [a1 [Hd [Hq HI1]]].
    rewrite Hq in Hp. destruct (IH a1 HI1 Hp) as [a' [H1 [H2 H3]]].
    exists a'. cbn [a_run_hist run_hist]. rewrite Hd, Hq. auto. Qed.

Lemma pend_removed o L : forallb removed L = true -> existsb (pend_o o) L = false.
Proof. induction L as [|x L IH]; intros H; [reflexivity|].
  cbn [forallb] in H. apply andb_true_iff in H. destruct H as [Hx HL].
  cbn [existsb]. unfold pend_o at 1. rewrite Hx, IH by auto. reflexivity. Qed.
Lemma mine_removed o L : forallb removed L = true -> forallb (mine o) L = true.
Proof. induction L as [|x L IH]; intros H; [reflexivity|].
  cbn [forallb] in H. apply andb_true_iff in H. destruct H as [Hx HL].
  cbn [forallb]. unfold mine at 1. rewrite Hx, IH by auto. reflexivity. Qed.

Lemma can_agree a ty o : Inv a ->
  can_access (abs_queue a) ty o = if a_empty a then Err IndexError else Ok (a_can_access a ty o).
Proof. intros [P [L [T D]]]. rewrite (abs_decomp _ _ _ _ D), (can_decomp _ _ _ _ ty o D).
  destruct D as [-> HP HL HT HW]. unfold a_empty, Q, can_closed. rewrite !forallb_app, HP. cbn [andb].
  destruct (oset L []) as [|y r] eqn:EO.
  - pose proof (oset_nil_removed L EO) as HLr. rewrite HLr. cbn [andb frontq app].
    rewrite pend_removed by auto. rewrite mine_removed by auto. rewrite ?andb_false_r.
    destruct T as [|w T']; [reflexivity|].
    cbn [forallb] in HT. apply andb_true_iff in HT. destruct HT as [Hw _].
    unfold pending in Hw. apply negb_true_iff in Hw.
    cbn [forallb tailq can_access g_ty g_reqs]. rewrite Hw. cbn [andb orb]. rewrite ?andb_true_r.
    f_equal. simpl. rewrite orb_false_r. rewrite (Nat.eqb_sym o (owner w)).
    destruct ty; simpl; [reflexivity|].
    destruct (abs_queue T'); simpl; rewrite orb_false_r; reflexivity.
  - assert (HLr : forallb removed L = false).
    { destruct (forallb removed L) eqn:E; auto. rewrite (oset_removed L [] E) in EO. discriminate. }
    rewrite HLr. cbn [andb frontq app can_access g_ty g_reqs]. f_equal.
    assert (Hne : oset L [] <> []) by (rewrite EO; discriminate).
    rewrite <- EO. rewrite memn_oset. rewrite (singleton_oset o L Hne). simpl.
    destruct T as [|w T'].
    + cbn [tailq]. destruct ty; simpl; rewrite ?andb_false_r, ?orb_false_r; reflexivity.
    + cbn [tailq g_ty g_reqs]. simpl. rewrite !orb_false_r. rewrite (Nat.eqb_sym o (owner w)).
      destruct ty; simpl; [rewrite orb_false_r; reflexivity|].
      rewrite andb_true_r. apply andb_comm. Qed.

Lemma C19_protocol_lemma :
  forall (rs : list req) (h : list nat),
    permitted (build_queue rs) h = true ->
    exists a q,
      a_run_hist (a_init rs) h = Some a /\ run_hist (build_queue rs) h = Ok q /\ q = abs_queue a /\
      forall ty o, can_access q ty o = (if a_empty a then Err IndexError else Ok (a_can_access a ty o)).
Proof. intros rs h Hp. rewrite <- abs_init in *.
  destruct (sim_run h _ (inv_init rs) Hp) as [a [H1 [H2 H3]]].
  exists a, (abs_queue a). repeat split; auto.
  intros ty o. apply can_agree; auto. Qed.
