(* Exact3_c01 -- the checker C01_order_checkb decides exactly the Prop-level statement C01_order_prop
   (spec/Exact3_defs.v, the conclusion of C01_hazard_order) on every diagram whose records have duplicate-free
   unit keys (keys_ok, the first half of diagram_shape).  The second half of diagram_shape (a unit's list shows
   an instruction at most once), one_place, and every fact about the processor, the program or the origin of
   the diagram are NOT needed.  Both directions need keys_ok: see Exact3_counterexample.v.

   The checker compares only the FIRST performing cycles (acc_time); the statement speaks about every
   performing cycle tj of the younger instruction j.  They agree because the first performing cycle tj0 of j
   exists and is <= tj, and the checker puts the first performing cycle of i strictly before tj0. *)
From Coq Require Import Lia.
From PS Require Import Base Bag RegAccess Sim Diag Readings_defs Exact_defs Exact3_defs
  Exact_c04 Exact2_c06 Exact2_c07 Exact3_base.

Lemma C01_order_checker_sound_keys :
  forall (P : proc) (prog : list instr) (d : diagram), keys_ok d ->
    C01_order_checkb P prog d = true -> C01_order_prop P prog d.
Proof. intros P prog d HK Hc i j ki kj tj Hij Hj Hcf Hp.
  unfold C01_order_checkb in Hc. cbv zeta in Hc. rewrite forallb_forall in Hc.
  specialize (Hc j ltac:(apply in_seq; lia)). rewrite forallb_forall in Hc.
  specialize (Hc i ltac:(apply in_seq; lia)). rewrite forallb_forall in Hc.
  specialize (Hc _ Hcf). unfold ordered_pair in Hc. cbn [fst snd] in Hc.
  destruct (z_acc_time_ex P d j kj tj HK Hp) as (a & Ea & Hle). rewrite Ea in Hc.
  destruct (acc_time P d i ki) as [ti|] eqn:Ei; [|discriminate]. apply Nat.ltb_lt in Hc.
  apply z_acc_time_some in Ei; auto. destruct Ei as (_ & Hpi & _).
  exists ti. split; [lia|exact Hpi]. Qed.

Lemma C01_order_checker_complete_keys :
  forall (P : proc) (prog : list instr) (d : diagram), keys_ok d ->
    C01_order_prop P prog d -> C01_order_checkb P prog d = true.
Proof. intros P prog d HK Hprop. unfold C01_order_checkb. cbv zeta.
  apply forallb_forall. intros j Hj. apply in_seq in Hj.
  apply forallb_forall. intros i Hi. apply in_seq in Hi.
  apply forallb_forall. intros [ki kj] Hcf. unfold ordered_pair. cbn [fst snd].
  destruct (acc_time P d j kj) as [tj|] eqn:Ej; [|reflexivity].
  apply z_acc_time_some in Ej; auto. destruct Ej as (_ & Hpj & _).
  destruct (Hprop i j ki kj tj ltac:(lia) ltac:(lia) Hcf Hpj) as (ti & Hlt & Hpi).
  destruct (z_acc_time_ex P d i ki ti HK Hpi) as (a & -> & Hle). apply Nat.ltb_lt. lia. Qed.

Lemma C01_order_checker_exact_keys :
  forall (P : proc) (prog : list instr) (d : diagram), keys_ok d ->
    (C01_order_checkb P prog d = true <-> C01_order_prop P prog d).
Proof. intros P prog d HK. split.
  - apply C01_order_checker_sound_keys; auto.
  - apply C01_order_checker_complete_keys; auto. Qed.

(* ---------- under diagram_shape ---------- *)
Lemma C01_order_checker_sound_shape :
  forall (P : proc) (prog : list instr) (d : diagram), diagram_shape d ->
    C01_order_checkb P prog d = true -> C01_order_prop P prog d.
Proof. intros P prog d Hs. apply C01_order_checker_sound_keys. apply shape_keys; auto. Qed.

Lemma C01_order_checker_complete_shape :
  forall (P : proc) (prog : list instr) (d : diagram), diagram_shape d ->
    C01_order_prop P prog d -> C01_order_checkb P prog d = true.
Proof. intros P prog d Hs. apply C01_order_checker_complete_keys. apply shape_keys; auto. Qed.

Lemma C01_order_checker_exact_lemma :
  forall (P : proc) (prog : list instr) (d : diagram), diagram_shape d ->
    (C01_order_checkb P prog d = true <-> C01_order_prop P prog d).
Proof. intros P prog d Hs. apply C01_order_checker_exact_keys. apply shape_keys; auto. Qed.

Print Assumptions C01_order_checker_exact_keys.
Print Assumptions C01_order_checker_exact_lemma.
