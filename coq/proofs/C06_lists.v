(* C06_lists.v -- generic list facts used by the C06 proof: sublists, del_nth, sortedness of isort,
   first_such, duplicate-free keys of records. *)
From Coq Require Import Lia Permutation Sorted.
From PS Require Import Base Bag RegAccess Sim Diag Lists.

(* ---------- sublists ---------- *)
Inductive sub {A} : list A -> list A -> Prop :=
| sub_nil : sub [] []
| sub_skip x l' l : sub l' l -> sub l' (x :: l)
| sub_keep x l' l : sub l' l -> sub (x :: l') (x :: l).

Lemma sub_refl {A} (l : list A) : sub l l.
Proof. induction l; [apply sub_nil|apply sub_keep; auto]. Qed.
Lemma sub_trans {A} (l1 l2 l3 : list A) : sub l1 l2 -> sub l2 l3 -> sub l1 l3.
Proof. intros H12 H23. revert l1 H12. induction H23; intros l1 H12.
  - inversion H12; constructor.
  - apply sub_skip; auto.
  - inversion H12; subst.
    + apply sub_skip; auto.
    + apply sub_keep; auto. Qed.
Lemma sub_In {A} (l' l : list A) x : sub l' l -> In x l' -> In x l.
Proof. induction 1; simpl; intuition. Qed.
Lemma sub_map {A B} (f : A -> B) l' l : sub l' l -> sub (map f l') (map f l).
Proof. induction 1; simpl; [apply sub_nil|apply sub_skip|apply sub_keep]; auto. Qed.
Lemma sub_NoDup {A} (l' l : list A) : sub l' l -> NoDup l -> NoDup l'.
Proof. induction 1; intros Hn; auto.
  - inversion Hn; auto.
  - inversion Hn; subst. constructor; auto. intros Hin. eapply sub_In in Hin; eauto. Qed.
Lemma sub_filter {A} (p : A -> bool) l : sub (filter p l) l.
Proof. induction l; simpl; [constructor|]. destruct (p a); [apply sub_keep|apply sub_skip]; auto. Qed.
Lemma sub_del_nth {A} n (l : list A) : sub (del_nth n l) l.
Proof. revert n; induction l; intros [|n]; simpl; try apply sub_nil.
  - apply sub_skip, sub_refl.
  - apply sub_keep; auto. Qed.

(* ---------- NoDup helpers ---------- *)
Lemma NoDup_app_intro {A} (a b : list A) :
  NoDup a -> NoDup b -> (forall x, In x a -> ~ In x b) -> NoDup (a ++ b).
Proof. induction a as [|x a IH]; simpl; intros Ha Hb Hd; auto.
  inversion Ha; subst. constructor.
  - rewrite in_app_iff. intros [H|H]; [tauto|]. eapply Hd; eauto.
  - apply IH; auto; intros y Hy; apply Hd; auto. Qed.
Lemma NoDup_app_r {A} (a b : list A) : NoDup (a ++ b) -> NoDup b.
Proof. induction a; simpl; auto. intros H. inversion H; auto. Qed.
Lemma NoDup_map_inj_in {A B} (f : A -> B) l :
  NoDup l -> (forall x y, In x l -> In y l -> f x = f y -> x = y) -> NoDup (map f l).
Proof. induction l as [|a l IH]; simpl; intros Hn Hi; [constructor|].
  inversion Hn; subst. constructor.
  - rewrite in_map_iff. intros [y [Hy1 Hy2]]. assert (y = a) by (apply Hi; auto). subst; tauto.
  - apply IH; auto. Qed.
Lemma nodupb_NoDup_str l : nodupb String.eqb l = true -> NoDup l.
Proof. induction l as [|x l IH]; simpl; intros H; [constructor|].
  apply andb_true_iff in H. destruct H as [H1 H2]. constructor; auto.
  intros Hin. apply negb_true_iff in H1.
  assert (existsb (String.eqb x) l = true).
  { apply existsb_exists. exists x. split; auto. apply String.eqb_refl. }
  congruence. Qed.

(* ---------- del_nth ---------- *)
Lemma del_nth_lt {A} : forall (l : list A) n j, j < n -> nth_error (del_nth n l) j = nth_error l j.
Proof. induction l as [|x l IH]; intros [|n] j Hj; simpl; auto; try lia.
  destruct j as [|j]; simpl; auto. apply IH. lia. Qed.
Lemma del_nth_notin {A B} (f : A -> B) : forall (l : list A) n e,
  NoDup (map f l) -> nth_error l n = Some e -> ~ In (f e) (map f (del_nth n l)).
Proof. induction l as [|x l IH]; intros [|n] e Hn He; simpl in *; try discriminate.
  - inversion He; subst. inversion Hn; auto.
  - inversion Hn; subst. intros [H|H].
    + apply H1. rewrite H. apply in_map. eapply nth_error_In; eauto.
    + eapply IH; eauto. Qed.

Definition dels {A} (js : list nat) (l : list A) : list A := fold_left (fun l j => del_nth j l) js l.
Lemma dels_sub {A} js : forall (l : list A), sub (dels js l) l.
Proof. induction js as [|j js IH]; intros l; simpl; [apply sub_refl|].
  eapply sub_trans; [apply IH|apply sub_del_nth]. Qed.
Lemma dels_removed {A B} (f : A -> B) : forall js (l : list A),
  StronglySorted (fun a b => b < a) js -> NoDup (map f l) ->
  forall j e, In j js -> nth_error l j = Some e -> ~ In (f e) (map f (dels js l)).
Proof. induction js as [|j0 js IH]; intros l Hs Hn j e Hj He; simpl in *; [tauto|].
  inversion Hs as [|? ? Hs' Hall]; subst. destruct Hj as [->|Hj].
  - intros Hin. eapply (del_nth_notin f l j e Hn He).
    eapply sub_In; [|exact Hin]. apply sub_map. apply dels_sub.
  - rewrite Forall_forall in Hall. specialize (Hall j Hj).
    apply IH with (j := j); auto.
    + eapply sub_NoDup; [|exact Hn]. apply sub_map. apply sub_del_nth.
    + rewrite del_nth_lt; auto. Qed.

(* ---------- sortedness of isort ---------- *)
Lemma insert_sorted {A} (leb : A -> A -> bool) :
  (forall a b, leb a b = true \/ leb b a = true) ->
  (forall a b c, leb a b = true -> leb b c = true -> leb a c = true) ->
  forall x l, StronglySorted (fun a b => leb a b = true) l ->
              StronglySorted (fun a b => leb a b = true) (insert leb x l).
Proof. intros Htot Htr x l. induction l as [|y l IH]; intros Hs; simpl.
  - constructor; constructor.
  - inversion Hs as [|? ? Hs' Hall]; subst. destruct (leb x y) eqn:E.
    + constructor; auto. constructor; auto. rewrite Forall_forall in *. intros z Hz. eauto.
    + constructor; auto. rewrite Forall_forall in *. intros z Hz.
      apply insert_incl in Hz. destruct Hz as [->|Hz]; auto.
      destruct (Htot y z); auto; congruence. Qed.
Lemma isort_sorted {A} (leb : A -> A -> bool) :
  (forall a b, leb a b = true \/ leb b a = true) ->
  (forall a b c, leb a b = true -> leb b c = true -> leb a c = true) ->
  forall l, StronglySorted (fun a b => leb a b = true) (isort leb l).
Proof. intros Htot Htr l. induction l; simpl; [constructor|]. apply insert_sorted; auto. Qed.

(* ---------- locate ---------- *)
Lemma locate_spec {A} (p : A -> bool) : forall l i j,
  In j (locate p l i) -> i <= j /\ exists e, nth_error l (j - i) = Some e /\ p e = true.
Proof. induction l as [|x l IH]; intros i j Hj; simpl in Hj; [tauto|].
  apply in_app_iff in Hj. destruct Hj as [Hj|Hj].
  - destruct (p x) eqn:E; simpl in Hj; [|tauto]. destruct Hj as [->|[]].
    split; [lia|]. rewrite Nat.sub_diag. exists x; auto.
  - apply IH in Hj. destruct Hj as [Hle [e [He Hp]]]. split; [lia|].
    exists e. split; auto. replace (j - i) with (S (j - S i)) by lia. auto. Qed.
Lemma locate_NoDup {A} (p : A -> bool) : forall l i, NoDup (locate p l i).
Proof. induction l as [|x l IH]; intros i; simpl; [constructor|].
  apply NoDup_app_intro; auto.
  - destruct (p x); repeat constructor; auto.
  - intros y Hy Hy2. apply locate_spec in Hy2. destruct (p x); simpl in Hy; [|tauto].
    destruct Hy as [->|[]]. lia. Qed.

(* ---------- first_such ---------- *)
Lemma first_such_some f : forall n t x, first_such f t n = Some x ->
  t <= x < t + n /\ f x = true /\ forall y, t <= y < x -> f y = false.
Proof. induction n as [|n IH]; intros t x H; simpl in H; [discriminate|].
  destruct (f t) eqn:E.
  - inversion H; subst. repeat split; auto; lia.
  - apply IH in H. destruct H as [H1 [H2 H3]]. repeat split; auto; try lia.
    intros y Hy. destruct (Nat.eq_dec y t) as [->|]; auto. apply H3. lia. Qed.
Lemma first_such_none f : forall n t, first_such f t n = None -> forall y, t <= y < t + n -> f y = false.
Proof. induction n as [|n IH]; intros t H y Hy; simpl in H; [lia|].
  destruct (f t) eqn:E; [discriminate|]. destruct (Nat.eq_dec y t) as [->|]; auto.
  apply (IH (S t)); auto. lia. Qed.
Lemma first_such_intro f : forall n t x, t <= x < t + n -> f x = true ->
  (forall y, t <= y < x -> f y = false) -> first_such f t n = Some x.
Proof. induction n as [|n IH]; intros t x Hx Hf Hb; simpl; [lia|].
  destruct (f t) eqn:E.
  - destruct (Nat.eq_dec x t) as [->|]; auto. rewrite Hb in E; [discriminate|lia].
  - apply IH; auto.
    + destruct (Nat.eq_dec x t) as [->|]; [congruence|lia].
    + intros y Hy. apply Hb. lia. Qed.
Lemma first_such_none_intro f : forall n t, (forall y, t <= y < t + n -> f y = false) ->
  first_such f t n = None.
Proof. induction n as [|n IH]; intros t H; simpl; auto.
  rewrite H by lia. apply IH. intros y Hy. apply H. lia. Qed.

(* ---------- records: keys ---------- *)
Definition ukeys (r : record) := NoDup (map fst r).
Lemma set_keys_in {A} (r : list (string * A)) k v x :
  In x (map fst (set r k v)) -> x = k \/ In x (map fst r).
Proof. induction r as [|[k' v'] t IH]; simpl; [intuition|].
  destruct (String.eqb k k') eqn:E; simpl.
  - apply String.eqb_eq in E. subst. intuition.
  - intros [H|H]; auto. apply IH in H. intuition. Qed.
Lemma set_ukeys (r : record) k v : ukeys r -> ukeys (set r k v).
Proof. unfold ukeys. induction r as [|[k' v'] t IH]; simpl; intros H.
  - repeat constructor. simpl; tauto.
  - inversion H; subst. destruct (String.eqb k k') eqn:E; simpl.
    + apply String.eqb_eq in E. subst. constructor; auto.
    + constructor; auto. intros Hin. apply set_keys_in in Hin. destruct Hin as [->|Hin]; auto.
      rewrite String.eqb_refl in E. discriminate. Qed.
Lemma get_ukeys (r : record) k es : ukeys r -> In (k, es) r -> get r k = es.
Proof. unfold ukeys. induction r as [|[k' v'] t IH]; simpl; intros Hn Hin; [tauto|].
  inversion Hn; subst. destruct Hin as [Hin|Hin].
  - inversion Hin; subst. rewrite String.eqb_refl. auto.
  - destruct (String.eqb k k') eqn:E; auto. apply String.eqb_eq in E. subst.
    exfalso. apply H1. change k' with (fst (k', es)). apply in_map. auto. Qed.
Lemma get_in_rec {A} (r : list (string * list A)) k e : In e (get r k) -> In (k, get r k) r.
Proof. induction r as [|[k' v'] t IH]; simpl; [tauto|].
  destruct (String.eqb k k') eqn:E; auto. apply String.eqb_eq in E. subst. auto. Qed.
