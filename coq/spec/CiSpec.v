(* CiSpec.v -- definitions only: equality of loader / instruction-set results up to
   the letter case of a culprit that is reported AS WRITTEN (an undefined name has no first spelling). *)
From PS Require Import Base Str Sim Program Isa Loader TextSpec.

(* load_isa: "undefined capability" carries the capability as written in the table *)
Definition isa_res_ci (r r' : isa_res) : Prop :=
  match r, r' with
  | IsaErr (IsaUndefCap c), IsaErr (IsaUndefCap c') => ci c c'
  | _, _ => r = r'
  end.

(* load_proc_desc: "bad edge" carries the connection as written, "undefined unit" the name as written *)
Definition load_res_ci (r r' : load_res) : Prop :=
  match r, r' with
  | LoadErr (EBadEdge e), LoadErr (EBadEdge e') => Forall2 ci e e'
  | LoadErr (EUndefUnit n), LoadErr (EUndefUnit n') => ci n n'
  | _, _ => r = r'
  end.

(* every connection has exactly two ends and both name a defined unit (case-insensitively) *)
Definition edges_wf (d : desc) : Prop :=
  forall e, In e (d_edges d) ->
    exists a b, e = [a; b] /\ mem_ic a (map d_name (d_units d)) = true
                          /\ mem_ic b (map d_name (d_units d)) = true.
