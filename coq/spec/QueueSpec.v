(* QueueSpec.v -- the abstract reading of C19: a register's access requests in registration order,
   each pending or removed; when a request may be served; what removing an owner's served requests
   does.  RegAccess.v's queue is proved (props/C19.v) to refine this. *)
From PS Require Import Base RegAccess.

Definition req := (aty * nat)%type.                  (* (kind, owner) *)
Definition astate := list (req * bool).              (* registration order; true = removed *)
Definition a_init (rs : list req) : astate := map (fun r => (r, false)) rs.
Definition is_read (x : req * bool) : bool := aty_eqb (fst (fst x)) RD.
Definition removed (x : req * bool) : bool := snd x.
Definition owner (x : req * bool) : nat := snd (fst x).

(* split a list of earlier requests into (everything before, the unbroken run of reads at its end) *)
Fixpoint read_suffix (l : astate) : astate * astate :=
  match l with
  | [] => ([], [])
  | x :: t =>
      let '(p, s) := read_suffix t in
      match p with
      | [] => if is_read x then ([], x :: s) else ([x], s)         (* t consists of reads only *)
      | _ => (x :: p, s)
      end
  end.

(* a pending request (ty, o) registered after `pre` can be served iff every earlier request has been
   removed, except members of its own unbroken run of reads (reads are served together), and except
   that a write directly after a run of reads may go with its owner's own read once no other reader
   of that run remains *)
Definition servable_after (pre : astate) (ty : aty) (o : nat) : bool :=
  let '(p1, run) := read_suffix pre in
  forallb removed p1
  && match ty with
     | RD => true
     | WR => forallb (fun x => removed x || Nat.eqb (owner x) o) run
     end.
Fixpoint a_can_access_from (pre post : astate) (ty : aty) (o : nat) : bool :=
  match post with
  | [] => false
  | x :: t =>
      (negb (removed x) && aty_eqb (fst (fst x)) ty && Nat.eqb (owner x) o && servable_after pre ty o)
      || a_can_access_from (pre ++ [x]) t ty o
  end.
Definition a_can_access (a : astate) (ty : aty) (o : nat) : bool := a_can_access_from [] a ty o.
Definition a_empty (a : astate) : bool := forallb removed a.

(* removing owner o's served requests: the first pending request decides -- if it is a read, all of
   o's pending reads in that unbroken run of reads go; if it is o's write, it goes *)
Fixpoint mark_reads (a : astate) (o : nat) : astate :=
  match a with
  | [] => []
  | x :: t => if is_read x
              then (if Nat.eqb (owner x) o then (fst x, true) else x) :: mark_reads t o
              else x :: t
  end.
Fixpoint leading_reads (a : astate) : astate :=
  match a with
  | [] => []
  | x :: t => if is_read x then x :: leading_reads t else []
  end.
Fixpoint a_dequeue (a : astate) (o : nat) : option astate :=
  match a with
  | [] => None
  | x :: t =>
      if removed x then
        match a_dequeue t o with Some t' => Some (x :: t') | None => None end
      else if is_read x then
        (if existsb (fun y => negb (removed y) && Nat.eqb (owner y) o) (leading_reads (x :: t))
         then Some (mark_reads (x :: t) o) else None)
      else if Nat.eqb (owner x) o then Some ((fst x, true) :: t) else None
  end.

(* the concrete queue an abstract state stands for: runs of reads merged, removed requests dropped,
   empty groups dropped *)
Fixpoint abs_groups (a : astate) (cur : option group) : queue :=
  match a with
  | [] => match cur with Some g => [g] | None => [] end
  | x :: t =>
      if is_read x then
        let g := match cur with Some g => g | None => mkG RD [] end in
        abs_groups t (Some (if removed x then g else mkG RD (set_add (owner x) (g_reqs g))))
      else
        (match cur with Some g => [g] | None => [] end)
        ++ (if removed x then [] else [mkG WR [owner x]]) ++ abs_groups t None
  end.
Definition abs_queue (a : astate) : queue :=
  filter (fun g => match g_reqs g with [] => false | _ => true end) (abs_groups a None).

(* histories: a sequence of removals, each of an owner that could be served (for some kind) *)
Fixpoint run_hist (q : queue) (h : list nat) : res queue :=
  match h with
  | [] => Ok q
  | o :: t => match dequeue q o with Ok q' => run_hist q' t | Err e => Err e end
  end.
Definition servable_owner (q : queue) (o : nat) : bool :=
  match can_access q RD o, can_access q WR o with
  | Ok true, _ | _, Ok true => true
  | _, _ => false
  end.
Fixpoint permitted (q : queue) (h : list nat) : bool :=
  match h with
  | [] => true
  | o :: t => servable_owner q o && match dequeue q o with Ok q' => permitted q' t | Err _ => false end
  end.
Fixpoint a_run_hist (a : astate) (h : list nat) : option astate :=
  match h with
  | [] => Some a
  | o :: t => match a_dequeue a o with Some a' => a_run_hist a' t | None => None end
  end.
