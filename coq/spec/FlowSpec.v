(* FlowSpec.v -- definitions (only) for props/Flow.v: flow networks with optional (None = unbounded)
   capacities, feasible integral flows and their value; the reading of the detailed flow check. *)
From Coq Require Import ZArith.
From PS Require Import Base Str Sim Graph Loader Flow.

Section Network.
  Variable nodes : list string.
  Variable es : list (string * string).                    (* the edges *)
  Variable cap : string -> string -> option nat.           (* None: no capacity attribute = unbounded *)

  Definition flow := string -> string -> nat.
  Definition sum_out (f : flow) (v : string) : nat := list_sum (map (fun w => f v w) nodes).
  Definition sum_in (f : flow) (v : string) : nat := list_sum (map (fun u => f u v) nodes).
  (* flow only on edges, within capacities, conserved at every node but the source and the sink *)
  Definition feasible (f : flow) (s t : string) : Prop :=
    (forall u v, ~ In (u, v) es -> f u v = 0) /\
    (forall u v c, cap u v = Some c -> f u v <= c) /\
    (forall v, In v nodes -> v <> s -> v <> t -> sum_in f v = sum_out f v).
  Definition value (f : flow) (s : string) : Z := (Z.of_nat (sum_out f s) - Z.of_nat (sum_in f s))%Z.

  Inductive epath : string -> string -> Prop :=
  | ep_edge : forall a b, In (a, b) es -> epath a b
  | ep_step : forall a b c, In (a, b) es -> epath b c -> epath a c.
End Network.

(* the outcome of the detailed check read as the abstract one *)
Definition flow_abs (r : option load_err) : flow_chk :=
  match r with Some (EBlockedCap c p) => FlowBlocked c p | _ => FlowOk end.
