(* Exact2_defs.v -- definitions (only) for props/Exact2.v: the Prop-level statements of C06 and C07 (the
   conclusions of props/Readings4.v and props/Readings2.v) as definitions, and the diagram shape they are
   read on. *)
From PS Require Import Base Str Bag RegAccess Sim Graph Loader Diag Readings_defs Readings4_defs Exact_defs.

(* an instruction is shown in at most one unit per cycle (a clause of C03) *)
Definition one_place (d : diagram) : Prop :=
  forall t i u v, shown d t i u -> shown d t i v -> u = v.

Definition C06_prop (P : proc) (prog : list instr) (d : diagram) : Prop :=
  forall i, i < length prog ->
    (forall t u, shown d t i u -> exists t0, t0 <= t /\ issued_at d i t0) /\
    (forall t0 k, issued_at d i t0 -> k < i -> exists tk, tk <= t0 /\ issued_at d k tk) /\
    (forall t0 q, issued_at d i t0 -> shown d t0 i q ->
       In q (in_names P) /\ supports P q (cat_of prog i) = true /\
       forall u, In u (in_names P) -> supports P u (cat_of prog i) = true -> String.ltb u q = true ->
         width_of P u <= length (filter (fun e => fst e <? i) (occ d t0 u))
         \/ (mem_needed P u (cat_of prog i) = true /\ exists k v, k < i /\ enters_mem P prog d t0 k v)) /\
    (forall s t, next_from d i s -> s <= t -> t < length d -> (forall t' u, t' <= t -> ~ shown d t' i u) ->
       forall u, In u (in_names P) -> supports P u (cat_of prog i) = true ->
         width_of P u <= length (occ d t u)
         \/ (mem_needed P u (cat_of prog i) = true /\ exists k v, k <> i /\ enters_mem P prog d t k v)).

Definition C07_prop (P : proc) (prog : list instr) (d : diagram) : Prop :=
  forall t u i l, S t < length d -> In (i, l) (occ d t u) -> l <> LD ->
    (In u (out_names P) -> ~ exists l', In (i, l') (occ d (S t) u)) /\
    (~ In u (out_names P) -> forall l', In (i, l') (occ d (S t) u) ->
       l' = LS /\
       forall s, In s (succs_of P u) -> supports P s (cat_of prog i) = true ->
         (width_of P s <= length (occ d (S t) s) \/
          (mem_needed P s (cat_of prog i) = true /\
           exists k v, k <> i /\ enters_mem P prog d (S t) k v)) /\
         (forall j lj, In (j, lj) (occ d (S t) s) -> i < j -> ~ (exists l0, In (j, l0) (occ d t s)) ->
            mem_needed P s (cat_of prog i) = true /\ mem_needed P s (cat_of prog j) = false)).
