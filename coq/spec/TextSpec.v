(* TextSpec.v -- vocabulary for C13 (re-casing), C14 (layouts of program text), C16 (table text). *)
From PS Require Import Base Str Bag Sim Program Isa Loader Cli Diag.

(* ---------- C14: program text layouts ---------- *)
Definition all_ws (s : string) : bool := String.eqb (lstrip s) EmptyString.
Fixpoint no_char (p : ascii -> bool) (s : string) : bool :=
  match s with EmptyString => true | String c t => negb (p c) && no_char p t end.
(* a token: non-empty, no blank, no comma *)
Definition tokenb (s : string) : bool :=
  negb (String.eqb s EmptyString) && no_char (fun c => is_ws c || Ascii.eqb c ","%char) s.
(* one rendered line: blank, or  lead mnemonic sep op0 {b , a op}* trail  *)
Inductive rline :=
| RBlank (ws : string)
| RInstr (lead mn sep op0 : string) (rest : list (string * string * string)) (trail : string).
Open Scope string_scope.
Definition render_line (l : rline) : string :=
  match l with
  | RBlank ws => ws
  | RInstr lead mn sep op0 rest trail =>
      lead ++ mn ++ sep ++ op0
      ++ fold_right (fun x acc => let '(b, a, op) := x in b ++ "," ++ a ++ op ++ acc) "" rest ++ trail
  end.
Close Scope string_scope.
Definition rline_ok (l : rline) : bool :=
  match l with
  | RBlank ws => all_ws ws
  | RInstr lead mn sep op0 rest trail =>
      all_ws lead && tokenb mn && all_ws sep && negb (String.eqb sep EmptyString) && tokenb op0
      && forallb (fun x => let '(b, a, op) := x in all_ws b && all_ws a && tokenb op) rest && all_ws trail
  end.
(* what the parser must return: per instruction line its 1-based physical line number, the mnemonic, the
   first operand as destination, the remaining operands deduplicated and sorted; registers in the spelling
   of their first occurrence in the text *)
Fixpoint expected_from (ls : list rline) (n : nat) (reg : list string) : list pinstr :=
  match ls with
  | [] => []
  | RBlank _ :: t => expected_from t (S n) reg
  | RInstr _ mn _ op0 rest _ :: t =>
      let ops := op0 :: map (fun x => snd x) rest in
      let '(stds, reg') := fold_left (fun '(acc, reg) o => let '(s, reg') := reg_lookup reg o in (acc ++ [s], reg'))
                                     ops ([], reg) in
      {| pi_srcs := sorted_uniq (tl stds); pi_dst := hd EmptyString stds; pi_name := mn; pi_line := n |}
      :: expected_from t (S n) reg'
  end.
Definition expected_program (ls : list rline) : list pinstr := expected_from ls 1 [].

(* ---------- C13: re-casing of non-defining occurrences ---------- *)
Definition ci (a b : string) : Prop := lower a = lower b.
(* same description up to the letter case of connection ends, of capability occurrences after the first
   global one, and of memory-access entries *)
Fixpoint caps_recased (seen : list string) (cs cs' : list string) : Prop * list string :=
  match cs, cs' with
  | [], [] => (True, seen)
  | c :: t, c' :: t' =>
      let first := negb (mem_ic c seen) in
      let '(p, seen') := caps_recased (if first then seen ++ [c] else seen) t t' in
      ((if first then c = c' else ci c c') /\ p, seen')
  | _, _ => (False, seen)
  end.
Fixpoint units_recased (seen : list string) (us us' : list udesc) : Prop :=
  match us, us' with
  | [], [] => True
  | u :: t, u' :: t' =>
      let '(p, seen') := caps_recased seen (d_caps u) (d_caps u') in
      d_name u = d_name u' /\ d_width u = d_width u' /\ d_rl u = d_rl u' /\ d_wl u = d_wl u'
      /\ Forall2 ci (d_mem u) (d_mem u') /\ p /\ units_recased seen' t t'
  | _, _ => False
  end.
Definition recased (d d' : desc) : Prop :=
  units_recased [] (d_units d) (d_units d') /\ Forall2 (Forall2 ci) (d_edges d) (d_edges d').

(* ---------- C16: reading a printed table back ---------- *)
Definition TAB : ascii := ascii_of_nat 9.
Definition LF : ascii := ascii_of_nat 10.
Fixpoint split_char (c : ascii) (s : string) : list string :=
  match s with
  | EmptyString => [EmptyString]
  | String a t =>
      match split_char c t with
      | [] => [String a EmptyString]
      | h :: r => if Ascii.eqb a c then EmptyString :: h :: r else String a h :: r
      end
  end.
Definition cell_text (d : diagram) (t i : nat) : string :=
  match place_at d t i with
  | Some (u, l) => (show_lab l ++ ":" ++ u)%string
  | None => EmptyString
  end.
Definition field_ok (s : string) : bool :=
  no_char (fun c => Ascii.eqb c TAB || Ascii.eqb c LF || Ascii.eqb c (ascii_of_nat 13) || Ascii.eqb c """"%char) s.

(* a line whose operands may be empty: operands contain no comma and carry no blanks at their ends *)
Definition opnd_shape (s : string) : bool :=
  no_char (fun c => Ascii.eqb c ","%char) s && String.eqb (strip s) s.
Definition rline_shape_ok (l : rline) : bool :=
  match l with
  | RBlank ws => all_ws ws
  | RInstr lead mn sep op0 rest trail =>
      all_ws lead && tokenb mn && all_ws sep && negb (String.eqb sep EmptyString) && opnd_shape op0
      && forallb (fun x => let '(b, a, op) := x in all_ws b && all_ws a && opnd_shape op) rest && all_ws trail
      && (negb (String.eqb op0 EmptyString) || match rest with [] => false | _ => true end)
  end.
Fixpoint first_empty (ops : list string) (k : nat) : option nat :=
  match ops with
  | [] => None
  | o :: t => if String.eqb o EmptyString then Some k else first_empty t (S k)
  end.
