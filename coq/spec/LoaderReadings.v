(* LoaderReadings.v -- Prop-level vocabulary for reading C10 on the resolved description (definitions only). *)
From PS Require Import Base Str Sim Graph Loader Diag LoaderSpec.

(* capability c can be fed to unit u: a path from a description input port along connections whose units
   all declare c *)
Inductive feeds (r : rdesc) (c : string) : string -> Prop :=
| feeds_in : forall p, In p (r_inputs r) -> declares r p c = true -> feeds r c p
| feeds_step : forall u v, feeds r c u -> In v (r_succs r u) -> declares r v c = true -> feeds r c v.
Definition usable (r : rdesc) (u : string) : Prop := In u (r_names r) /\ exists c, feeds r c u.
(* a usable connection: declared, and some capability is fed to both ends *)
Definition usable_conn (r : rdesc) (u v : string) : Prop :=
  In v (r_succs r u) /\ exists c, feeds r c u /\ feeds r c v.
(* a usable declared output can be reached along usable connections *)
Inductive reaches_out (r : rdesc) : string -> Prop :=
| ro_out : forall o, In o (r_outputs r) -> usable r o -> reaches_out r o
| ro_step : forall u v, usable r u -> usable_conn r u v -> reaches_out r v -> reaches_out r u.
