(* Exact4_defs.v -- definition (only) for props/Exact4.v: the Prop-level statement of C03 for a returned
   (completed) diagram: only program instructions are shown, and every program instruction has a route as in
   props/Readings.v (C03_reading). *)
From PS Require Import Base Str Bag RegAccess Sim Graph Loader Diag Readings_defs Exact_defs.

Definition C03_route_prop (P : proc) (prog : list instr) (d : diagram) (i : nat) : Prop :=
  exists (a : nat) (route : list (string * label)),
    route <> [] /\
    (forall t u l, In (i, l) (occ d t u) <-> (a <= t /\ nth_error route (t - a) = Some (u, l))) /\
    (exists u0 l0, hd_error route = Some (u0, l0) /\ In u0 (in_names P) /\ l0 <> LS) /\
    (forall k u l, nth_error route k = Some (u, l) -> supports P u (cat_of prog i) = true) /\
    (forall k u l u' l', nth_error route k = Some (u, l) -> nth_error route (S k) = Some (u', l') ->
       (u = u' /\ ((l = LD /\ l' <> LS) \/ (l <> LD /\ l' = LS)))
       \/ (u <> u' /\ l <> LD /\ l' <> LS /\ In u (preds_of P u'))) /\
    (forall k m u l l', k < m -> nth_error route k = Some (u, l) -> nth_error route m = Some (u, l') ->
       forall j, k <= j <= m -> exists l'', nth_error route j = Some (u, l'')) /\
    (exists u, last route (EmptyString, LD) = (u, LU) /\ In u (out_names P)).
Definition C03_done_prop (P : proc) (prog : list instr) (d : diagram) : Prop :=
  (forall t u i l, In (i, l) (occ d t u) -> i < length prog) /\
  forall i, i < length prog -> C03_route_prop P prog d i.
