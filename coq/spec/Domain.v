(* Domain.v -- the domain of the simulator properties C01-C08 as their quantifier text states it:
   distinct unit names, predecessor lists naming existing non-output units, an acyclic unit graph, and on
   every capability route from an input port exactly one read-locking unit placed not after the single
   write-locking unit.  The guard wf_procb of the theorems is wf_domainb plus `sink_first (p_int P)`, the
   listing order that every processor OBJECT has by C12 (make_desc / load_proc_desc); the harness uses
   wf_domainb to decide whether an implementation-built processor is inside the properties' domain, so a
   change that breaks the listing order is judged by the diagram checkers rather than excused by the guard. *)
From PS Require Import Base Str Sim Graph Loader Diag LoaderSpec.

Definition wf_domainb (P : proc) : bool :=
  nodupb String.eqb (unit_names P)
  && forallb (fun f => nodupb String.eqb (f_preds f)
                       && forallb (fun p => mem_str p (unit_names P) && negb (mem_str p (out_names P)))
                                  (f_preds f)) (funits P)
  && is_dag (proc_graph P)
  && locks_ok P.

(* C11, as the property states it: the culprit of a duplicate-name rejection is ANY pair of units, the
   first defined earlier, whose names are equal ignoring case (the loader reports the first such clash in
   definition order; C11_error_ok demands exactly that, and implies this weaker reading, which is the one
   applied to implementation outputs). *)
Fixpoint dup_pair (l : list string) (old new : string) : bool :=
  match l with
  | [] => false
  | x :: t => (String.eqb x old && existsb (String.eqb new) t && ic_eqb old new) || dup_pair t old new
  end.
Definition C11_error_okw (d : desc) (e : load_err) : bool :=
  match e with
  | EDupUnit old new => dup_pair (d_names d) old new
  | _ => C11_error_ok d e
  end.
