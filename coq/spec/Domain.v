(* Domain.v -- the domain of the simulator properties C01-C08 as their quantifier text states it:
   distinct unit names, predecessor lists naming existing non-output units, an acyclic unit graph, and on
   every capability route from an input port exactly one read-locking unit placed not after the single
   write-locking unit.  The guard wf_procb of the theorems is wf_domainb plus `sink_first (p_int P)`, the
   listing order that every processor OBJECT has by C12 (make_desc / load_proc_desc); the harness uses
   wf_domainb to decide whether an implementation-built processor is inside the properties' domain, so a
   change that breaks the listing order is judged by the diagram checkers rather than excused by the guard. *)
From PS Require Import Base Str Sim Graph Diag LoaderSpec.

Definition wf_domainb (P : proc) : bool :=
  nodupb String.eqb (unit_names P)
  && forallb (fun f => nodupb String.eqb (f_preds f)
                       && forallb (fun p => mem_str p (unit_names P) && negb (mem_str p (out_names P)))
                                  (f_preds f)) (funits P)
  && is_dag (proc_graph P)
  && locks_ok P.
