(* C10Exact.v -- the checker that JUDGES IMPLEMENTATION OBJECTS for C10 (and the acceptance half of C11), with
   the comparison of a unit against its expected form made insensitive to the ORDER of its capability and
   memory-access lists (C10 says which capabilities a unit keeps and that it retains its memory-access list;
   it does not say in which order a unit lists them).  Implied by C10_checkb, which the theorems prove. *)
From PS Require Import Base Str Sim Graph Loader Diag LoaderSpec C12Exact.

Definition C10_judgeb (d : desc) (P : proc) : bool :=
  let c := mk_ctx d in
  same_set (unit_names P) (kept c)
  && nodupb String.eqb (unit_names P)
  && forallb (fun u => match d_unit d (u_name u) with
                       | Some x => unit_same u (expected_unit c x)
                       | None => false end) (all_units P)
  && forallb (fun f => same_set (f_preds f) (kept_preds c (u_name (f_model f)))
                       && match f_preds f with [] => false | _ => true end) (funits P)
  && forallb (fun u => match kept_preds c (u_name u) with [] => true | _ => false end) (p_in P ++ p_inout P)
  && (let ins := r_inputs (c_r c) in forallb (fun u => mem_str (u_name u) ins) (p_in P ++ p_inout P))
  && (let outs := r_outputs (c_r c) in forallb (fun n => mem_str n outs) (out_names P)).
Definition C11_accept_judgeb (d : desc) (P : proc) : bool :=
  negb (syntactic_defect d) && C09_checkb P && C10_judgeb d P.
