(* Readings_defs.v -- definitions (only) used by props/Readings.v: Prop-level vocabulary for the readings of
   C02, C03 and of the lock clause of wf_procb.  (`CrLike` abstracts the inversion principle of `croute`; it
   is a leftover of how the route lemma was first proved and is harmless.) *)
From PS Require Import Base Bag RegAccess Sim Diag.

Definition performs (P : proc) (d : diagram) (t i : nat) (k : aty) : Prop :=
  exists u, In (i, LU) (occ d t u) /\ (match k with RD => has_rl P u | WR => has_wl P u end) = true.
Definition performed_before (P : proc) (d : diagram) (i : nat) (k : aty) (t : nat) : Prop :=
  exists a, a < t /\ performs P d a i k.
Definition outstanding (P : proc) (prog : list instr) (d : diagram) (t i : nat) (u : string) : Prop :=
  (has_rl P u = true /\
   exists k r, k < i /\ In r (srcs_of prog i) /\ dst_of prog k = r /\ ~ performed_before P d k WR t)
  \/
  (has_wl P u = true /\
   exists k, k < i /\ ((In (dst_of prog i) (srcs_of prog k) /\ ~ performed_before P d k RD t)
                       \/ (dst_of prog k = dst_of prog i /\ ~ performed_before P d k WR t))).

(* a path of units supporting c along declared connections *)
Inductive croute (P : proc) (c : string) : list string -> Prop :=
| cr_one : forall u, supports P u c = true -> croute P c [u]
| cr_cons : forall u v l, supports P u c = true -> In v (succs_of P u) -> croute P c (v :: l) -> croute P c (u :: v :: l).
Definition maximal (P : proc) (c : string) (l : list string) : Prop :=
  forall u, last l EmptyString = u -> forall v, In v (succs_of P u) -> supports P v c = false.

(* what the proof uses of `croute`: its inversion principle *)
Class CrLike (cr : proc -> string -> list string -> Prop) : Prop :=
  cr_inv : forall P c l, cr P c l ->
    (exists u, l = [u] /\ supports P u c = true) \/
    (exists u v l', l = u :: v :: l' /\ supports P u c = true /\ In v (succs_of P u) /\ cr P c (v :: l')).

Global Hint Extern 1 (CrLike _) =>
  (let H := fresh in intros ? ? ? H; inversion H; subst; [left | right]; eauto 10) : typeclass_instances.

(* sanity: the hint finds the instance for the local copy *)
Lemma CrLike_croute : CrLike croute.
Proof. typeclasses eauto. Qed.

(* ---- further vocabulary (Readings2 / Readings3) ---- *)
(* (i, u) starts a memory stage in cycle t *)
Definition enters_mem (P : proc) (prog : list instr) (d : diagram) (t i : nat) (u : string) : Prop :=
  (exists l, In (i, l) (occ d t u)) /\ ~ (exists l, In (i, l) (prev_occ d t u))
  /\ mem_needed P u (cat_of prog i) = true.
