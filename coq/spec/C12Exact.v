(* C12Exact.v -- the checkers that JUDGE IMPLEMENTATION OBJECTS for C12, cut down to what the property says:
   listing orders (internal units sink-first, outputs by name) and classification of ports; nothing about the
   order of a unit's predecessor list or of its capability / memory lists, which C12 does not mention
   (C12_order_checkb and C12_parts_checkb of LoaderSpec.v also demand sorted predecessor lists: true of the
   model and proved, but stronger than the property, hence not used as judges). *)
From PS Require Import Base Str Sim Graph Loader Diag LoaderSpec.

Definition fname (f : funit) : string := u_name (f_model f).
Definition C12_listing_checkb (P : proc) : bool :=
  sink_first (p_int P) [] && sortedb String.leb (map fname (p_out P)).

Definition same_members (a b : list string) : bool :=
  forallb (fun x => mem_str x b) a && forallb (fun x => mem_str x a) b.
Definition unit_same (a b : unit) : bool :=
  String.eqb (u_name a) (u_name b) && (u_width a =? u_width b)
  && same_members (u_caps a) (u_caps b) && Bool.eqb (u_rl a) (u_rl b) && Bool.eqb (u_wl a) (u_wl b)
  && same_members (u_mem a) (u_mem b).
Definition funit_same (a b : funit) : bool :=
  unit_same (f_model a) (f_model b) && same_members (f_preds a) (f_preds b).
Definition same_units (a b : list unit) : bool :=
  (length a =? length b) && forallb (fun x => existsb (unit_same x) b) a && forallb (fun y => existsb (unit_same y) a) b.
(* built from parts: the same parts (up to the order of ports and inside member lists), internal units and
   outputs re-ordered *)
Definition C12_parts_listing_checkb (ins : list unit) (outs : list funit) (inouts : list unit) (ints : list funit)
                                    (P : proc) : bool :=
  same_units (p_in P) ins && same_units (p_inout P) inouts
  && (length (p_out P) =? length outs) && (length (p_int P) =? length ints)
  && forallb (fun f => existsb (funit_same f) outs) (p_out P)
  && forallb (fun f => existsb (funit_same f) ints) (p_int P)
  && nodupb String.eqb (map fname (p_int P))
  && C12_listing_checkb P.

(* the property's words *)
Definition C12_listing_prop (P : proc) : Prop :=
  (* every internal unit is listed before all of its predecessors (none of them is listed at or before it) *)
  (forall l1 f l2, p_int P = l1 ++ f :: l2 -> forall p, In p (f_preds f) -> ~ In p (map fname (l1 ++ [f]))) /\
  (* output ports in name order *)
  (forall l1 a b l2, map fname (p_out P) = l1 ++ a :: b :: l2 -> String.leb a b = true).
Definition C12_classify_prop (P : proc) : Prop :=
  (forall u, In u (p_in P) -> succs_of P (u_name u) <> []) /\
  (forall u, In u (p_inout P) -> succs_of P (u_name u) = []) /\
  (forall f, In f (p_out P) -> f_preds f <> [] /\ succs_of P (fname f) = []) /\
  (forall f, In f (p_int P) -> f_preds f <> [] /\ succs_of P (fname f) <> []).
