(* Exact6_defs.v -- definition (only) for props/Exact6.v: the Prop-level statement of C10 about an arbitrary
   processor object P and a description d (the clauses of C10_reading in props/Readings2.v, with the retained
   memory-access list added), over the vocabulary of spec/LoaderReadings.v. *)
From Coq Require Import ZArith.
From PS Require Import Base Str Sim Graph Loader Diag LoaderSpec LoaderReadings.

Definition C10_prop (d : desc) (P : proc) : Prop :=
  let r := resolve d in
  (* no unit twice; exactly the units from which a usable declared output is reachable *)
  NoDup (unit_names P) /\
  (forall u, In u (unit_names P) <-> reaches_out r u) /\
  (* every unit keeps exactly the capabilities fed to it, and its declared width, locks and memory list *)
  (forall x, In x (all_units P) ->
     (forall c, In c (u_caps x) <-> feeds r c (u_name x)) /\
     (exists ud, d_unit d (u_name x) = Some ud /\ u_width x = Z.to_nat (d_width ud) /\
                 u_rl x = d_rl ud /\ u_wl x = d_wl ud /\
                 (forall c, In c (u_mem x) <-> In c (map (std (r_creg r)) (d_mem ud))))) /\
  (* predecessors are exactly the kept usable connections; input-side units have none *)
  (forall f p, In f (funits P) ->
     (In p (f_preds f) <-> (In p (unit_names P) /\ usable_conn r p (u_name (f_model f))))) /\
  (forall f, In f (funits P) -> f_preds f <> []) /\
  (forall u p, In u (p_in P ++ p_inout P) -> ~ (In p (unit_names P) /\ usable_conn r p (u_name u))) /\
  (* ports of the result were ports of the description *)
  (forall u, In u (in_names P) -> In u (r_inputs r)) /\
  (forall u, In u (out_names P) -> In u (r_outputs r)).
