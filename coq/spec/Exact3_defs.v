(* Exact3_defs.v -- definitions (only) for props/Exact3.v: the Prop-level statements of the hazard-order
   clause of C01 and of C02 (the conclusions of C01_hazard_order and C02_reading) as definitions. *)
From PS Require Import Base Str Bag RegAccess Sim Graph Loader Diag Readings_defs Readings4_defs Exact_defs.

Definition C01_order_prop (P : proc) (prog : list instr) (d : diagram) : Prop :=
  forall i j ki kj tj, i < j -> j < length prog -> In (ki, kj) (conflicts prog i j) ->
    performs P d tj j kj -> exists ti, ti < tj /\ performs P d ti i ki.

Definition C02_prop (P : proc) (prog : list instr) (d : diagram) : Prop :=
  forall t u i l, t < length d -> In (i, l) (occ d t u) ->
    ((exists l0, In (i, l0) (prev_occ d t u) /\ l0 <> LD) -> l = LS) /\
    (~ (exists l0, In (i, l0) (prev_occ d t u) /\ l0 <> LD) ->
     (l = LD /\ outstanding P prog d t i u) \/ (l = LU /\ ~ outstanding P prog d t i u)).
