(* OrderSpec.v -- C20: the only nondeterminism a pure model can express is the iteration order of the
   Python sets the loader iterates.  chk_terminals iterates a frozenset of new terminals; here the order
   is an arbitrary re-ordering function. *)
From Coq Require Import Permutation.
From PS Require Import Base Str Sim Graph Loader.

Fixpoint chk_terminals_ord (ord : list string -> list string) (fuel : nat) (g : graph)
                           (orig_in orig_out : list string) : graph + load_err :=
  match fuel with
  | 0 => inl g
  | S f =>
      match ord (filter (fun n => negb (mem_str n orig_out)) (out_ports_of g)) with
      | [] => inl g
      | new =>
          match filter (fun n => mem_str n orig_in) new with
          | [] => chk_terminals_ord ord f (fold_left remove_node new g) orig_in orig_out
          | dead => inr (EDeadInput dead)
          end
      end
  end.

(* load_proc_desc with the terminal-removal pass as a parameter (the body is load_proc_desc's) *)
Definition load_with (ct : nat -> graph -> list string -> list string -> graph + load_err) (d : desc) : load_res :=
  match add_units (d_units d) {| gs_g := g_empty; gs_at := []; gs_ureg := []; gs_creg := [] |} with
  | inr e => LoadErr e
  | inl s =>
      match add_edges (d_edges d) (gs_ureg s) (gs_g s) with
      | inr e => LoadErr e
      | inl g =>
          match topo_sort g with
          | None => LoadErr ECycle
          | Some order =>
              let orig_in := in_ports_of g in
              let orig_out := out_ports_of g in
              let '(g1, at1) := rm_empty_units (clean_struct order (g, gs_at s)) in
              match ct (S (length (g_nodes g1))) g1 orig_in orig_out with
              | inr e => LoadErr e
              | inl g2 =>
                  match filter (fun p => has_node g2 p) orig_in with
                  | [] => LoadErr EEmptyProc
                  | _ =>
                      match do_cap_checks g2 at1 (dfs_postorder g2) (out_ports_of g2) (cap_units g2 at1) with
                      | Some e => LoadErr e
                      | None => make_processor g2 at1 (gs_creg s)
                      end
                  end
              end
          end
      end
  end.

(* same result, or the same class of error naming the same set of dead input ports *)
Definition same_outcome (a b : load_res) : Prop :=
  a = b \/ exists ps ps', a = LoadErr (EDeadInput ps) /\ b = LoadErr (EDeadInput ps') /\ Permutation ps ps'.
