(* LoaderSpec.v -- declarative reading of C09..C12 as executable checkers.  They are computed from the
   description (by graph search, not by the loader's pruning passes) and from the resulting processor,
   and are evaluated, after extraction, on the IMPLEMENTATION's results. *)
From Coq Require Import ZArith.
From PS Require Import Base Str Sim Graph Loader Diag.

(* ---------- the processor as a graph ---------- *)
Definition proc_graph (P : proc) : graph :=
  let g0 := fold_left add_node (unit_names P) g_empty in
  fold_left (fun g f => fold_left (fun g p => add_edge g p (u_name (f_model f))) (f_preds f) g) (funits P) g0.
Definition caps_in (P : proc) (u : string) : list string :=
  match find_unit P u with Some x => u_caps x | None => [] end.
Fixpoint sortedb (leb : string -> string -> bool) (l : list string) : bool :=
  match l with
  | a :: ((b :: _) as t) => leb a b && sortedb leb t
  | _ => true
  end.

(* lock counts of kind k along every maximal c-route from u *)
Fixpoint lock_counts (fuel : nat) (P : proc) (c u : string) (k : lock_kind) (acc : nat) : list nat :=
  match fuel with
  | 0 => [99]
  | S f =>
      let acc' := acc + (if match k with LkRead => has_rl P u | LkWrite => has_wl P u end then 1 else 0) in
      match filter (fun s => supports P s c) (succs_of P u) with
      | [] => [acc']
      | nxt => flat_map (fun s => lock_counts f P c s k acc') nxt
      end
  end.
Definition reaches_output (P : proc) (c u : string) : bool :=
  let seen := reach_from (S (nunits P)) (fun x => filter (fun s => supports P s c) (succs_of P x)) [u] [u] in
  existsb (fun o => mem_str o seen) (out_names P).

(* ---------- C09: an accepted description yields a well-formed processor ---------- *)
Definition C09_checkb (P : proc) : bool :=
  is_dag (proc_graph P)
  && nodupb ic_eqb (unit_names P)
  && forallb (fun u => (0 <? u_width u) && match u_caps u with [] => false | _ => true end) (all_units P)
  && forallb (fun f => forallb (fun p => mem_str p (unit_names P)
                                          && existsb (fun c => mem_str c (caps_in P p)) (u_caps (f_model f)))
                               (f_preds f)) (funits P)
  && forallb (fun p => forallb (fun c =>
        reaches_output P c (u_name p)
        && forallb (fun n => n =? 1) (lock_counts (S (nunits P)) P c (u_name p) LkRead 0)
        && forallb (fun n => n =? 1) (lock_counts (S (nunits P)) P c (u_name p) LkWrite 0))
        (u_caps p)) (p_in P ++ p_inout P).

(* ---------- resolving a description: first spellings of names and capabilities ---------- *)
Definition unit_reg (d : desc) : list string := dedup_by ic_eqb (map d_name (d_units d)).
Definition cap_reg (d : desc) : list string := dedup_by ic_eqb (flat_map d_caps (d_units d)).
Definition std (reg : list string) (x : string) : string := match ic_find x reg with Some s => s | None => x end.
Definition d_names (d : desc) : list string := map d_name (d_units d).
Definition d_unit (d : desc) (u : string) : option udesc := find (fun x => String.eqb (d_name x) u) (d_units d).
(* the resolved description, computed once: unit names, capabilities per unit and connections in their
   first spellings *)
Record rdesc := { r_names : list string; r_creg : list string;
                  r_ucaps : list (string * list string); r_es : list (string * string) }.
Definition resolve (d : desc) : rdesc :=
  let ureg := unit_reg d in
  let creg := cap_reg d in
  {| r_names := d_names d; r_creg := creg;
     r_ucaps := map (fun u => (d_name u, dedup_by String.eqb (map (std creg) (d_caps u)))) (d_units d);
     r_es := flat_map (fun e => match e with [a; b] => [(std ureg a, std ureg b)] | _ => [] end) (d_edges d) |}.
Definition r_succs (r : rdesc) (u : string) : list string :=
  map snd (filter (fun e => String.eqb (fst e) u) (r_es r)).
Definition r_preds (r : rdesc) (u : string) : list string :=
  map fst (filter (fun e => String.eqb (snd e) u) (r_es r)).
Definition declares (r : rdesc) (u c : string) : bool := mem_str c (assoc [] (r_ucaps r) u).
Definition r_inputs (r : rdesc) : list string := filter (fun u => match r_preds r u with [] => true | _ => false end) (r_names r).
Definition r_outputs (r : rdesc) : list string := filter (fun u => match r_succs r u with [] => true | _ => false end) (r_names r).
Definition d_inputs (d : desc) : list string := r_inputs (resolve d).
Definition d_outputs (d : desc) : list string := r_outputs (resolve d).
Definition nd (d : desc) : nat := S (length (d_units d)).

(* F u: capabilities some description input port can feed to u along units that all declare them *)
Definition fed_units (r : rdesc) (fuel : nat) (c : string) : list string :=
  let srcs := filter (fun u => declares r u c) (r_inputs r) in
  reach_from fuel (fun x => filter (fun s => declares r s c) (r_succs r x)) srcs srcs.

(* memo tables: F for every unit, the usable units, the kept units (computed once per description) *)
Record dctx := { c_d : desc; c_r : rdesc; c_F : list (string * list string); c_U1 : list string; c_kept : list string }.
Definition Ft (tab : list (string * list string)) (u : string) : list string := assoc [] tab u.
Definition shares_t (tab : list (string * list string)) (p u : string) : bool :=
  existsb (fun c => mem_str c (Ft tab u)) (Ft tab p).
Definition e1_succs_t (r : rdesc) (tab : list (string * list string)) (u1 : list string) (u : string) : list string :=
  filter (fun s => mem_str s u1 && shares_t tab u s) (r_succs r u).
Definition mk_ctx (d : desc) : dctx :=
  let r := resolve d in
  let fed := map (fun c => (c, fed_units r (nd d) c)) (r_creg r) in
  let tab := map (fun u => (u, filter (fun c => mem_str u (assoc [] fed c)) (r_creg r))) (r_names r) in
  let u1 := filter (fun u => match Ft tab u with [] => false | _ => true end) (r_names r) in
  (* kept units: usable units from which a usable declared output is reachable along usable connections *)
  let outs := filter (fun o => mem_str o u1) (r_outputs r) in
  let kept := filter (fun u => let seen := reach_from (nd d) (e1_succs_t r tab u1) [u] [u] in
                               existsb (fun o => mem_str o seen) outs) u1 in
  {| c_d := d; c_r := r; c_F := tab; c_U1 := u1; c_kept := kept |}.
Definition Fc (c : dctx) (u : string) : list string := Ft (c_F c) u.
Definition shares (c : dctx) (p u : string) : bool := shares_t (c_F c) p u.
Definition U1 (c : dctx) : list string := c_U1 c.
Definition kept (c : dctx) : list string := c_kept c.
Definition e1_succs (c : dctx) (u : string) : list string := e1_succs_t (c_r c) (c_F c) (c_U1 c) u.
Definition kept_preds (c : dctx) (u : string) : list string :=
  dedup_by String.eqb (filter (fun p => mem_str p (kept c) && shares c p u) (r_preds (c_r c) u)).
Definition kept_succs (c : dctx) (u : string) : list string :=
  dedup_by String.eqb (filter (fun s => mem_str s (kept c)) (e1_succs c u)).

(* the unit the loaded processor must contain for a kept description unit *)
Definition expected_unit (c : dctx) (x : udesc) : unit :=
  let d := c_d c in
  {| u_name := d_name x; u_width := Z.to_nat (d_width x); u_caps := sort_str (Fc c (d_name x));
     u_rl := d_rl x; u_wl := d_wl x;
     u_mem := sort_str (map (std (r_creg (c_r c))) (d_mem x)) |}.
Definition unit_eqb (a b : unit) : bool :=
  String.eqb (u_name a) (u_name b) && (u_width a =? u_width b)
  && list_eqb String.eqb (u_caps a) (u_caps b) && Bool.eqb (u_rl a) (u_rl b) && Bool.eqb (u_wl a) (u_wl b)
  && list_eqb String.eqb (u_mem a) (u_mem b).
Definition same_set (a b : list string) : bool :=
  list_eqb String.eqb (sort_str (dedup_by String.eqb a)) (sort_str (dedup_by String.eqb b)).

(* ---------- C10: the loaded processor is exactly the usable part ---------- *)
Definition C10_checkb (d : desc) (P : proc) : bool :=
  let c := mk_ctx d in
  (* the kept units, and nothing else *)
  same_set (unit_names P) (kept c)
  && nodupb String.eqb (unit_names P)
  (* every kept unit as declared, with exactly the fed capabilities *)
  && forallb (fun u => match d_unit d (u_name u) with
                       | Some x => unit_eqb u (expected_unit c x)
                       | None => false end) (all_units P)
  (* predecessors are exactly the kept connections *)
  && forallb (fun f => same_set (f_preds f) (kept_preds c (u_name (f_model f)))
                       && match f_preds f with [] => false | _ => true end) (funits P)
  && forallb (fun u => match kept_preds c (u_name u) with [] => true | _ => false end) (p_in P ++ p_inout P)
  (* ports of the result were ports of the description *)
  && (let ins := r_inputs (c_r c) in forallb (fun u => mem_str (u_name u) ins) (p_in P ++ p_inout P))
  && (let outs := r_outputs (c_r c) in forallb (fun n => mem_str n outs) (out_names P)).

(* ---------- C12: sink-first listing, name-ordered outputs, ports classified by connectivity ---------- *)
Definition C12_order_checkb (P : proc) : bool :=
  sink_first (p_int P) []
  && sortedb String.leb (map (fun f => u_name (f_model f)) (p_out P))
  && forallb (fun f => sortedb String.leb (f_preds f)) (funits P).
Definition nonempty_l {A} (l : list A) : bool := match l with [] => false | _ => true end.
Definition C12_classify_checkb (P : proc) : bool :=
  forallb (fun u => nonempty_l (succs_of P (u_name u))) (p_in P)
  && forallb (fun u => negb (nonempty_l (succs_of P (u_name u)))) (p_inout P)
  && forallb (fun f => nonempty_l (f_preds f) && negb (nonempty_l (succs_of P (u_name (f_model f))))) (p_out P)
  && forallb (fun f => nonempty_l (f_preds f) && nonempty_l (succs_of P (u_name (f_model f)))) (p_int P).
Definition funit_eqb (a b : funit) : bool :=
  unit_eqb (f_model a) (f_model b) && list_eqb String.eqb (f_preds a) (f_preds b).
(* built from parts: same parts, re-ordered *)
Definition C12_parts_checkb (ins : list unit) (outs : list funit) (inouts : list unit) (ints : list funit) (P : proc) : bool :=
  list_eqb unit_eqb (p_in P) ins && list_eqb unit_eqb (p_inout P) inouts
  && (length (p_out P) =? length outs) && (length (p_int P) =? length ints)
  && forallb (fun f => existsb (funit_eqb f) (map norm_funit outs)) (p_out P)
  && forallb (fun f => existsb (funit_eqb f) (map norm_funit ints)) (p_int P)
  && nodupb String.eqb (map (fun f => u_name (f_model f)) (p_int P))
  && C12_order_checkb P.

(* ---------- C11: a rejection names a defect that is really there ---------- *)
Definition has_cycle (d : desc) : bool :=
  let g0 := fold_left add_node (d_names d) g_empty in
  negb (is_dag (fold_left (fun g e => add_edge g (fst e) (snd e)) (r_es (resolve d)) g0)).
Definition syntactic_defect (d : desc) : bool :=
  negb (nodupb ic_eqb (d_names d))
  || existsb (fun u => (d_width u <=? 0)%Z) (d_units d)
  || existsb (fun e => negb (length e =? 2) || existsb (fun x => negb (mem_ic x (d_names d))) e) (d_edges d)
  || has_cycle d.
Fixpoint first_dup (l : list string) (seen : list string) : option (string * string) :=
  match l with
  | [] => None
  | x :: t => match ic_find x seen with Some o => Some (o, x) | None => first_dup t (seen ++ [x]) end
  end.
(* lock counts over the KEPT graph with fed capabilities, from a description unit *)
Fixpoint d_lock_counts (fuel : nat) (cx : dctx) (c u : string) (k : lock_kind) (acc : nat) : list nat :=
  match fuel with
  | 0 => [99]
  | S f =>
      let locked := match d_unit (c_d cx) u with
                    | Some x => match k with LkRead => d_rl x | LkWrite => d_wl x end
                    | None => false end in
      let acc' := acc + (if locked then 1 else 0) in
      match filter (fun s => mem_str c (Fc cx s)) (kept_succs cx u) with
      | [] => [acc']
      | nxt => flat_map (fun s => d_lock_counts f cx c s k acc') nxt
      end
  end.
Definition all_same (l : list nat) : bool :=
  match l with [] => true | x :: t => forallb (Nat.eqb x) t end.
Definition C11_struct_ok (d : desc) (e : load_err) : bool :=
  let cx := mk_ctx d in
  let ins := r_inputs (c_r cx) in
  match e with
  | EDeadInput ports =>
      nonempty_l ports
      && forallb (fun p => mem_str p ins && mem_str p (U1 cx) && negb (mem_str p (kept cx))) ports
  | EEmptyProc => negb (existsb (fun p => mem_str p (kept cx)) ins)
  | EPathLock _ start lk cap =>
      mem_str start (kept cx) && mem_str cap (Fc cx start)
      && (let cs := d_lock_counts (nd d) cx cap start lk 0 in
          negb (all_same cs) || existsb (fun n => 1 <? n) cs
          || (mem_str start ins && existsb (fun n => n =? 0) cs))
  | EBlockedCap cap port =>
      mem_str port ins && mem_str port (kept cx) && mem_str cap (Fc cx port)
      && (let seen := reach_from (nd d) (fun x => filter (fun s => mem_str cap (Fc cx s)) (kept_succs cx x)) [port] [port] in
          negb (existsb (fun o => mem_str o seen && match kept_succs cx o with [] => true | _ => false end) (kept cx)))
  | _ => false
  end.
Definition C11_error_ok (d : desc) (e : load_err) : bool :=
  match e with
  | EDupUnit old new =>
      (* the pair reported is the first case-insensitive clash in definition order *)
      match first_dup (d_names d) [] with
      | Some (o, n) => String.eqb o old && String.eqb n new
      | None => false end
  | EBadWidth u w => existsb (fun x => String.eqb (d_name x) u && (d_width x =? w)%Z && (w <=? 0)%Z) (d_units d)
  | EBadEdge e => existsb (fun x => list_eqb String.eqb x e && negb (length x =? 2)) (d_edges d)
  | EUndefUnit n => existsb (fun x => (length x =? 2) && mem_str n x) (d_edges d) && negb (mem_ic n (d_names d))
  | ECycle => negb (syntactic_defect {| d_units := d_units d; d_edges := [] |}) && has_cycle d
  | EAclAssert => false                           (* a bare AssertionError is not a documented rejection *)
  | _ => negb (syntactic_defect d) && C11_struct_ok d e
  end.
(* an acceptance is justified: no syntactic defect, and the result is well-formed and exact *)
Definition C11_accept_ok (d : desc) (P : proc) : bool :=
  negb (syntactic_defect d) && C09_checkb P && C10_checkb d P.

(* guard of C11 (the listed finding O2 lives exactly outside it) *)
Definition acl_knownb (d : desc) : bool :=
  forallb (fun x => forallb (fun c => mem_ic c (cap_reg d)) (d_mem x)) (d_units d).
