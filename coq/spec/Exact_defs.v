(* Exact_defs.v -- definitions (only) for props/Exact.v: the shape every decoded diagram has (a cycle record is
   a dict: one entry list per unit name; a unit's list shows an instruction at most once), and the Prop-level
   statement of C09 as one definition. *)
From PS Require Import Base Str Bag RegAccess Sim Graph Loader Diag LoaderSpec Readings_defs Readings4_defs.

Definition record_shape (r : record) : Prop :=
  NoDup (map fst r) /\ forall u es, In (u, es) r -> NoDup (map fst es).
Definition diagram_shape (d : diagram) : Prop := forall r, In r d -> record_shape r.

(* the five clauses of props/Readings5.v *)
Definition C09_prop (P : proc) : Prop :=
  (forall u, ~ path P u u) /\
  (forall l1 a l2 b l3, unit_names P = l1 ++ a :: l2 ++ b :: l3 -> ic_eqb a b = false) /\
  (forall u, In u (all_units P) -> 0 < u_width u /\ u_caps u <> []) /\
  (forall u v, In v (succs_of P u) ->
     In u (unit_names P) /\ In v (unit_names P) /\ exists c, supports P u c = true /\ supports P v c = true) /\
  (forall p c, In p (p_in P ++ p_inout P) -> In c (u_caps p) ->
     (exists l, croute P c (u_name p :: l) /\ In (last (u_name p :: l) EmptyString) (out_names P)) /\
     (forall l, croute P c (u_name p :: l) -> maximal P c (u_name p :: l) ->
        count_locks P LkRead (u_name p :: l) = 1 /\ count_locks P LkWrite (u_name p :: l) = 1)).
(* every predecessor named by a unit is a unit of the processor (a ProcessorDesc object may name anything) *)
Definition preds_known (P : proc) : Prop :=
  forall f p, In f (funits P) -> In p (f_preds f) -> In p (unit_names P).
