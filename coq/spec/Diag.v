(* Diag.v -- vocabulary for reading pipeline diagrams, the guard wf_procb of the simulator
   properties, and the executable checkers C01..C08 (evaluated, after extraction, on the
   IMPLEMENTATION's diagrams).  The Prop-level statements live in props/, the lemmas
   relating them to these checkers in proofs/. *)
From PS Require Import Base Bag RegAccess Sim.

Definition diagram := list record.
Inductive dtag := TDone | TStalled | TOther.

Definition rec_at (d : diagram) (t : nat) : record := nth t d [].
Definition occ (d : diagram) (t : nat) (u : string) : list entry := get (rec_at d t) u.
Definition prev_occ (d : diagram) (t : nat) (u : string) : list entry :=
  match t with 0 => [] | S t' => occ d t' u end.
Definition has (es : list entry) (i : nat) : bool := existsb (fun e => fst e =? i) es.
Definition lab_in (es : list entry) (i : nat) : option label :=
  match find (fun e => fst e =? i) es with Some e => Some (snd e) | None => None end.
(* all (unit, label) places of instruction i in a record *)
Definition places (r : record) (i : nat) : list (string * label) :=
  flat_map (fun kv => map (fun e => (fst kv, snd e)) (filter (fun e => fst e =? i) (snd kv))) r.
Definition place_at (d : diagram) (t i : nat) : option (string * label) := hd_error (places (rec_at d t) i).
Definition appears (d : diagram) (i : nat) : bool :=
  existsb (fun r => match places r i with [] => false | _ => true end) d.

(* ---------- processor structure ---------- *)
Definition unit_names (P : proc) : list string := map u_name (all_units P).
Definition in_names (P : proc) : list string := map u_name (p_in P ++ p_inout P).
Definition funits (P : proc) : list funit := p_out P ++ p_int P.
Definition preds_of (P : proc) (u : string) : list string :=
  match find (fun f => String.eqb u (u_name (f_model f))) (funits P) with
  | Some f => f_preds f | None => [] end.
Definition succs_of (P : proc) (u : string) : list string :=
  map (fun f => u_name (f_model f)) (filter (fun f => mem_str u (f_preds f)) (funits P)).
Definition width_of (P : proc) (u : string) : nat :=
  match find_unit P u with Some x => u_width x | None => 0 end.
Definition supports (P : proc) (u c : string) : bool :=
  match find_unit P u with Some x => mem_str c (u_caps x) | None => false end.
Definition mem_needed (P : proc) (u c : string) : bool :=
  match find_unit P u with Some x => mem_str c (u_mem x) | None => false end.
Definition has_rl (P : proc) (u : string) : bool :=
  match find_unit P u with Some x => u_rl x | None => false end.
Definition has_wl (P : proc) (u : string) : bool :=
  match find_unit P u with Some x => u_wl x | None => false end.

(* every maximal c-route from u (r, w = locks met before u): exactly one read lock, exactly one
   write lock, no read lock strictly after a write lock *)
Fixpoint route_ok (fuel : nat) (P : proc) (c u : string) (r w : nat) : bool :=
  match fuel with
  | 0 => false
  | S f =>
      let r' := r + (if has_rl P u then 1 else 0) in
      let w' := w + (if has_wl P u then 1 else 0) in
      negb (has_rl P u && (0 <? w))
      && match filter (fun s => supports P s c) (succs_of P u) with
         | [] => (r' =? 1) && (w' =? 1)
         | nxt => forallb (fun s => route_ok f P c s r' w') nxt
         end
  end.
Definition locks_ok (P : proc) : bool :=
  forallb (fun p => forallb (fun c => route_ok (S (nunits P)) P c (u_name p) 0 0) (u_caps p))
          (p_in P ++ p_inout P).
(* p_int lists every internal unit before all of its predecessors *)
Fixpoint sink_first (l : list funit) (seen : list string) : bool :=
  match l with
  | [] => true
  | f :: t =>
      let seen' := u_name (f_model f) :: seen in
      negb (existsb (fun p => mem_str p seen') (f_preds f)) && sink_first t seen'
  end.
Definition wf_procb (P : proc) : bool :=
  nodupb String.eqb (unit_names P)
  && forallb (fun f => nodupb String.eqb (f_preds f)
                       && forallb (fun p => mem_str p (unit_names P) && negb (mem_str p (out_names P)))
                                  (f_preds f)) (funits P)
  && sink_first (p_int P) []
  && locks_ok P.

(* ---------- shared observations ---------- *)
Definition arrives (d : diagram) (t i : nat) (u : string) : bool :=
  has (occ d t u) i && negb (has (prev_occ d t u) i).
(* (instruction, unit) pairs that start a memory stage in cycle t *)
Definition mem_entries (P : proc) (prog : list instr) (d : diagram) (t : nat) : list (nat * string) :=
  flat_map (fun kv => flat_map (fun e =>
      if negb (has (prev_occ d t (fst kv)) (fst e)) && mem_needed P (fst kv) (cat_of prog (fst e))
      then [(fst e, fst kv)] else []) (snd kv)) (rec_at d t).
(* first cycle in which i is shown 'U' in a unit holding the lock of the given kind *)
Definition performs_at (P : proc) (d : diagram) (t i : nat) (k : aty) : bool :=
  existsb (fun pl => label_eqb (snd pl) LU
                     && match k with RD => has_rl P (fst pl) | WR => has_wl P (fst pl) end)
          (places (rec_at d t) i).
Fixpoint first_such (f : nat -> bool) (t n : nat) : option nat :=
  match n with 0 => None | S n' => if f t then Some t else first_such f (S t) n' end.
Definition acc_time (P : proc) (d : diagram) (i : nat) (k : aty) : option nat :=
  first_such (fun t => performs_at P d t i k) 0 (length d).
Definition done_before (P : proc) (d : diagram) (i : nat) (k : aty) (t : nat) : bool :=
  match acc_time P d i k with Some a => a <? t | None => false end.
Definition first_cycle (d : diagram) (i : nat) : option nat :=
  first_such (fun t => match places (rec_at d t) i with [] => false | _ => true end) 0 (length d).

Definition srcs_of (prog : list instr) (i : nat) : list string :=
  match nth_error prog i with Some x => i_srcs x | None => [] end.
Definition dst_of (prog : list instr) (i : nat) : string :=
  match nth_error prog i with Some x => i_dst x | None => EmptyString end.

(* ---------- C04: width ---------- *)
Definition C04_checkb (P : proc) (d : diagram) : bool :=
  forallb (fun r => forallb (fun kv => length (snd kv) <=? width_of P (fst kv)) r) d.

(* ---------- C05: one memory stage start per cycle ---------- *)
Definition C05_checkb (P : proc) (prog : list instr) (d : diagram) : bool :=
  forallb (fun t => length (mem_entries P prog d t) <=? 1) (seq 0 (length d)).

(* ---------- C01: conflicting accesses in program order; replay = sequential ---------- *)
Definition conflicts (prog : list instr) (i j : nat) : list (aty * aty) :=
  (if mem_str (dst_of prog i) (srcs_of prog j) then [(WR, RD)] else [])
  ++ (if mem_str (dst_of prog j) (srcs_of prog i) then [(RD, WR)] else [])
  ++ (if String.eqb (dst_of prog i) (dst_of prog j) then [(WR, WR)] else []).
Definition ordered_pair (P : proc) (d : diagram) (i j : nat) (ks : aty * aty) : bool :=
  match acc_time P d j (snd ks) with
  | None => true
  | Some tj => match acc_time P d i (fst ks) with Some ti => ti <? tj | None => false end
  end.
Definition C01_order_checkb (P : proc) (prog : list instr) (d : diagram) : bool :=
  let n := length prog in
  forallb (fun j => forallb (fun i => forallb (ordered_pair P d i j) (conflicts prog i j)) (seq 0 j))
          (seq 0 n).
(* replay: a value is identified by the instruction that produced it (None = initial content) *)
Definition regfile := list (string * option nat).
Definition rf_get (rf : regfile) (r : string) : option nat := assoc None rf r.
Definition opnds := list (nat * list (option nat)).            (* instruction -> operand producers *)
Definition replay_cycle (P : proc) (prog : list instr) (d : diagram) (st : regfile * opnds) (t : nat)
  : regfile * opnds :=
  let n := length prog in
  let '(rf, ops) := st in
  let readers := filter (fun i => match acc_time P d i RD with Some a => a =? t | None => false end) (seq 0 n) in
  let ops' := ops ++ map (fun i => (i, map (rf_get rf) (srcs_of prog i))) readers in
  let writers := filter (fun i => match acc_time P d i WR with Some a => a =? t | None => false end) (seq 0 n) in
  (fold_left (fun rf i => set rf (dst_of prog i) (Some i)) writers rf, ops').
Definition replay (P : proc) (prog : list instr) (d : diagram) : regfile * opnds :=
  fold_left (replay_cycle P prog d) (seq 0 (length d)) ([], []).
Definition seq_exec (prog : list instr) : regfile * opnds :=
  fold_left (fun st i => let '(rf, ops) := st in
                         (set rf (dst_of prog i) (Some i), ops ++ [(i, map (rf_get rf) (srcs_of prog i))]))
            (seq 0 (length prog)) ([], []).
Definition opt_nat_eqb (a b : option nat) : bool :=
  match a, b with Some x, Some y => x =? y | None, None => true | _, _ => false end.
Definition ops_of (ops : opnds) (i : nat) : option (list (option nat)) :=
  match find (fun p => fst p =? i) ops with Some p => Some (snd p) | None => None end.
(* every instruction that performed its reads got the operands of sequential execution; for a
   completed run the final register file equals the sequential one *)
Definition C01_replay_checkb (P : proc) (prog : list instr) (tg : dtag) (d : diagram) : bool :=
  let '(rf, ops) := replay P prog d in
  let '(rf0, ops0) := seq_exec prog in
  forallb (fun i => match ops_of ops i with
                    | None => match tg with TDone => match srcs_of prog i with [] => true | _ => false end
                                          | _ => true end
                    | Some l => match ops_of ops0 i with
                                | Some l0 => list_eqb opt_nat_eqb l l0
                                | None => false end
                    end) (seq 0 (length prog))
  && match tg with
     | TDone => forallb (fun kv => opt_nat_eqb (rf_get rf (fst kv)) (snd kv)) rf0
     | _ => true
     end.
Definition C01_checkb (P : proc) (prog : list instr) (tg : dtag) (d : diagram) : bool :=
  C01_order_checkb P prog d && C01_replay_checkb P prog tg d.

(* ---------- C02: data stalls are exact ---------- *)
Definition blocked (P : proc) (prog : list instr) (d : diagram) (t i : nat) (u : string) : bool :=
  (has_rl P u
   && existsb (fun r => existsb (fun k => String.eqb (dst_of prog k) r && negb (done_before P d k WR t))
                                (seq 0 i)) (srcs_of prog i))
  || (has_wl P u
      && existsb (fun k => (mem_str (dst_of prog i) (srcs_of prog k) && negb (done_before P d k RD t))
                           || (String.eqb (dst_of prog k) (dst_of prog i) && negb (done_before P d k WR t)))
                 (seq 0 i)).
Definition C02_entry_ok (P : proc) (prog : list instr) (d : diagram) (t : nat) (u : string) (e : entry) : bool :=
  let i := fst e in
  match lab_in (prev_occ d t u) i with
  | Some LU | Some LS => label_eqb (snd e) LS                   (* stayed after its 'U' *)
  | _ =>                                                        (* arriving, or waiting with 'D' *)
      if blocked P prog d t i u then label_eqb (snd e) LD else label_eqb (snd e) LU
  end.
Definition C02_checkb (P : proc) (prog : list instr) (d : diagram) : bool :=
  forallb (fun t => forallb (fun kv => forallb (C02_entry_ok P prog d t (fst kv)) (snd kv)) (rec_at d t))
          (seq 0 (length d)).

(* ---------- C03: one legal gap-free route per instruction ---------- *)
(* the track of i: (cycle, unit, label) for each cycle where it is placed *)
Definition track (d : diagram) (i : nat) : list (nat * (string * label)) :=
  flat_map (fun t => map (fun pl => (t, pl)) (places (rec_at d t) i)) (seq 0 (length d)).
Fixpoint contiguous (l : list nat) : bool :=
  match l with
  | a :: ((b :: _) as t) => (b =? S a) && contiguous t
  | _ => true
  end.
(* split a track into per-unit segments of labels *)
Fixpoint segments (l : list (string * label)) : list (string * list label) :=
  match l with
  | [] => []
  | (u, a) :: t =>
      match segments t with
      | (u', ls) :: rest => if String.eqb u u' then (u, a :: ls) :: rest else (u, [a]) :: (u', ls) :: rest
      | [] => [(u, [a])]
      end
  end.
(* full = true: zero or more D, one U, zero or more S;  full = false: the U-S tail is optional *)
Fixpoint all_lab (x : label) (l : list label) : bool :=
  match l with [] => true | a :: t => label_eqb a x && all_lab x t end.
Fixpoint seg_ok (full : bool) (l : list label) : bool :=
  match l with
  | [] => negb full
  | LD :: t => seg_ok full t
  | LU :: t => all_lab LS t
  | LS :: _ => false
  end.
Fixpoint segs_ok (P : proc) (cap : string) (lastfull : bool) (prev : option string)
                 (l : list (string * list label)) : bool :=
  match l with
  | [] => true
  | (u, ls) :: t =>
      supports P u cap
      && match prev with None => mem_str u (in_names P) | Some p => mem_str p (preds_of P u) end
      && seg_ok (match t with [] => lastfull | _ => true end) ls
      && segs_ok P cap lastfull (Some u) t
  end.
Definition C03_instr_ok (P : proc) (prog : list instr) (tg : dtag) (d : diagram) (i : nat) : bool :=
  let tr := track d i in
  match tr with
  | [] => match tg with TDone => false | _ => true end                    (* not issued *)
  | _ =>
      let segs := segments (map snd tr) in
      let in_last := match places (rec_at d (length d - 1)) i with [] => false | _ => true end in
      let retired := match tg with TDone => true | _ => negb in_last end in
      contiguous (map fst tr)
      && segs_ok P (cat_of prog i) retired None segs
      && nodupb String.eqb (map fst segs)
      && (negb retired
          || match last tr (0, (EmptyString, LD)) with
             | (_, (u, l)) => mem_str u (out_names P) && label_eqb l LU
             end)
  end.
Definition C03_checkb (P : proc) (prog : list instr) (tg : dtag) (d : diagram) : bool :=
  let n := length prog in
  (* only program instructions appear *)
  forallb (fun r => forallb (fun kv => forallb (fun e => fst e <? n) (snd kv)) r) d
  (* issued instructions form a prefix of the program *)
  && forallb (fun i => negb (appears d (S i)) || appears d i) (seq 0 n)
  && forallb (C03_instr_ok P prog tg d) (seq 0 n).

(* ---------- C06: in-order eager issue into the first usable input port ---------- *)
Definition in_ports_by_name (P : proc) : list string := map u_name (in_ports_sorted P).
Definition full_at (P : proc) (d : diagram) (t : nat) (u : string) : bool :=
  width_of P u <=? length (occ d t u).
Definition C06_held_ok (P : proc) (prog : list instr) (d : diagram) (i t : nat) : bool :=
  forallb (fun u => negb (supports P u (cat_of prog i))
                    || full_at P d t u
                    || (mem_needed P u (cat_of prog i)
                        && match mem_entries P prog d t with [] => false | _ => true end))
          (in_ports_by_name P).
Fixpoint before_name (q : string) (l : list string) : list string :=
  match l with [] => [] | u :: t => if String.eqb u q then [] else u :: before_name q t end.
Definition C06_first_ok (P : proc) (prog : list instr) (d : diagram) (i t : nat) (q : string) : bool :=
  forallb (fun u => negb (supports P u (cat_of prog i))
                    || (width_of P u <=? length (filter (fun e => fst e <? i) (occ d t u)))
                    || (mem_needed P u (cat_of prog i)
                        && existsb (fun p => fst p <? i) (mem_entries P prog d t)))
          (before_name q (in_ports_by_name P)).
Definition C06_instr_ok (P : proc) (prog : list instr) (d : diagram) (i : nat) : bool :=
  let start := match i with 0 => Some 0 | S i' => first_cycle d i' end in
  match start with
  | None => negb (appears d i)                       (* predecessor never issued: i not either *)
  | Some s =>
      match first_cycle d i with
      | Some t0 =>
          (s <=? t0)
          && match place_at d t0 i with
             | Some (q, _) => mem_str q (in_names P) && supports P q (cat_of prog i)
                              && C06_first_ok P prog d i t0 q
             | None => false
             end
          && forallb (C06_held_ok P prog d i) (seq s (t0 - s))
      | None => forallb (C06_held_ok P prog d i) (seq s (length d - s))
      end
  end.
Definition C06_checkb (P : proc) (prog : list instr) (d : diagram) : bool :=
  forallb (C06_instr_ok P prog d) (seq 0 (length prog)).

(* ---------- C07: eager advance, oldest first ---------- *)
Definition C07_entry_ok (P : proc) (prog : list instr) (d : diagram) (t : nat) (u : string) (e : entry) : bool :=
  let i := fst e in
  let cap := cat_of prog i in
  if label_eqb (snd e) LD then true
  else if length d <=? S t then true                               (* no next recorded cycle *)
  else if mem_str u (out_names P) then negb (has (occ d (S t) u) i)
  else
    match lab_in (occ d (S t) u) i with
    | None => true
    | Some l =>
        label_eqb l LS
        && forallb (fun s =>
             negb (supports P s cap)
             || ((full_at P d (S t) s
                  || (mem_needed P s cap && existsb (fun p => negb (fst p =? i)) (mem_entries P prog d (S t))))
                 (* no younger instruction took a place in s while i stayed behind *)
                 && forallb (fun e' => negb (i <? fst e') || has (occ d t s) (fst e')
                                       || (mem_needed P s cap && negb (mem_needed P s (cat_of prog (fst e')))))
                            (occ d (S t) s)))
           (succs_of P u)
    end.
Definition C07_checkb (P : proc) (prog : list instr) (d : diagram) : bool :=
  forallb (fun t => forallb (fun kv => forallb (C07_entry_ok P prog d t (fst kv)) (snd kv)) (rec_at d t))
          (seq 0 (length d)).

(* ---------- C08: termination bound; a stall is a genuine fixed point ---------- *)
(* state after the diagram, reconstructed from the diagram alone *)
Fixpoint q_remove (q : queue) (ty : aty) (o : nat) : queue :=
  match q with
  | [] => []
  | g :: t =>
      if aty_eqb ty (g_ty g) && memn o (g_reqs g) then
        match set_remove o (g_reqs g) with [] => t | r => mkG (g_ty g) r :: t end
      else g :: q_remove t ty o
  end.
Definition qs_remove (qs : queues) (reg : string) (ty : aty) (o : nat) : queues :=
  set qs reg (q_remove (assoc [] qs reg) ty o).
Definition performed (P : proc) (d : diagram) (i : nat) (k : aty) : bool :=
  match acc_time P d i k with Some _ => true | None => false end.
Definition recon_queues (P : proc) (prog : list instr) (d : diagram) : queues :=
  fold_left (fun qs i =>
      let qs1 := if performed P d i RD
                 then fold_left (fun qs r => qs_remove qs r RD i) (srcs_of prog i) qs else qs in
      if performed P d i WR then qs_remove qs1 (dst_of prog i) WR i else qs1)
    (seq 0 (length prog)) (build_acc_plan prog).
Definition retired_count (P : proc) (d : diagram) : nat :=
  fold_left (fun n r => n + count_outputs P r) d 0.
Definition issued_count (prog : list instr) (d : diagram) : nat :=
  length (filter (appears d) (seq 0 (length prog))).
Definition recon_state (P : proc) (prog : list instr) (d : diagram) : state :=
  {| tbl := d; qs_ := recon_queues P prog d; entered := issued_count prog d; exited := retired_count P d |}.
Definition records_differ (d : diagram) : bool :=
  forallb (fun t => negb (bag_eqb (rec_at d t) (match t with 0 => [] | S t' => rec_at d t' end)))
          (seq 0 (length d)).
Definition C08_checkb (P : proc) (prog : list instr) (tg : dtag) (d : diagram) : bool :=
  (length d <=? cycle_bound P prog)
  && records_differ d
  && match tg with
     | TDone =>
         let s := recon_state P prog d in
         (entered s =? length prog) && (exited s =? entered s)
     | TStalled =>
         let s := recon_state P prog d in
         ((entered s <? length prog) || (exited s <? entered s))
         && match run_cycle P prog s with inr (Stalled _) => true | _ => false end
     | TOther => false
     end.

(* ---------- the shape of every simulator theorem ---------- *)
Definition sim_result (fuel : nat) (P : proc) (prog : list instr) (tg : dtag) (d : diagram) : Prop :=
  (tg = TDone /\ simulate fuel P prog = Done d) \/ (tg = TStalled /\ simulate fuel P prog = Stalled d).
(* programs as the compiler produces them: the sources of an instruction are duplicate-free *)
Definition wf_progb (prog : list instr) : bool := forallb (fun ins => nodupb String.eqb (i_srcs ins)) prog.
