(* Readings4_defs.v -- definitions (only) used by props/Readings4.v and props/Readings5.v: Prop-level
   vocabulary for reading C06 (issue) on diagrams and C09 (well-formedness) on loaded processors. *)
From PS Require Import Base Str Bag RegAccess Sim Graph Loader Diag Readings_defs.

(* instruction i is shown (with some label) in unit u in cycle t *)
Definition shown (d : diagram) (t i : nat) (u : string) : Prop := exists l, In (i, l) (occ d t u).
(* t is the first cycle in which i is shown anywhere *)
Definition issued_at (d : diagram) (i t : nat) : Prop :=
  (exists u, shown d t i u) /\ forall t' u, t' < t -> ~ shown d t' i u.
(* the cycle from which instruction i is next in line: 0 for the first instruction, otherwise the cycle
   in which its predecessor was issued *)
Definition next_from (d : diagram) (i s : nat) : Prop :=
  match i with 0 => s = 0 | S k => issued_at d k s end.

(* a non-empty path along the connections of a processor *)
Inductive path (P : proc) : string -> string -> Prop :=
| path_one : forall u v, In v (succs_of P u) -> path P u v
| path_cons : forall u v w, In v (succs_of P u) -> path P v w -> path P u w.
Definition has_lock (P : proc) (k : lock_kind) (u : string) : bool :=
  match k with LkRead => has_rl P u | LkWrite => has_wl P u end.
Definition count_locks (P : proc) (k : lock_kind) (l : list string) : nat :=
  length (filter (has_lock P k) l).
