"""S-expression encoding shared with ocaml/sx.ml: ints are decimal atoms, strings are
'x'+hex atoms, symbols are bare atoms, lists are parenthesised."""


class Sym(str):
    """bare atom"""


def enc(x):
    if isinstance(x, Sym):
        return str(x)
    if isinstance(x, bool):
        return "1" if x else "0"
    if isinstance(x, int):
        return str(x)
    if isinstance(x, str):
        return "x" + x.encode("latin-1").hex()
    if isinstance(x, (list, tuple)):
        return "(" + " ".join(enc(y) for y in x) + ")"
    raise TypeError(f"cannot encode {x!r}")


def parse(s):
    pos = 0
    n = len(s)
    stack = [[]]
    while pos < n:
        c = s[pos]
        if c in " \n\t":
            pos += 1
        elif c == "(":
            stack.append([])
            pos += 1
        elif c == ")":
            top = stack.pop()
            stack[-1].append(top)
            pos += 1
        else:
            st = pos
            while pos < n and s[pos] not in " ()\n\t":
                pos += 1
            stack[-1].append(dec_atom(s[st:pos]))
    assert len(stack) == 1, "unbalanced"
    return stack[0][0] if len(stack[0]) == 1 else stack[0]


def dec_atom(a):
    if a[0] == "x":
        return bytes.fromhex(a[1:]).decode("latin-1")
    if a[0].isdigit() or (a[0] == "-" and len(a) > 1):
        return int(a)
    return Sym(a)
