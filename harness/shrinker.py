"""Best-effort shrinking of a failing case: smaller programs / descriptions on which the SAME kind of
failure (same property checker, or a correspondence break through the same projection) persists."""
import copy

import engine


def _smaller(comp, case):
    """candidate simplifications of a case (each strictly smaller)"""
    out = []
    if "prog" in case and isinstance(case["prog"], list):
        n = len(case["prog"])
        if n > 8:                                   # long programs: halves and quarters first
            for lo, hi in ((n // 2, n), (0, n // 2), (n // 4, n), (0, n // 4), (3 * n // 4, n)):
                c = copy.deepcopy(case)
                del c["prog"][lo:hi]
                out.append(c)
        for i in range(len(case["prog"])):
            c = copy.deepcopy(case)
            del c["prog"][i]
            out.append(c)
    if "lines" in case and isinstance(case["lines"], list) and "desc2" not in case:
        for i in range(len(case["lines"])):
            c = copy.deepcopy(case)
            del c["lines"][i]
            c.pop("instrs", None)
            c.pop("corrupt", None)
            out.append(c)
    d = case.get("desc")
    if isinstance(d, dict) and "desc2" not in case:
        for i in range(len(d.get("dataPath", []))):
            c = copy.deepcopy(case)
            del c["desc"]["dataPath"][i]
            out.append(c)
        for i, u in enumerate(d.get("units", [])):
            c = copy.deepcopy(case)
            nm = u["name"].lower()
            del c["desc"]["units"][i]
            c["desc"]["dataPath"] = [e for e in c["desc"]["dataPath"] if all(str(x).lower() != nm for x in e)]
            out.append(c)
        for i, u in enumerate(d.get("units", [])):
            if u.get("width", 1) > 1:
                c = copy.deepcopy(case)
                c["desc"]["units"][i]["width"] = u["width"] - 1
                out.append(c)
    if "reqs" in case and "ops" in case:
        for i in range(len(case["ops"])):
            c = copy.deepcopy(case)
            del c["ops"][i]
            out.append(c)
    if "spec" in case:
        for k in ("spec", "prog"):
            for i in range(len(case.get(k, []))):
                c = copy.deepcopy(case)
                del c[k][i]
                out.append(c)
    return out


def _fails(pid, stream, case):
    import propdefs
    reps = engine.run_cases(stream["component"], 0, 1, stream["params"], explicit=[case], inproc=True)
    failures, cov, stats = [], {}, engine.Stats()
    propdefs._judge_stream(stream, reps, failures, cov, stats)
    return failures[0] if failures else None


def shrink(pid, rep, budget=80, seconds=45):
    import time
    import propdefs
    t_end = time.time() + seconds
    prop = propdefs.PROPS[pid]
    if "streams" not in prop or rep.get("case") is None or rep["kind"] == "harness":
        return rep
    stream = next((s for s in prop["streams"] if s["component"] == rep["component"] and s["explicit"] is None), None) \
        or next((s for s in prop["streams"] if s["component"] == rep["component"]), None)
    if stream is None:
        return rep
    best = rep
    runs = 0
    improved = True
    while improved and runs < budget and time.time() < t_end:
        improved = False
        for cand in _smaller(stream["component"], best["case"]):
            runs += 1
            if runs > budget or time.time() > t_end:
                break
            try:
                f = _fails(pid, stream, cand)
            except Exception:  # noqa: BLE001
                f = None
            if f is not None and f["kind"] == rep["kind"]:
                f["shrunk_from"] = rep.get("shrunk_from", rep["case"])
                best = f
                improved = True
                break
    return best
