"""Texts of the claims in MANIFEST.json (one entry per property that has a check)."""
SIM_NOTE = ("Trusted: Coq kernel; extraction (ExtrOcamlBasic only); the hand-written model Sim.v is tied to "
            "src/sim_services, src/reg_access.py, src/container_utils.py only by the differential correspondence run "
            "(generated processors/programs; loader-built and parts-built processors); harness glue; fastcore shim. "
            "Guard: wf_procb (distinct names, sink-first unit order, one read and one write lock per capability route, "
            "read lock not after write lock).")
CLAIMS = {
    "C04": {
        "text": "Coq theorem C04_width: for every processor with distinct unit names, every program and every fuel, every "
                "record of a Done or Stalled diagram of the model holds at most width(u) entries per unit; proved by a "
                "step invariant through flush/fill/issue/relabel and induction over the run; closed under the global "
                "context.  The model is re-tied to /repo on every run by the sim correspondence (occupancy projection) and "
                "the extracted checker C04_checkb (proved equivalent to the statement) judges every implementation diagram.",
        "note": SIM_NOTE,
        "technique": "Coq proof (step invariant + induction over the run) + extracted-model correspondence",
    },
}
NOT_CLAIMED = {}
NOTES = ("Two genuine defects of the pinned tree were repaired by unguarded fix: commits in /repo "
         "(56046f6 reg_access.can_access: write after own read; 8dc64c1 chk_terminals: iterate dead-end removal); "
         "see known_findings.json and DESIGN.md section 6.  The implementation only runs in this sandbox with the "
         "fastcore-1.7 compatibility shim (DESIGN.md 1.1); the baseline command does not use it.")
