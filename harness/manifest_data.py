"""Texts of the claims in MANIFEST.json (one entry per property that has a check)."""
SIM_NOTE = ("Trusted: Coq kernel; extraction (ExtrOcamlBasic only); the hand-written model coq/model/Sim.v (+RegAccess.v, "
            "Bag.v) is tied to src/sim_services, src/reg_access.py, src/container_utils.py only by the differential "
            "correspondence run (generated processors/programs; loader-built and parts-built processors); harness glue; "
            "fastcore shim. Guards: wf_procb (distinct names, sink-first unit order, one read and one write lock per "
            "capability route, read lock not after write lock) and, where stated, wf_progb (duplicate-free sources, which "
            "HwInstruction's converter guarantees).")
PURE_NOTE = ("Trusted: Coq kernel; extraction (ExtrOcamlBasic only); the hand-written model is tied to the Python source "
             "only by the differential correspondence run (exhaustive small scope + random larger cases); harness glue; "
             "fastcore shim; Latin-1 text (code points 0-255; str.upper not modelled for U+00B5/DF/FF).")


def sim(text, technique="Coq proof (step invariants lifted over reachable states) + extracted-model correspondence"):
    return {"text": text, "note": SIM_NOTE, "technique": technique}


CLAIMS = {
    "C01": sim("Coq theorems C01_hazard_order (conflicting accesses of an older and a younger instruction are performed in "
               "strictly increasing cycles, for every wf processor, every program with duplicate-free sources, any fuel, "
               "Done and Stalled diagrams) and C01_checker_accepts (the extracted checker, order + replay of the diagram's "
               "reads/writes against sequential execution, accepts every model diagram); proved from a run invariant that "
               "identifies each register queue with the access plan minus the accesses the diagram shows performed. "
               "Model tied to /repo by the sim correspondence (full labelled diagram); the same checker judges every "
               "implementation diagram."),
    "C02": sim("Coq theorems C02_exact / C02_checker_accepts: every entry of every model diagram is 'S' if it stayed after "
               "its 'U', else 'D' iff an OLDER instruction has an outstanding conflicting access on a register this unit "
               "locks, else 'U' (so never waiting on itself, never 'D' without locks); queue/diagram invariant as for C01. "
               "The pinned tree violated this (fixed by 56046f6; C02_counterexample documents the need for duplicate-free "
               "sources)."),
    "C03": sim("Coq theorems C03_routes (the extracted checker C03_checkb: prefix of issued instructions, exactly one place "
               "per cycle over a contiguous span, input-port start, capability support, moves along declared connections, "
               "no revisits, D*US* per unit, retired instructions end 'U' in an output-boundary unit), C03_unique_place, "
               "C03_never_leaves_D for every Done/Stalled model diagram; index book-keeping lemma (delete by descending "
               "position = filter by instruction) + run invariants."),
    "C04": sim("Coq theorem C04_width: for every processor with distinct unit names, every program, every fuel, every record "
               "of a Done or Stalled diagram holds at most width(u) entries per unit; C04_checkb proved equivalent to the "
               "statement. Occupancy projection of the sim correspondence."),
    "C05": sim("Coq theorems C05_mem_port / C05_mem_port_pairs: at most one (instruction, unit) arrival per cycle needs the "
               "memory port, via a counting invariant threaded through flush/fill/issue."),
    "C06": sim("Coq theorem C06_issue: the extracted checker C06_checkb (in-order first appearances in supporting input "
               "ports; held back only if every supporting port is full at the end of the cycle or memory-blocked by an "
               "arrival of that cycle; first port by name that could take it) accepts every model diagram."),
    "C07": sim("Coq theorem C07_advance: the extracted checker C07_checkb (outputs flush; a stayer is 'S' and every supporting "
               "successor is full or memory-blocked by another arrival; no younger instruction overtakes unless only the "
               "older needed the busy memory port) accepts every model diagram; uses the sink-first processing order."),
    "C08": sim("Coq theorems C08_terminates_within_bound (with fuel bound+1 the model ends Done or Stalled with at most "
               "instructions x (3 x units + 1) recorded cycles: potential-function argument using C17), C08_no_crash (no "
               "IndexError/KeyError from the queues for wf processors), C08_checker_accepts (consecutive records differ; "
               "Done retires everything; Stalled is a fixed point of the cycle function on the state reconstructed from the "
               "diagram alone). Correspondence through (outcome, cycle count, last record); a time-out of the implementation "
               "is an outcome that fails the checker."),
    "C17": {"text": "Coq theorems C17_eq_iff (bag_eqb, the transliteration of BagValDict.__eq__, holds iff every key has "
                    "permutation-equal entry lists, for duplicate-free keys), C17_len, C17_len_eq, C17_repr, C17_equivalence. "
                    "Correspondence: exhaustive small scope of record pairs + random larger ones against BagValDict ==, len, repr.",
            "note": PURE_NOTE, "technique": "Coq proof (sorting/permutation lemmas) + exhaustive and random correspondence"},
    "C18": {"text": "Coq theorems C18_eq, C18_hash, C18_order (strict total order compatible with equality), C18_contains, "
                    "C18_str, C18_lower_facts over the model of ICaseString on Latin-1 text (code points 0-255; str.upper not modelled for U+00B5/DF/FF). Correspondence: all pairs of "
                    "strings up to length 2 (quick) / 3 (thorough) over {a,A,b,B,1,space} + random printable pairs against "
                    "ICaseString ==, <, hash, in, str.",
            "note": PURE_NOTE, "technique": "Coq proof + exhaustive and random correspondence"},
    "C19": {"text": "Coq theorems C19_protocol (the concrete queue refines the abstract reading spec/QueueSpec.v along every "
                    "permitted history: can_access = servable exactly as the property states, incl. write-after-own-read), "
                    "C19_no_failure, C19_maximal_history_empties, C19_histories_finite. Correspondence: all request sequences "
                    "up to length 4 (quick) / 6 (thorough) over 3 owners with ALL permitted removal interleavings, model, "
                    "abstract spec and RegAccQBuilder/RegAccessQueue driven in lock-step + random longer histories. "
                    "Second tie (translator): harness/py2coq.py dumps the current reg_access.py into the PyLite embedding "
                    "(coq/pylite) and coq/srcref/RegAccessRefine.v proves that the source refines the model method by method "
                    "and that C19 holds of the source (C19_on_source); when the source leaves the translatable subset or the "
                    "proof breaks the check falls back to the correspondence with an escalated budget.",
            "note": PURE_NOTE, "technique": "Coq refinement proof (abstract spec <- model <- translated source) + exhaustive state-space correspondence"},
}
TEXT_NOTE = ("Trusted: Coq kernel; extraction (ExtrOcamlBasic only); the hand-written models coq/model/Program.v, Isa.v, "
             "Loader.v, Cli.v are tied to the Python source only by the differential correspondence run; harness glue; "
             "fastcore shim; Latin-1 text (code points 0-255; str.upper not modelled for U+00B5/DF/FF); Python's re/str.strip/csv/PyYAML/typer are modelled or exercised, not verified.")
CLAIMS.update({
    "C09": {"text": "Coq theorems C09_sound (every processor the loader model returns satisfies C09_checkb: acyclic, names unique "
                    "ignoring case, positive widths, no unit without capabilities, every connection joins units sharing a "
                    "capability, every input capability reaches an output through supporting units, every maximal route of it "
                    "crosses exactly one read-locking and one write-locking unit) and C09_accepted_is_simulable (loader output "
                    "satisfies the structural part of the simulator theorems' guard). Correspondence: generated descriptions "
                    "(1..8 units, DAG and cyclic, 1..3 capabilities, arbitrary locks), processor compared as sets per class; the "
                    "checker is evaluated on the IMPLEMENTATION's ProcessorDesc.",
            "note": TEXT_NOTE + " networkx maximum_flow_value == 0 is abstracted to 'no path' (DESIGN.md section 5).",
            "technique": "Coq proof (Kahn/DFS correctness, lock-count invariant over the post-order) + differential correspondence"},
    "C10": {"text": "Coq theorem C10_exact: the loaded processor is exactly what a graph search on the description prescribes "
                    "(C10_checkb: units = usable units from which a usable declared output is reachable; capabilities = those "
                    "some input port can feed along units all declaring them; predecessors = kept connections; width, locks, "
                    "memory list, name as declared; ports of the result were ports of the description). The pinned tree violated "
                    "this (one-pass dead-end removal, fixed by 8dc64c1). Correspondence: descriptions with grafted dead branches "
                    "of depth 1..3 and partially compatible connections.",
            "note": TEXT_NOTE, "technique": "Coq proof (clean_struct computes the fed capabilities; iterated terminal removal = co-reachability) + differential correspondence"},
    "C11": {"text": "Coq theorems C11_error_sound (under acl_knownb: every rejection names a defect of its documented class that "
                    "is really present, with the reported culprit: first case-insensitive name clash in definition order, the "
                    "non-positive width, the malformed connection, the unknown unit, a cycle, dead input ports, no usable input "
                    "port, a capability route with zero/several/inconsistent locks, a blocked capability), C11_accept_sound, "
                    "C11_iff, and C11_refuted_acl (the open known finding: outside the guard the loader fails with a bare "
                    "AssertionError). Correspondence: valid descriptions, single injected defects of 13 kinds, arbitrary "
                    "multiple defects; accept/reject, class and fields compared, messages checked to contain the culprit "
                    "(C11_message_names_culprit / C11_dead_input_message prove it of the modelled message templates, "
                    "model/Errors.v, whose text equals the implementation's on every rejected case of the current tree).",
            "note": TEXT_NOTE + " One open known finding (known_findings.json: C11-acl-undeclared-capability).",
            "technique": "Coq proof (stage-by-stage case analysis of the loader model) + differential correspondence"},
    "C12": {"text": "Coq theorems C12_post_order (a processor built from parts with distinct internal-unit names lists the same "
                    "parts with every internal unit before all of its predecessors, outputs and predecessor lists in name "
                    "order), C12_supply_order_irrelevant (any permutation of the supplied parts gives the same ports and a "
                    "permutation of the internal units that is again sink-first), C12_cyclic_iff (refused iff the internal units "
                    "form a cycle), C12_loaded (a loaded processor satisfies the listing orders and every unit is classified by "
                    "its connectivity); rests on a proved correctness of networkx's Kahn-by-generations as transliterated "
                    "(proofs/Graph_facts.v). Correspondence: ALL DAGs up to 3 (quick) / 4 (thorough) units x several supply "
                    "orders (exhaustive), random DAGs and cyclic supplies up to 8 units, and loaded processors (exact orders).",
            "note": TEXT_NOTE, "technique": "Coq proof (Kahn/topological-order correctness) + exhaustive and random correspondence"},
    "C13": {"text": "Coq theorems C13_loader (descriptions differing only in the letter case of connection ends, later "
                    "capability occurrences and memory-access entries load to the same processor or the same error, the "
                    "culprit of an UNDEFINED name being equal up to case since it has no first spelling), C13_loader_exact, "
                    "C13_isa(_exact), C13_compile, C13_program (re-casing later register occurrences leaves the parsed program "
                    "unchanged), C13_first_spelling. Correspondence: metamorphic pairs (input, re-casing of all its non-defining "
                    "occurrences) through the whole library pipeline: implementation results on the pair must be equal, and "
                    "each must equal the model's.",
            "note": TEXT_NOTE, "technique": "Coq proof (congruence of the loader/ISA/parser models w.r.t. case) + metamorphic correspondence"},
    "C14": {"text": "Coq theorems C14_roundtrip (for every list of rendered lines with arbitrary whitespace layout, blank lines "
                    "and tokens free of blanks/commas, read_program returns exactly the written instructions with 1-based "
                    "physical line numbers, destination first, sources deduplicated and sorted, first spellings), "
                    "C14_strip_invariant, C14_no_operands, C14_empty_operand (error carries line, mnemonic, position of the "
                    "first empty operand), C14_message (the message states mnemonic, line and position). Correspondence: generated programs with all Latin-1 whitespace characters and "
                    "single-fault corruptions; independent oracle from the generated instruction list.",
            "note": TEXT_NOTE, "technique": "Coq proof (string lemmas for strip/split) + differential correspondence"},
    "C15": {"text": "Coq theorems C15_isa_ok, C15_isa_reject, C15_isa_first_defect, C15_abilities, C15_compile_ok, "
                    "C15_compile_fail, C15_isa_message, C15_compile_message over the models of load_isa / get_abilities / "
                    "compile_program and their error messages. Correspondence: ISA tables "
                    "of 0..8 (occasionally up to 60) entries with arbitrary casing, collisions and unknown capabilities x capability sets x programs.",
            "note": TEXT_NOTE, "technique": "Coq proof + differential correspondence"},
    "C16": {"text": "Coq theorems C16_cells (for every completed run of a wf processor the rows of the table have, in column t "
                    "of row k, '<label>:<unit>' exactly when the diagram places instruction k there, else an empty cell; uses "
                    "the proved C03), C16_print_lines and C16_fields_roundtrip (the printed text splits back into header and "
                    "rows). Correspondence: the command-line driver is run as a sub-process on generated YAML+assembly pairs; "
                    "stdout is compared byte-wise with the model's text and cell-wise with the library's diagram, and the "
                    "C01-C08 checkers are evaluated on the table parsed back from stdout. YAML reading and argument parsing "
                    "are exercised only by this correspondence.",
            "note": TEXT_NOTE, "technique": "Coq proof of the rendering + sub-process correspondence"},
    "C20": {"text": "PARTIAL. Coq theorems C20_set_order_irrelevant (whatever order the loader iterates its set of new "
                    "terminals in, it returns the same processor or the same class of error naming the same set of dead input "
                    "ports) and C20_unit_lists_order_irrelevant; determinism of the model is definitional. Purity of the Python "
                    "objects (no hidden state, no argument mutation) is NOT a theorem: it is established by differential runs "
                    "(each case twice per interpreter with unrelated work in between, fresh interpreters with PYTHONHASHSEED "
                    "0/1/2/random, arguments compared with pre-call copies, all compared with the model's single value).",
            "note": TEXT_NOTE + " No executable Gallina model can express 'this Python call wrote to a module global'; that part "
                    "rests on the differential runs alone.",
            "technique": "Coq proof of set-iteration-order irrelevance (partial) + differential purity runs across hash seeds"},
})
NOT_CLAIMED = {}
NOTES = ("Four genuine defects of the pinned tree were repaired by unguarded fix: commits in /repo "
         "(56046f6 reg_access.can_access: write after own read; 8dc64c1 chk_terminals: iterate dead-end removal; "
         "f550bc1 chk_non_empty: empty unit name; 8da1782 load_isa: duplicate mnemonics detected on the upper-case key); one open known finding (C11, memoryAccess naming an undeclared "
         "capability -> AssertionError); see known_findings.json and DESIGN.md section 6.  The implementation only runs in "
         "this sandbox with the fastcore-1.7 compatibility shim (DESIGN.md 1.1); the baseline command does not use it.  "
         "Beyond the per-property theorems, coq/props/E2E.v composes them along the whole pipeline and "
         "coq/props/Readings.v, Readings2.v, Readings4.v, Readings5.v restate C02, C03, C06, C07, C08 (a stall means deadlock), C09, C10 and the lock clause "
         "of the guard at Prop level.  Seeded breaking changes and behaviour-preserving refactorings made by independent "
         "sub-agents are kept under seeded/ with the outcome of the checks against them (DESIGN.md section 8).")

# appended to every claim: what the correspondence runs vary besides the input values (DESIGN.md 2.3, 8)
HISTORY_SUFFIX = {
    "*": (" The correspondence runs vary call histories and object protocols as well as values (same objects reused across "
          "calls, arguments kept alive, shared sub-objects, every Iterable form, str subclasses, logging on, another ambient "
          "for repeated calls); oracle-only streams beyond the modelled domain (marked as such in the evidence) are searches "
          "for failing inputs, not theorems."),
}
