"""Texts of the claims in MANIFEST.json (one entry per property that has a check)."""
SIM_NOTE = ("Trusted: Coq kernel; extraction (ExtrOcamlBasic only); the hand-written model coq/model/Sim.v (+RegAccess.v, "
            "Bag.v) is tied to src/sim_services, src/reg_access.py, src/container_utils.py only by the differential "
            "correspondence run (generated processors/programs; loader-built and parts-built processors); harness glue; "
            "fastcore shim. Guards: wf_procb (distinct names, sink-first unit order, one read and one write lock per "
            "capability route, read lock not after write lock) and, where stated, wf_progb (duplicate-free sources, which "
            "HwInstruction's converter guarantees).")
PURE_NOTE = ("Trusted: Coq kernel; extraction (ExtrOcamlBasic only); the hand-written model is tied to the Python source "
             "only by the differential correspondence run (exhaustive small scope + random larger cases); harness glue; "
             "fastcore shim; 7-bit text.")


def sim(text, technique="Coq proof (step invariants lifted over reachable states) + extracted-model correspondence"):
    return {"text": text, "note": SIM_NOTE, "technique": technique}


CLAIMS = {
    "C01": sim("Coq theorems C01_hazard_order (conflicting accesses of an older and a younger instruction are performed in "
               "strictly increasing cycles, for every wf processor, every program with duplicate-free sources, any fuel, "
               "Done and Stalled diagrams) and C01_checker_accepts (the extracted checker, order + replay of the diagram's "
               "reads/writes against sequential execution, accepts every model diagram); proved from a run invariant that "
               "identifies each register queue with the access plan minus the accesses the diagram shows performed. "
               "Model tied to /repo by the sim correspondence (full labelled diagram); the same checker judges every "
               "implementation diagram."),
    "C02": sim("Coq theorems C02_exact / C02_checker_accepts: every entry of every model diagram is 'S' if it stayed after "
               "its 'U', else 'D' iff an OLDER instruction has an outstanding conflicting access on a register this unit "
               "locks, else 'U' (so never waiting on itself, never 'D' without locks); queue/diagram invariant as for C01. "
               "The pinned tree violated this (fixed by 56046f6; C02_counterexample documents the need for duplicate-free "
               "sources)."),
    "C03": sim("Coq theorems C03_routes (the extracted checker C03_checkb: prefix of issued instructions, exactly one place "
               "per cycle over a contiguous span, input-port start, capability support, moves along declared connections, "
               "no revisits, D*US* per unit, retired instructions end 'U' in an output-boundary unit), C03_unique_place, "
               "C03_never_leaves_D for every Done/Stalled model diagram; index book-keeping lemma (delete by descending "
               "position = filter by instruction) + run invariants."),
    "C04": sim("Coq theorem C04_width: for every processor with distinct unit names, every program, every fuel, every record "
               "of a Done or Stalled diagram holds at most width(u) entries per unit; C04_checkb proved equivalent to the "
               "statement. Occupancy projection of the sim correspondence."),
    "C05": sim("Coq theorems C05_mem_port / C05_mem_port_pairs: at most one (instruction, unit) arrival per cycle needs the "
               "memory port, via a counting invariant threaded through flush/fill/issue."),
    "C06": sim("Coq theorem C06_issue: the extracted checker C06_checkb (in-order first appearances in supporting input "
               "ports; held back only if every supporting port is full at the end of the cycle or memory-blocked by an "
               "arrival of that cycle; first port by name that could take it) accepts every model diagram."),
    "C07": sim("Coq theorem C07_advance: the extracted checker C07_checkb (outputs flush; a stayer is 'S' and every supporting "
               "successor is full or memory-blocked by another arrival; no younger instruction overtakes unless only the "
               "older needed the busy memory port) accepts every model diagram; uses the sink-first processing order."),
    "C08": sim("Coq theorems C08_terminates_within_bound (with fuel bound+1 the model ends Done or Stalled with at most "
               "instructions x (3 x units + 1) recorded cycles: potential-function argument using C17), C08_no_crash (no "
               "IndexError/KeyError from the queues for wf processors), C08_checker_accepts (consecutive records differ; "
               "Done retires everything; Stalled is a fixed point of the cycle function on the state reconstructed from the "
               "diagram alone). Correspondence through (outcome, cycle count, last record); a time-out of the implementation "
               "is an outcome that fails the checker."),
    "C17": {"text": "Coq theorems C17_eq_iff (bag_eqb, the transliteration of BagValDict.__eq__, holds iff every key has "
                    "permutation-equal entry lists, for duplicate-free keys), C17_len, C17_len_eq, C17_repr, C17_equivalence. "
                    "Correspondence: exhaustive small scope of record pairs + random larger ones against BagValDict ==, len, repr.",
            "note": PURE_NOTE, "technique": "Coq proof (sorting/permutation lemmas) + exhaustive and random correspondence"},
    "C18": {"text": "Coq theorems C18_eq, C18_hash, C18_order (strict total order compatible with equality), C18_contains, "
                    "C18_str, C18_lower_facts over the model of ICaseString on 7-bit text. Correspondence: all pairs of "
                    "strings up to length 2 (quick) / 3 (thorough) over {a,A,b,B,1,space} + random printable pairs against "
                    "ICaseString ==, <, hash, in, str.",
            "note": PURE_NOTE, "technique": "Coq proof + exhaustive and random correspondence"},
    "C19": {"text": "Coq theorems C19_protocol (the concrete queue refines the abstract reading spec/QueueSpec.v along every "
                    "permitted history: can_access = servable exactly as the property states, incl. write-after-own-read), "
                    "C19_no_failure, C19_maximal_history_empties, C19_histories_finite. Correspondence: all request sequences "
                    "up to length 4 (quick) / 6 (thorough) over 3 owners with ALL permitted removal interleavings, model, "
                    "abstract spec and RegAccQBuilder/RegAccessQueue driven in lock-step + random longer histories.",
            "note": PURE_NOTE, "technique": "Coq refinement proof + exhaustive state-space correspondence"},
}
NOT_CLAIMED = {}
NOTES = ("Two genuine defects of the pinned tree were repaired by unguarded fix: commits in /repo "
         "(56046f6 reg_access.can_access: write after own read; 8dc64c1 chk_terminals: iterate dead-end removal); "
         "see known_findings.json and DESIGN.md section 6.  The implementation only runs in this sandbox with the "
         "fastcore-1.7 compatibility shim (DESIGN.md 1.1); the baseline command does not use it.")
