#!/usr/bin/env python3
"""python3-vt harness/validate.py : validates MANIFEST.json and evidence/*.json against the schemas"""
import glob, json, sys
import jsonschema
ok = True
jsonschema.validate(json.load(open('/verif/MANIFEST.json')), json.load(open('/root/.vp/MANIFEST.schema.json')))
print('manifest valid')
es = json.load(open('/root/.vp/EVIDENCE.schema.json'))
for f in sorted(glob.glob('/verif/evidence/*.json')):
    try:
        jsonschema.validate(json.load(open(f)), es); print(f, 'valid')
    except Exception as e:
        ok = False; print(f, 'INVALID', str(e)[:300])
sys.exit(0 if ok else 1)
