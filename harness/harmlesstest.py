#!/venv/bin/python
"""harmlesstest.py <name> <worktree> : applies a behaviour-preserving refactoring (made by an independent
sub-agent) to /repo, runs every registered quick check, expects NO violation, reverts /repo.
Keeps the patch and the outcome under /verif/seeded/harmless-<name>/.  Development aid."""
import json, os, re, shutil, subprocess, sys
VERIF = "/verif"


def sh(cmd, cwd=None, env=None):
    p = subprocess.run(cmd, shell=True, cwd=cwd, env=env, capture_output=True, text=True, timeout=7200)
    return p.returncode, p.stdout + p.stderr


name, wt = sys.argv[1:3]
dst = os.path.join(VERIF, "seeded", "harmless-" + name)
os.makedirs(dst, exist_ok=True)
if os.path.isdir(wt):
    rc, patch = sh("git diff -- src", cwd=wt)
    open(os.path.join(dst, "patch.diff"), "w").write(patch)
    if os.path.exists(os.path.join(wt, "NOTES.md")):
        shutil.copy(os.path.join(wt, "NOTES.md"), os.path.join(dst, "NOTES.md"))
else:                                           # re-run of a stored patch
    patch = open(os.path.join(dst, "patch.diff")).read()
manifest = json.load(open(os.path.join(VERIF, "MANIFEST.json")))
props = [c["property_id"] for c in manifest["checks"]]
rc, out = sh(f"git -C /repo apply {dst}/patch.diff")
res = {}
if rc != 0:
    print("apply failed", out)
    sys.exit(2)
try:
    env = dict(os.environ, VERIF_EVIDENCE_DIR=os.path.join(VERIF, ".work", "evidence-seed"))
    for p in props:
        rcp, outp = sh(f"/venv/bin/python harness/check.py {p} --tier quick", cwd=VERIF, env=env)
        m = re.search(r"VIOLATION property=(\S+) replay=(\S+)(.*)", outp)
        res[p] = {"rc": rcp, "violation": bool(m), "summary": outp.strip().split("\n")[-1][-200:]}
        if m and os.path.exists(m.group(2)):
            shutil.copy(m.group(2), os.path.join(dst, f"replay-{p}.json"))
finally:
    sh("git -C /repo checkout -- .")
alarms = sorted(p for p, v in res.items() if v["violation"] or v["rc"] != 0)
old = {}
if os.path.exists(os.path.join(dst, "meta.json")):
    old = json.load(open(os.path.join(dst, "meta.json")))
old.update({"name": name, "kind": "harmless refactoring", "lines_changed": patch.count("\n+") + patch.count("\n-"),
            "alarms": alarms, "checks": res})
json.dump(old, open(os.path.join(dst, "meta.json"), "w"), indent=1)
print(json.dumps({"name": name, "alarms": alarms}))
for p in alarms:
    print(" ", p, res[p]["summary"])
rc, out = sh("git -C /repo status --short -- src")
if out.strip():
    print("WARNING /repo not clean:", out)
