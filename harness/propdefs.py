"""Per-property definitions: which components tie the property's theorem to the code, through which
projection they are compared, which extracted checker judges implementation outputs, budgets."""
import json
import os
import subprocess

import engine

HERE = os.path.dirname(os.path.abspath(__file__))
VERIF = os.path.dirname(HERE)

ALLOWED_AXIOMS = set()   # every property theorem is expected to be closed under the global context

TRUSTED_BASE = [
    "Coq 8.16.1 kernel (coqc; coqchk re-check in the thorough tier); no native_compute; no axioms",
    "extraction to OCaml with ExtrOcamlBasic only (bool, option, unit, prod, list, sumbool, sumor); "
    "nat/string/ascii stay extracted inductives; no Extract Constant; OCaml 4.13.1",
    "hand-written Gallina model of the Python code; its faithfulness rests on the correspondence "
    "(differential) check run here against /repo's working tree",
    "glue: harness/*.py (generators, canonical encoders of implementation objects), ocaml/sx.ml, ocaml/driver.ml",
    "fastcore-1.7 compatibility shim harness/compat/fastcore_self.py (DESIGN.md 1.1)",
    "CPython semantics of list/dict/set/sorted/str on 7-bit text; attrs-generated methods; networkx "
    "(transliterated or abstracted as stated in DESIGN.md section 5)",
]


# ----------------------------------------------------------------------------- projections
def strip_labels(out):
    if len(out) < 2 or not isinstance(out[1], list):
        return out
    return [out[0], [[[u, sorted(e[0] for e in es)] for u, es in r] for r in out[1]]]


def proj_c08(out):
    if len(out) < 2 or not isinstance(out[1], list):
        return out
    return [out[0], len(out[1]), out[1][-1] if out[1] else []]


PROJ = {"full": lambda o: o, "occ": strip_labels, "c08": proj_c08}

SIM_Q = {"n": 3000}
SIM_T = {"n": 150000}


def sim_stream(proj, chk, extra=None, nq=3000, nt=150000):
    p = {"kinds": ["loaded", "loaded", "parts"]}
    p.update(extra or {})
    return {"component": "sim", "quick": nq, "thorough": nt, "params": p, "proj": proj, "checks": chk}


PROPS = {
    "C01": {"streams": [sim_stream("full", ["C01"], {"selfdep": 0.4})]},
    "C02": {"streams": [sim_stream("full", ["C02"], {"selfdep": 0.4, "plen": 10})]},
    "C03": {"streams": [sim_stream("full", ["C03"])]},
    "C04": {"streams": [sim_stream("occ", ["C04"], {"wmax": 4})]},
    "C05": {"streams": [sim_stream("occ", ["C05"], {"mem_p": 0.6})]},
    "C06": {"streams": [sim_stream("occ", ["C06"], {"wmax": 4})]},
    "C07": {"streams": [sim_stream("full", ["C07"], {"nmax": 7})]},
    "C08": {"streams": [sim_stream("c08", ["C08"], {"bad": 0.3})]},
}


# ----------------------------------------------------------------------------- running
def _judge_stream(stream, reps, failures, cov, stats):
    proj = PROJ[stream["proj"]]
    for r in reps:
        if "error" in r:
            failures.append({"kind": "harness", "component": stream["component"], "case": r.get("case"),
                             "detail": r["error"]})
            continue
        stats.add(r)
        if not r.get("in_domain", True):
            cov["out_of_domain"] = cov.get("out_of_domain", 0) + 1
            continue
        cov["in_domain"] = cov.get("in_domain", 0) + 1
        bad_chk = [k for k in stream["checks"] if k in r["checks"] and not r["checks"][k][0]]
        if bad_chk:
            cov["checker_failures"] = cov.get("checker_failures", 0) + 1
            failures.append({"kind": "checker", "component": stream["component"], "case": r["case"],
                             "impl": r.get("impl"), "detail": f"checker {bad_chk} false on the implementation's output",
                             "checks": r["checks"]})
            continue
        if r.get("meta_fail"):
            cov["checker_failures"] = cov.get("checker_failures", 0) + 1
            failures.append({"kind": "metamorphic", "component": stream["component"], "case": r["case"],
                             "impl": r.get("impl"), "detail": r["meta_fail"]})
            continue
        if not r["agree"]:
            d = r["diff"]
            if proj(d["model"]) != proj(d["impl"]):
                cov["disagreements"] = cov.get("disagreements", 0) + 1
                failures.append({"kind": "correspondence", "component": stream["component"], "case": r["case"],
                                 "impl": r.get("impl"), "model": d["model"],
                                 "detail": f"model and implementation differ through projection {stream['proj']}"})
            else:
                cov["differences_outside_projection"] = cov.get("differences_outside_projection", 0) + 1


def run_property(pid, tier, seed, escalate=False, replay=None):
    prop = PROPS[pid]
    failures = []
    cov = {"evaluations": 0, "disagreements": 0, "checker_failures": 0, "streams": []}
    stats = engine.Stats()
    if replay is not None:
        comp = replay["component"]
        stream = next(s for s in prop["streams"] if s["component"] == comp)
        reps = engine.run_cases(comp, seed, 1, stream["params"], explicit=[replay["case"]])
        _judge_stream(stream, reps, failures, cov, stats)
        cov["evaluations"] = 1
        return {"failures": failures, "coverage": cov}
    for stream in prop["streams"]:
        n = stream[tier]
        if escalate:
            n *= 3
        comp = stream["component"]
        # corpus (minimized past disagreements) first
        corpus = load_corpus(comp)
        if corpus:
            reps = engine.run_cases(comp, seed, len(corpus), stream["params"], explicit=corpus)
            _judge_stream(stream, reps, failures, cov, stats)
        reps = engine.run_cases(comp, seed, n, stream["params"])
        before = len(failures)
        _judge_stream(stream, reps, failures, cov, stats)
        new = failures[before:]
        # violation search: correspondence broke but no checker failed -> look further for a failing input
        if new and not any(f["kind"] in ("checker", "metamorphic") for f in new):
            extra = engine.run_cases(comp, seed + 7919, 4 * n, stream["params"])
            tmp = []
            _judge_stream(stream, extra, tmp, cov, stats)
            failures.extend(f for f in tmp if f["kind"] in ("checker", "metamorphic"))
            cov["violation_search_cases"] = cov.get("violation_search_cases", 0) + len(extra)
        cov["streams"].append({"component": comp, "cases": len(reps), "projection": stream["proj"],
                               "checkers": stream["checks"], "exhaustive": bool(stream.get("exhaustive"))})
    cov["evaluations"] = stats.counters["evaluations"]
    cov["distinct_nontrivial"] = len(stats.distinct)
    cov["rule"] = prop.get("rule", "cases are generated from VERIF_SEED by harness/gen.py; a case counts as "
                           "non-trivial when the processor is in the property's domain (wf_procb), the program "
                           "has >= 2 instructions and the diagram >= 3 cycles; distinct = distinct canonical "
                           "(processor, program) digests")
    cov["samples"] = stats.samples or [{"note": "no non-trivial sample"}]
    cov["distribution"] = {k[4:]: v for k, v in sorted(stats.counters.items()) if k.startswith("tag:")}
    cov["exhaustive"] = all(s.get("exhaustive") for s in prop["streams"])
    import implrun_probe
    cov["shim_active"] = implrun_probe.shim_active()
    return {"failures": failures, "coverage": cov}


def load_corpus(comp):
    d = os.path.join(VERIF, "corpus", comp)
    out = []
    if os.path.isdir(d):
        for fn in sorted(os.listdir(d)):
            if fn.endswith(".json"):
                out.append(json.load(open(os.path.join(d, fn)))["case"])
    return out


# ----------------------------------------------------------------------------- known findings
def match_known(open_known, rep):
    import matchers
    for k in open_known:
        m = getattr(matchers, k["matcher"], None)
        if m and m(rep):
            return k
    return None


def known_demo(k):
    """re-demonstrates a listed open finding on its pinned input; True if it still reproduces"""
    import matchers
    f = getattr(matchers, k["matcher"] + "_demo", None)
    return bool(f and f())


def shrink(pid, rep):
    return rep


def coqchk(pid):
    p = subprocess.run(f"timeout 1200 coqchk -silent -o -Q model PS -Q spec PS -Q proofs PS -Q props PS PS.{pid} 2>&1 | tail -30",
                       shell=True, capture_output=True, text=True, cwd=os.path.join(VERIF, "coq"))
    return p.stdout[-3000:]
