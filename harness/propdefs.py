"""Per-property definitions: which components tie the property's theorems to the code, through which
projection they are compared, which extracted checker judges implementation outputs, budgets."""
import itertools
import json
import os
import subprocess

import engine
from gen import up1 as gen_up1

HERE = os.path.dirname(os.path.abspath(__file__))
VERIF = os.path.dirname(HERE)

ALLOWED_AXIOMS = set()   # every property theorem is expected to be closed under the global context

TRUSTED_BASE = [
    "Coq 8.16.1 kernel (coqc; coqchk re-check in the thorough tier); no native_compute; no axioms "
    "(every property theorem: 'Closed under the global context')",
    "extraction to OCaml with ExtrOcamlBasic only (bool, option, unit, prod, list, sumbool, sumor); "
    "nat/Z/string/ascii stay extracted inductives; no Extract Constant; OCaml 4.13.1",
    "hand-written Gallina model of the Python code (coq/model); its faithfulness rests on the correspondence "
    "(differential) check run here against /repo's working tree",
    "glue: harness/*.py (generators, canonical encoders of implementation objects), ocaml/sx.ml, ocaml/driver.ml",
    "fastcore-1.7 compatibility shim harness/compat/fastcore_self.py (DESIGN.md 1.1)",
    "CPython semantics of list/dict/set/sorted/str on Latin-1 text; attrs-generated methods; re, csv, "
    "string.Template, PyYAML, typer; networkx (transliterated or abstracted as stated in DESIGN.md section 5)",
]


def S(comp, proj, checks, quick, thorough, params=None, explicit=None, exhaustive=False, direct=None):
    """direct: name of the theorem by which the model's output IS the property's specification for this
    component, so that a disagreement is itself a concrete violation (not merely a broken correspondence)"""
    return {"component": comp, "proj": proj, "checks": checks, "quick": quick, "thorough": thorough,
            "params": params or {}, "explicit": explicit, "exhaustive": exhaustive, "direct": direct}


def sim_stream(proj, chk, extra=None, nq=8000, nt=150000):
    p = {"kinds": ["loaded", "loaded", "parts", "handbuilt"]}
    p.update(extra or {})
    return S("sim", proj, chk, nq, nt, p)


# ----------------------------------------------------------------------------- exhaustive scopes
# Prop-level readings of a property's checker kept outside props/<pid>.v (theorems named <pid>_...)
READINGS = {"C01": ["Exact3"], "C12": ["Exact5*"], "C04": ["Exact"], "C05": ["Exact"], "C02": ["Readings", "Exact3"], "C03": ["Readings", "Exact4"], "C06": ["Readings4", "Exact2"], "C07": ["Readings2", "Exact2"],
            "C08": ["Readings2"], "C16": ["E2E*"], "C09": ["Readings5", "Exact", "FlowThm*", "FlowThm2*"], "C10": ["Readings2", "Exact5", "Exact6*"], "C11": ["Exact5", "FlowThm*", "FlowThm2*"]}


def icase_scope(tier):
    alph = "aAbB1 "
    n = 2 if tier == "quick" else 3
    strs = [""]
    for k in range(1, n + 1):
        strs += ["".join(t) for t in itertools.product(alph, repeat=k)]
    cases = [{"a": a, "b": b} for a in strs for b in strs]
    # every Latin-1 code point, alone and next to its case partner and to its neighbours in code-point order
    for c in range(256):
        ch = chr(c)
        for other in {ch, gen_up1(ch), ch.lower(), chr((c + 1) % 256), chr((c + 32) % 256), "a" + ch, ""}:
            cases.append({"a": ch, "b": other})
            cases.append({"a": other, "b": ch})
    return cases


def bag_scope(tier):
    """(1) all pairs of records over two units with lists up to length 1 (quick) / 2 (thorough) from a
    3-value domain, in both insertion orders, with and without an empty unit; (2) all pairs of one-unit
    records with lists up to length 3 (quick) / 4 (thorough) from the same domain (multiplicities)"""
    vals = [[0, "U"], [0, "D"], [1, "U"]]

    def lists(maxlen):
        out = [[]]
        for k in range(1, maxlen + 1):
            out += [list(map(list, t)) for t in itertools.product(vals, repeat=k)]
        return out
    l2 = lists(1 if tier == "quick" else 2)
    recs = []
    for l0 in l2:
        for l1 in l2:
            recs.append([["u0", l0], ["u1", l1]])
            recs.append([["u1", l1], ["u0", l0]])
        recs.append([["u0", l0]])
    recs.append([])
    cases = [{"a": a, "b": b} for a in recs for b in recs]
    l1 = lists(3 if tier == "quick" else 4)
    cases += [{"a": [["u0", a]], "b": [["u0", b]]} for a in l1 for b in l1]
    return cases


def regq_scope(tier):
    """all request sequences up to a length over a few owners (owner symmetry reduced: owners appear in
    order of first use), each with ALL permitted serve/remove interleavings explored by DFS against a
    pure reference of the protocol; every maximal path becomes one case (queries at every state)"""
    maxlen, nown = (4, 3) if tier == "quick" else (6, 3)
    cases = []

    def seqs(k, used):
        if k == 0:
            yield []
            return
        for t in "RW":
            for o in range(min(used + 1, nown)):
                for rest in seqs(k - 1, max(used, o + 1)):
                    yield [[t, o]] + rest

    def paths(groups, owners):
        # groups: list of [type, set]; returns list of removal sequences (maximal)
        if not groups:
            return [[]]
        front = groups[0]
        serv = sorted(front[1])
        out = []
        for o in serv:
            g2 = [[front[0], set(front[1]) - {o}]] + [[t, set(s)] for t, s in groups[1:]]
            if not g2[0][1]:
                g2 = g2[1:]
            for p in paths(g2, owners):
                out.append([o] + p)
        return out

    for n in range(0, maxlen + 1):
        for rs in seqs(n, 0):
            groups = []
            for t, o in rs:
                if t == "R" and groups and groups[-1][0] == "R":
                    groups[-1][1].add(o)
                else:
                    groups.append([t, {o}])
            owners = list(range(nown))
            for path in paths(groups, owners):
                ops = []
                for o in path + [None]:
                    for t in "RW":
                        for w in owners:
                            ops.append(["can", t, w])
                    if o is not None:
                        ops.append(["deq", o])
                ops.append(["deq", owners[-1]])          # one more removal: must fail (or be permitted) alike
                cases.append({"reqs": rs, "ops": ops, "owners": owners})
    return cases


def mkproc_scope(tier):
    """all DAGs up to n units (as edge subsets of the upper triangle of every vertex order is covered by
    relabelling) x several supply orders"""
    import random
    n_max = 3 if tier == "quick" else 4
    cases = []
    rng = random.Random(12345)
    for n in range(1, n_max + 1):
        pairs = [(a, b) for a in range(n) for b in range(a + 1, n)]
        for mask in range(1 << len(pairs)):
            es = [pairs[k] for k in range(len(pairs)) if mask >> k & 1]
            names = [f"u{i}" for i in range(n)]
            preds = {i: [a for a, b in es if b == i] for i in range(n)}
            succs = {i: [b for a, b in es if a == i] for i in range(n)}
            for perm_k in range(2 if tier == "quick" else 4):
                parts = {"ins": [], "outs": [], "inouts": [], "ints": []}
                for i in range(n):
                    u = [names[i], 1, ["ALU"], False, False, []]
                    pl = [names[p] for p in preds[i]]
                    rng.shuffle(pl)
                    if preds[i] and succs[i]:
                        parts["ints"].append([u, pl])
                    elif preds[i]:
                        parts["outs"].append([u, pl])
                    elif succs[i]:
                        parts["ins"].append(u)
                    else:
                        parts["inouts"].append(u)
                for k in parts:
                    rng.shuffle(parts[k])
                cases.append({"parts": parts})
    return cases


def _u(name, width, caps, rl=False, wl=False, mem=()):
    return {"name": name, "width": width, "capabilities": list(caps), "readLock": rl, "writeLock": wl,
            "memoryAccess": list(mem)}


FIXED_PROCS = [
    # one in-out core holding both locks (self-dependent instructions are granted read+write together)
    {"units": [_u("core", 2, ["ALU"], True, True)], "dataPath": []},
    # read lock at the input, write lock at the output
    {"units": [_u("in", 2, ["ALU"], True, False), _u("out", 1, ["ALU"], False, True)], "dataPath": [["in", "out"]]},
    # both locks at the output of a three-stage chain with a memory stage
    {"units": [_u("f", 2, ["ALU"]), _u("m", 1, ["ALU"], mem=["ALU"]), _u("w", 2, ["ALU"], True, True)],
     "dataPath": [["f", "m"], ["m", "w"]]},
    # two routes of unequal length (ALU short, MEM long) joining in a write-locking output
    {"units": [_u("in", 2, ["ALU", "MEM"], True, False), _u("x1", 1, ["MEM"]), _u("x2", 1, ["MEM"], mem=["MEM"]),
               _u("out", 2, ["ALU", "MEM"], False, True)],
     "dataPath": [["in", "out"], ["in", "x1"], ["x1", "x2"], ["x2", "out"]]},
    # two input ports (name order B < a), one needing memory
    {"units": [_u("B", 1, ["ALU"], True, False, mem=["ALU"]), _u("a", 1, ["ALU"], True, False),
               _u("out", 1, ["ALU"], False, True)], "dataPath": [["B", "out"], ["a", "out"]]},
    # fork to two outputs, locks at the input
    {"units": [_u("in", 2, ["ALU", "MEM"], True, True), _u("o1", 1, ["ALU"]), _u("o2", 1, ["MEM"], mem=["MEM"])],
     "dataPath": [["in", "o1"], ["in", "o2"]]},
]


def sim_scope(tier):
    """ALL programs up to 2 (quick) / 3 (thorough) instructions over 2 registers (0..2 sources each) on six
    fixed small processors"""
    n = 2 if tier == "quick" else 3
    regs = ["R0", "R1"]
    cases = []
    for d in FIXED_PROCS:
        caps = sorted({c for u in d["units"] for c in u["capabilities"]})
        instrs = [[list(srcs), dst, c] for srcs in ([], ["R0"], ["R1"], ["R0", "R1"]) for dst in regs for c in caps]
        for k in range(0, n + 1):
            for prog in itertools.product(instrs, repeat=k):
                cases.append({"kind": "loaded", "desc": d, "perm_seed": 0, "prog": [list(i) for i in prog]})
    return cases


PROPS = {
    "C01": {"streams": [S("sim", "full", ["C01"], 0, 0, explicit=sim_scope, exhaustive=True),
                        sim_stream("full", ["C01"], {"selfdep": 0.4})]},
    "C02": {"streams": [S("sim", "full", ["C02"], 0, 0, explicit=sim_scope, exhaustive=True),
                        sim_stream("full", ["C02"], {"selfdep": 0.4, "plen": 10})]},
    "C03": {"streams": [sim_stream("full", ["C03"], {"nmax": 8})]},
    "C04": {"streams": [sim_stream("occ", ["C04"], {"wmax": 4})]},
    "C05": {"streams": [sim_stream("occ", ["C05"], {"mem_p": 0.6})]},
    "C06": {"streams": [sim_stream("occ", ["C06"], {"wmax": 4})]},
    "C07": {"streams": [sim_stream("full", ["C07"], {"nmax": 7})]},
    "C08": {"streams": [sim_stream("c08", ["C08"], {"bad": 0.3})]},
    "C09": {"streams": [S("loader", "canon", ["C09"], 3000, 100000, {"valid": 0.9, "defect": 0.1, "dead": 0.2}),
                        S("flow", "verdict", [], 1500, 40000)]},
    "C10": {"streams": [S("loader", "canon", ["C10"], 3000, 100000, {"valid": 0.9, "defect": 0.05, "dead": 0.45})]},
    "C11": {"streams": [S("loader", "acc", ["C11"], 4000, 120000, {"valid": 0.6, "defect": 0.5, "dead": 0.1}),
                        S("flow", "verdict", [], 1500, 40000)]},
    "C12": {"streams": [S("mkproc", "canon", ["C12"], 0, 0, explicit=mkproc_scope, exhaustive=True),
                        S("mkproc", "canon", ["C12"], 2000, 60000, {"nmax": 8}),
                        S("loader", "canon", ["C12"], 2000, 60000, {"valid": 0.9, "defect": 0.05, "dead": 0.2})]},
    "C13": {"streams": [S("recase", "canon", [], 2500, 80000),
                        # mnemonics: the instruction-set / compile stream, incl. its beyond-domain oracle cases
                        S("isa", "all", ["C13"], 1500, 40000, direct="C13_isa / C13_compile")]},
    "C14": {"streams": [S("parse", "all", ["C14", "C14x"], 4000, 150000, direct="C14_roundtrip / C14_no_operands / C14_empty_operand")]},
    "C15": {"streams": [S("isa", "all", ["C15"], 3000, 100000, direct="C15_isa_ok / C15_isa_first_defect / C15_compile_ok / C15_compile_fail"),
                        S("abilities", "all", ["C15"], 1000, 30000, direct="C15_abilities"),
                        S("hwload", "all", [], 1000, 30000)]},
    "C16": {"streams": [S("pipeline", "table", ["C16", "TC01", "TC02", "TC03", "TC04", "TC05", "TC06", "TC07", "TC08"],
                          1200, 20000)]},
    "C17": {"streams": [S("bag", "all", [], 0, 0, explicit=bag_scope, exhaustive=True, direct="C17_eq_iff / C17_len / C17_repr"),
                        S("bag", "all", [], 3000, 100000, direct="C17_eq_iff / C17_len / C17_repr")]},
    "C18": {"streams": [S("icase", "all", ["C18"], 0, 0, explicit=icase_scope, exhaustive=True, direct="C18_eq / C18_order / C18_contains / C18_str"),
                        S("icase", "all", ["C18"], 3000, 100000, direct="C18_eq / C18_order / C18_contains / C18_str")]},
    "C20": {"custom": None},
    "C19": {"streams": [S("regq", "all", ["C19"], 0, 0, explicit=regq_scope, exhaustive=True),
                        S("regq", "all", ["C19"], 2000, 60000)]},
}


# ----------------------------------------------------------------------------- C20: differential purity runs
def run_c20(tier, seed, escalate=False, replay=None):
    import subprocess
    import tempfile
    n = 240 if tier == "quick" else 4000
    if escalate:
        n *= 2
    seeds = ["0", "1", "2", "random"]
    os.makedirs(engine.WORK, exist_ok=True)
    failures = []
    cov = {"evaluations": 0, "disagreements": 0, "checker_failures": 0, "streams": []}
    with tempfile.TemporaryDirectory(dir=engine.WORK) as td:
        cf = os.path.join(td, "cases.json")
        if replay is not None:
            json.dump([replay["case"]], open(cf, "w"))
        else:
            env = dict(os.environ, PYTHONHASHSEED="0")
            subprocess.run(["/venv/bin/python", os.path.join(HERE, "purity.py"), "gen", str(seed), str(n), cf],
                           check=True, env=env, timeout=1800)
        cases = json.load(open(cf))
        nsh = max(1, min(4, len(cases) // 20))
        shards = [cases[i::nsh] for i in range(nsh)]
        procs = []
        for si, sh_cases in enumerate(shards):
            sf = os.path.join(td, f"shard{si}.json")
            json.dump(sh_cases, open(sf, "w"))
            for hs in seeds:
                of = os.path.join(td, f"out{si}_{hs}.json")
                env = dict(os.environ, PYTHONHASHSEED=hs)
                procs.append((si, hs, of, subprocess.Popen(["/venv/bin/python", os.path.join(HERE, "purity.py"), "run", sf, of],
                                                           env=env, stdout=subprocess.PIPE, stderr=subprocess.PIPE)))
        outs = {}
        for si, hs, of, p in procs:
            _o, err = p.communicate(timeout=3600)
            if p.returncode != 0:
                failures.append({"kind": "harness", "component": "purity", "case": None,
                                 "detail": f"purity worker failed (PYTHONHASHSEED={hs}): {err.decode()[-600:]}"})
                continue
            outs[(si, hs)] = json.load(open(of))
        dist = {}
        for si, sh_cases in enumerate(shards):
            for k, c in enumerate(sh_cases):
                cov["evaluations"] += 1
                dist[c["kind"]] = dist.get(c["kind"], 0) + 1
                rs = {hs: outs[(si, hs)][k] for hs in seeds if (si, hs) in outs}
                problem = None
                for hs, r in rs.items():
                    if r["r1"] != r["r2"]:
                        problem = f"two calls in one process (PYTHONHASHSEED={hs}, unrelated work in between) returned different results"
                    elif r["mutated"]:
                        problem = f"argument modified: {r['mutated']}"
                    elif r.get("history"):
                        problem = r["history"]
                vals = list(rs.items())
                for hs, r in vals[1:]:
                    if r["r1"] != vals[0][1]["r1"]:
                        problem = f"fresh interpreters with PYTHONHASHSEED={vals[0][0]} and {hs} returned different results"
                if problem:
                    cov["checker_failures"] += 1
                    failures.append({"kind": "checker", "component": "purity", "case": c, "detail": problem,
                                     "impl": {hs: r["r1"] for hs, r in rs.items()}})
        cov["distribution"] = dist
        cov["hash_seeds"] = seeds
        cov["samples"] = [c for c in cases[:2]]
        cov["distinct_nontrivial"] = len({json.dumps(c, sort_keys=True) for c in cases})
        cov["rule"] = ("cases generated from VERIF_SEED (loader descriptions, ISA tables, program texts, whole library "
                       "pipelines); each is run twice per interpreter with unrelated work in between, in fresh "
                       "interpreters with PYTHONHASHSEED in {0,1,2,random}; arguments are compared with their pre-call "
                       "copies; a call history 'same argument object edited in place between two calls' must give the "
                       "result of a fresh copy; distinct = distinct case JSON")
        # the tie to the one pure value of the model: the ordinary components on the same inputs
        if replay is None:
            stats = engine.Stats()
            for comp, kind, key in (("loader", "loader", None), ("isa", "isa", None), ("parse", "parse", None)):
                ex = [c["case"] for c in cases if c["kind"] == kind]
                if ex:
                    reps = engine.run_cases(comp, seed, len(ex), {}, explicit=ex)
                    _judge_stream(S(comp, "all" if comp != "loader" else "err", [], 0, 0), reps, failures, cov, stats)
            # reading a processor file (hw_loading.read_processor), incl. the history "same path, other contents of the
            # same size and time stamps, loaded before"
            nh = 120 if tier == "quick" else 3000
            reps = engine.run_cases("hwload", seed, nh, {})
            _judge_stream(S("hwload", "all", [], 0, 0), reps, failures, cov, stats)
            cov["model_compared"] = stats.counters["evaluations"]
    cov["exhaustive"] = False
    import implrun_probe
    cov["shim_active"] = implrun_probe.shim_active()
    return {"failures": failures, "coverage": cov}


# ----------------------------------------------------------------------------- running
def _agree(r, proj):
    a = r["agree"]
    if isinstance(a, dict):
        if proj == "all":
            return all(a.values())
        return a[proj]
    return bool(a)


def _judge_stream(stream, reps, failures, cov, stats):
    for r in reps:
        if "error" in r and r.get("case") is not None:
            # trouble that is not an answer of the implementation (a driver that died, a sub-process that timed out on
            # a loaded machine): the case is run once more, here, and only a repeated error is reported
            try:
                again = engine.run_cases(stream["component"], 0, 1, stream["params"], explicit=[r["case"]], inproc=True)
                if again and "error" not in again[0]:
                    cov["harness_retries"] = cov.get("harness_retries", 0) + 1
                    r = again[0]
            except Exception:  # noqa: BLE001
                pass
        if "error" in r:
            failures.append({"kind": "harness", "component": stream["component"], "case": r.get("case"),
                             "detail": r["error"]})
            continue
        stats.add(r)
        if not r.get("in_domain", True):
            cov["out_of_domain"] = cov.get("out_of_domain", 0) + 1
            continue
        cov["in_domain"] = cov.get("in_domain", 0) + 1
        bad_chk = [k for k in stream["checks"] if k in r["checks"] and not r["checks"][k][0]]
        if bad_chk:
            cov["checker_failures"] = cov.get("checker_failures", 0) + 1
            failures.append({"kind": "checker", "component": stream["component"], "case": r["case"],
                             "impl": r.get("impl"),
                             "detail": f"checker {bad_chk} false on the implementation's output: "
                                       + "; ".join(str(r["checks"][k][1]) for k in bad_chk),
                             "checks": r["checks"]})
            continue
        if r.get("meta_fail"):
            cov["checker_failures"] = cov.get("checker_failures", 0) + 1
            failures.append({"kind": "metamorphic", "component": stream["component"], "case": r["case"],
                             "impl": r.get("impl"), "detail": r["meta_fail"]})
            continue
        if not _agree(r, stream["proj"]):
            d = r.get("diff") or {}
            cov["disagreements"] = cov.get("disagreements", 0) + 1
            if stream.get("direct"):
                failures.append({"kind": "checker", "component": stream["component"], "case": r["case"],
                                 "impl": d.get("impl", r.get("impl")), "model": d.get("model"),
                                 "detail": "the implementation's result differs from the model's, which is the property's "
                                           f"specification by theorem {stream['direct']}"})
            else:
                failures.append({"kind": "correspondence", "component": stream["component"], "case": r["case"],
                                 "impl": d.get("impl", r.get("impl")), "model": d.get("model"),
                                 "detail": f"model and implementation differ through projection {stream['proj']}"})
        elif isinstance(r["agree"], dict) and not all(r["agree"].values()):
            cov["differences_outside_projection"] = cov.get("differences_outside_projection", 0) + 1


def run_property(pid, tier, seed, escalate=False, replay=None):
    prop = PROPS[pid]
    if "custom" in prop:
        return prop["custom"](tier, seed, escalate=escalate, replay=replay)
    failures = []
    cov = {"evaluations": 0, "disagreements": 0, "checker_failures": 0, "streams": []}
    stats = engine.Stats()
    if replay is not None:
        comp = replay["component"]
        stream = next(s for s in prop["streams"] if s["component"] == comp)
        reps = engine.run_cases(comp, seed, 1, stream["params"], explicit=[replay["case"]])
        _judge_stream(stream, reps, failures, cov, stats)
        cov["evaluations"] = 1
        cov["distinct_nontrivial"] = 0
        cov["samples"] = [replay["case"]]
        return {"failures": failures, "coverage": cov}
    import fingerprint
    fp_mult, fp_changed = fingerprint.multiplier(pid)
    cov["source_fingerprints_changed"] = fp_changed
    cov["budget_multiplier"] = fp_mult
    for stream in prop["streams"]:
        comp = stream["component"]
        # corpus (minimized past disagreements) first
        corpus = load_corpus(comp)
        if corpus:
            reps = engine.run_cases(comp, seed, len(corpus), stream["params"], explicit=corpus)
            _judge_stream(stream, reps, failures, cov, stats)
        before = len(failures)
        if stream["explicit"] is not None:
            cases = stream["explicit"](tier)
            reps = engine.run_cases(comp, seed, len(cases), stream["params"], explicit=cases)
        else:
            n = stream[tier] * (3 if escalate else 1) * (fp_mult if tier == "quick" else 1)
            # "deep" generation (very long programs, costly for the model's checkers): thorough tier, and the
            # quick tier when the modelled sources differ from the recorded fingerprints
            deep = tier == "thorough" or fp_mult > 1
            # the budget is spent in slices of the base size; once a slice has shown 25 or more concrete failures the
            # rest is skipped (a badly broken tree is not searched for hours: every failing case may run into the
            # per-case time limit).  Without failures every case of the budget is run, in the same order as before.
            base = max(1, stream[tier])
            reps, done = [], 0
            while done < n:
                part = engine.run_cases(comp, seed, min(base, n - done), dict(stream["params"], deep=deep), start=done)
                done += min(base, n - done)
                reps += part
                tmpf = []
                _judge_stream(stream, part, tmpf, {}, engine.Stats())
                if sum(1 for f in tmpf if f["kind"] in ("checker", "metamorphic")) >= 25 and done < n:
                    cov["stopped_early"] = cov.get("stopped_early", 0) + (n - done)
                    break
        _judge_stream(stream, reps, failures, cov, stats)
        new = failures[before:]
        # violation search: correspondence broke but no checker failed -> look further for a failing input
        if new and stream["explicit"] is None and not any(f["kind"] in ("checker", "metamorphic") for f in new):
            extra = engine.run_cases(comp, seed + 7919, 4 * stream[tier], stream["params"])
            tmp = []
            _judge_stream(stream, extra, tmp, cov, stats)
            failures.extend(f for f in tmp if f["kind"] in ("checker", "metamorphic"))
            cov["violation_search_cases"] = cov.get("violation_search_cases", 0) + len(extra)
        cov["streams"].append({"component": comp, "cases": len(reps), "projection": stream["proj"],
                               "checkers": stream["checks"], "exhaustive": bool(stream.get("exhaustive"))})
    cov["evaluations"] = stats.counters["evaluations"]
    cov["distinct_nontrivial"] = len(stats.distinct)
    cov["rule"] = prop.get("rule", "cases are generated from VERIF_SEED by harness/gen.py (or enumerated for the streams "
                           "marked exhaustive); each component states in harness/components.py what makes a case "
                           "non-trivial (e.g. sim: processor inside wf_procb, >= 2 instructions, >= 3 cycles); "
                           "distinct = distinct digests of the canonical input")
    cov["samples"] = stats.samples or [{"note": "no non-trivial sample"}]
    cov["distribution"] = {k[4:]: v for k, v in sorted(stats.counters.items()) if k.startswith("tag:")}
    cov["exhaustive"] = all(s.get("exhaustive") for s in prop["streams"])
    import implrun_probe
    cov["shim_active"] = implrun_probe.shim_active()
    return {"failures": failures, "coverage": cov}


def load_corpus(comp):
    d = os.path.join(VERIF, "corpus", comp)
    out = []
    if os.path.isdir(d):
        for fn in sorted(os.listdir(d)):
            if fn.endswith(".json"):
                out.append(json.load(open(os.path.join(d, fn)))["case"])
    return out


# ----------------------------------------------------------------------------- known findings
def match_known(open_known, rep):
    import matchers
    for k in open_known:
        m = getattr(matchers, k["matcher"], None)
        try:
            hit = bool(m and m(rep))
        except Exception:  # noqa: BLE001  a matcher that cannot read the report does not match it
            hit = False
        if hit:
            return k
    return None


def known_demo(k):
    """re-demonstrates a listed open finding on its pinned input; True if it still reproduces"""
    import matchers
    f = getattr(matchers, k["matcher"] + "_demo", None)
    return bool(f and f())


def shrink(pid, rep):
    try:
        import shrinker
        return shrinker.shrink(pid, rep)
    except Exception:  # noqa: BLE001  shrinking is best effort
        return rep


def coqchk(pid):
    """independent re-check of the compiled property file and everything it depends on; returns (ok, report)"""
    p = subprocess.run(f"timeout 1500 coqchk -silent -o -Q model PS -Q spec PS -Q proofs PS -Q props PS PS.{pid} 2>&1",
                       shell=True, capture_output=True, text=True, cwd=os.path.join(VERIF, "coq"))
    out = p.stdout[-3000:]
    clean = all(f"* {k}: <none>" in out for k in ("Axioms", "Constants/Inductives relying on type-in-type",
                                                   "Constants/Inductives relying on unsafe (co)fixpoints",
                                                   "Inductives whose positivity is assumed"))
    return p.returncode == 0 and clean, out



PROPS["C20"]["custom"] = run_c20
