#!/bin/sh
# fresh_build_test.sh : clone the committed /verif into a scratch directory and run setup there (development aid).
# The working tree keeps compiled files that can hide a missing build input; only a clean clone shows it.
set -e
ROOT=$(cd "$(dirname "$0")/.." && pwd)
T=$(mktemp -d /tmp/verif-fresh.XXXXXX)
trap 'rm -rf "$T"' EXIT
git clone -q "$ROOT" "$T/verif"
sh "$T/verif/harness/setup.sh" | tail -4
cd "$T/verif" && VERIF_EVIDENCE_DIR="$T/ev" /venv/bin/python harness/check.py C19 --tier quick | tail -1
