#!/venv/bin/python
"""purity.py -- the differential part of C20.

  purity.py gen <seed> <n> <out.json>       generate cases (needs the implementation for accepted descriptions)
  purity.py run <cases.json> <out.json>     run every case: twice, with unrelated work in between, checking
                                            that no argument was modified; prints canonical results as JSON

check.py C20 starts `run` in fresh interpreters under several PYTHONHASHSEED values and compares all
results with each other (and, through the ordinary components, with the one pure value of the model)."""
import copy
import json
import os
import random
import sys

HERE = os.path.dirname(os.path.abspath(__file__))
sys.path.insert(0, HERE)


def js(x):
    from components import jsonable
    return jsonable(x)


def gen(seed, n, out):
    import components
    import engine
    cases = []
    kinds = [("loader", 0.35), ("isa", 0.15), ("parse", 0.15), ("lib", 0.35)]
    comps = components.COMPONENTS
    for i in range(n):
        rng = engine.case_rng(seed, "purity", i)
        r = rng.random()
        acc = 0.0
        for k, w in kinds:
            acc += w
            if r < acc:
                break
        if k == "lib":
            c = comps["recase"].make(rng, {"nmax": 5})
            if c is None:
                continue
            cases.append({"kind": "lib", "case": {"desc": c["desc"], "isa": c["isa"], "lines": c["lines"]}})
        else:
            c = comps[k].make(rng, {})
            if c is not None:
                cases.append({"kind": k, "case": c})
    json.dump(cases, open(out, "w"))


def run_one(kind, case):
    """returns (canonical result, list of mutated argument names)"""
    import implrun
    mutated = []
    if kind == "loader":
        d = copy.deepcopy(case["desc"])
        enc, proc, mut = implrun.enc_load(d)
        if mut:
            mutated.append("description")
        res = js(enc[:2])
        if str(res[0]) == "err":
            res = ["err", res[1][0]] + ([] if res[1][0] == "DeadInputError" else res[1][1:])   # same CLASS of error
        return res, mutated
    if kind == "isa":
        spec = copy.deepcopy(case["spec"])
        caps = list(case["caps"])
        prog = copy.deepcopy(case["prog"])
        res = js(implrun.run_isa(spec, caps, prog))
        if spec != case["spec"] or caps != case["caps"] or prog != case["prog"]:
            mutated.append("isa table / capabilities / program")
        return res, mutated
    if kind == "parse":
        lines = list(case["lines"])
        res = js(implrun.run_parse(lines))
        if lines != case["lines"]:
            mutated.append("program lines")
        return res, mutated
    if kind == "lib":
        d = copy.deepcopy(case["desc"])
        isa = copy.deepcopy(case["isa"])
        lines = list(case["lines"])
        pu = implrun.M("processor_utils")
        pgu = implrun.M("program_utils")
        ss = implrun.M("sim_services")
        try:
            proc = pu.load_proc_desc(d)
            abil = pu.get_abilities(proc)
            isad = pu.load_isa([tuple(x) for x in isa], abil)
            prog = pgu.read_program(lines)
            isa_before = dict(isad)
            prog_before = [(p.sources, p.destination, p.name, p.line) for p in prog]
            hw = pgu.compile_program(prog, isad)
            if dict(isad) != isa_before:
                mutated.append("instruction set (compile_program)")
            if [(p.sources, p.destination, p.name, p.line) for p in prog] != prog_before:
                mutated.append("parsed program (compile_program)")
            proc_before = implrun.enc_proc(proc)
            hw_before = implrun.enc_hwprog(hw)
            spec = ss.HwSpec(proc)
            sim = implrun.run_sim_obj(proc, hw)
            if js(implrun.enc_proc(proc)) != js(proc_before) or js(implrun.enc_proc(spec.processor_desc)) != js(proc_before):
                mutated.append("ProcessorDesc (simulate)")
            if js(implrun.enc_hwprog(hw)) != js(hw_before):
                mutated.append("program (simulate)")
            res = {"proc": js(proc_before), "isa": [[k, v] for k, v in isad.items()], "hw": js(hw_before), "sim": js(sim)}
        except Exception as e:  # noqa: BLE001
            res = {"err": type(e).__name__}
        if d != case["desc"]:
            mutated.append("description")
        if isa != case["isa"]:
            mutated.append("isa table")
        if lines != case["lines"]:
            mutated.append("program lines")
        return res, mutated
    raise ValueError(kind)


def run(cases_file, out):
    cases = json.load(open(cases_file))
    rng = random.Random(1234)
    results = []
    for idx, c in enumerate(cases):
        r1, m1 = run_one(c["kind"], c["case"])
        # unrelated work: some other case of the batch
        o = cases[rng.randrange(len(cases))]
        run_one(o["kind"], o["case"])
        r2, m2 = run_one(c["kind"], c["case"])
        results.append({"r1": r1, "r2": r2, "mutated": sorted(set(m1 + m2))})
    json.dump(results, open(out, "w"))


if __name__ == "__main__":
    if sys.argv[1] == "gen":
        gen(int(sys.argv[2]), int(sys.argv[3]), sys.argv[4])
    else:
        run(sys.argv[2], sys.argv[3])
