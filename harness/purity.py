#!/venv/bin/python
"""purity.py -- the differential part of C20.

  purity.py gen <seed> <n> <out.json>       generate cases (needs the implementation for accepted descriptions)
  purity.py run <cases.json> <out.json>     run every case: twice, with unrelated work in between, checking
                                            that no argument was modified; prints canonical results as JSON

check.py C20 starts `run` in fresh interpreters under several PYTHONHASHSEED values and compares all
results with each other (and, through the ordinary components, with the one pure value of the model)."""
import copy
import json
import os
import random
import sys

HERE = os.path.dirname(os.path.abspath(__file__))
sys.path.insert(0, HERE)


def js(x):
    from components import jsonable
    return jsonable(x)


def gen(seed, n, out):
    import components
    import engine
    cases = []
    kinds = [("loader", 0.35), ("isa", 0.15), ("parse", 0.15), ("lib", 0.35)]
    comps = components.COMPONENTS
    for i in range(n):
        rng = engine.case_rng(seed, "purity", i)
        r = rng.random()
        acc = 0.0
        for k, w in kinds:
            acc += w
            if r < acc:
                break
        if k == "lib":
            c = comps["recase"].make(rng, {"nmax": 5})
            if c is None:
                continue
            if rng.random() < 0.2:
                import gen as _gen
                c = _gen.latin1ify(rng, c)
            cases.append({"kind": "lib", "case": {"desc": c["desc"], "isa": c["isa"], "lines": c["lines"]}})
        else:
            c = comps[k].make(rng, {})
            if c is not None and rng.random() < 0.2:
                import gen as _gen
                c = _gen.latin1ify(rng, c)
            if c is not None:
                cases.append({"kind": k, "case": c})
    # deep descriptions (always): a dead-end chain of 700 units needs recursion headroom only if the code recurses
    import gen as _gen
    cases.append({"kind": "loader", "case": {"desc": _gen.deep_dead_chain(700), "kind": "deep-dead-chain-oracle", "oracle_n": 700,
                                             "oracle": "dead"}})
    cases.append({"kind": "loader", "case": {"desc": _gen.plain_deep_chain(700), "kind": "deep-chain-oracle", "oracle_n": 700}})
    json.dump(cases, open(out, "w"))


def other_ambient(fn, depth=400):
    """runs fn() where every hidden input a pure function must ignore is different: 400 frames deeper in the
    stack, another working directory, other locale / time-zone variables, logging switched on (silently)"""
    import implrun
    old_cwd, old_env = os.getcwd(), dict(os.environ)

    def down(k):
        return fn() if k == 0 else down(k - 1)
    try:
        os.chdir("/")
        os.environ.update({"LANG": "tr_TR.UTF-8", "LC_ALL": "tr_TR.UTF-8", "TZ": "Pacific/Kiritimati", "COLUMNS": "20",
                           "PYTHONIOENCODING": "ascii"})
        with implrun.chatty_logging(0):
            return down(depth)
    finally:
        os.chdir(old_cwd)
        os.environ.clear()
        os.environ.update(old_env)


def run_one(kind, case):
    """returns (canonical result, list of mutated argument names)"""
    import implrun
    mutated = []
    if kind == "loader":
        d = copy.deepcopy(case["desc"])
        enc, proc, mut = implrun.enc_load(d)
        if mut:
            mutated.append("description")
        res = js(enc[:2])
        if str(res[0]) == "err":
            res = ["err", res[1][0]] + ([] if res[1][0] == "DeadInputError" else res[1][1:])   # same CLASS of error
        return res, mutated
    if kind == "isa":
        spec = copy.deepcopy(case["spec"])
        caps = list(case["caps"])
        prog = copy.deepcopy(case["prog"])
        res = js(implrun.run_isa(spec, caps, prog))
        if spec != case["spec"] or caps != case["caps"] or prog != case["prog"]:
            mutated.append("isa table / capabilities / program")
        return res, mutated
    if kind == "parse":
        lines = list(case["lines"])
        res = js(implrun.run_parse(lines))
        if lines != case["lines"]:
            mutated.append("program lines")
        return res, mutated
    if kind == "lib":
        d = copy.deepcopy(case["desc"])
        isa = copy.deepcopy(case["isa"])
        lines = list(case["lines"])
        pu = implrun.M("processor_utils")
        pgu = implrun.M("program_utils")
        ss = implrun.M("sim_services")
        try:
            proc = pu.load_proc_desc(d)
            abil = pu.get_abilities(proc)
            isad = pu.load_isa([tuple(x) for x in isa], abil)
            prog = pgu.read_program(lines)
            isa_before = dict(isad)
            prog_before = [(p.sources, p.destination, p.name, p.line) for p in prog]
            hw = pgu.compile_program(prog, isad)
            if dict(isad) != isa_before:
                mutated.append("instruction set (compile_program)")
            if [(p.sources, p.destination, p.name, p.line) for p in prog] != prog_before:
                mutated.append("parsed program (compile_program)")
            proc_before = implrun.enc_proc(proc)
            hw_before = implrun.enc_hwprog(hw)
            spec = ss.HwSpec(proc)
            sim = implrun.run_sim_obj(proc, hw)
            if js(implrun.enc_proc(proc)) != js(proc_before) or js(implrun.enc_proc(spec.processor_desc)) != js(proc_before):
                mutated.append("ProcessorDesc (simulate)")
            if js(implrun.enc_hwprog(hw)) != js(hw_before):
                mutated.append("program (simulate)")
            res = {"proc": js(proc_before), "isa": [[k, v] for k, v in isad.items()], "hw": js(hw_before), "sim": js(sim)}
        except Exception as e:  # noqa: BLE001
            res = {"err": type(e).__name__}
        if d != case["desc"]:
            mutated.append("description")
        if isa != case["isa"]:
            mutated.append("isa table")
        if lines != case["lines"]:
            mutated.append("program lines")
        return res, mutated
    raise ValueError(kind)


def overwrite_in_place(obj, new):
    """make `obj` equal to `new` while keeping the SAME container objects wherever the shapes allow
    (lists by slice assignment, dicts by clear/update, recursively)"""
    if isinstance(obj, dict) and isinstance(new, dict):
        for k in list(obj):
            if k not in new:
                del obj[k]
        for k, v in new.items():
            if k in obj and type(obj[k]) is type(v) and isinstance(v, (dict, list)):
                overwrite_in_place(obj[k], v)
            else:
                obj[k] = copy.deepcopy(v)
    elif isinstance(obj, list) and isinstance(new, list):
        keep = min(len(obj), len(new))
        for i in range(keep):
            if type(obj[i]) is type(new[i]) and isinstance(new[i], (dict, list)):
                overwrite_in_place(obj[i], new[i])
            else:
                obj[i] = copy.deepcopy(new[i])
        del obj[keep:]
        obj.extend(copy.deepcopy(new[keep:]))


def reuse_history(kind, a, b):
    """call history 'same argument object, edited in place between two calls': the second call must
    return what a fresh copy of the edited value returns.  Returns a problem string or None."""
    import implrun
    implrun.RAW_ARGS = True          # the argument object itself reaches the implementation (no re-shaping on the way)
    try:
        return _reuse_history(kind, a, b)
    finally:
        implrun.RAW_ARGS = False


def _reuse_history(kind, a, b):
    import implrun
    if kind == "loader":
        f = lambda d: js(implrun.enc_load(d)[0][:2])
        key = "desc"
    elif kind == "parse":
        f = lambda ls: js(implrun.run_parse(ls))
        key = "lines"
    elif kind == "lib":
        def f(c):
            return js(implrun.run_library(c["desc"], c["isa"], c["lines"]))
        key = None
    else:
        return None
    obj = copy.deepcopy(a[key] if key else a)
    f(obj)
    target = b[key] if key else b
    overwrite_in_place(obj, target)
    if obj != target:
        return None
    got = f(obj)
    want = f(copy.deepcopy(target))

    def cls(r):
        if isinstance(r, list) and r and str(r[0]) == "err":
            return ["err", r[1][0]]
        if isinstance(r, dict) and "err" in r:
            return {"err": r["err"][0]}
        return r
    if cls(got) != cls(want):
        return "an argument object edited in place between two calls gave a result different from a fresh copy of the same value"
    return None


def run(cases_file, out):
    cases = json.load(open(cases_file))
    rng = random.Random(1234)
    results = []
    for idx, c in enumerate(cases):
        r1, m1 = run_one(c["kind"], c["case"])
        # unrelated work: some other case of the batch
        o = cases[rng.randrange(len(cases))]
        run_one(o["kind"], o["case"])
        r2, m2 = other_ambient(lambda: run_one(c["kind"], c["case"]))
        # same argument object, edited in place into another case of the same kind
        same = [x for x in cases if x["kind"] == c["kind"]]
        other = same[rng.randrange(len(same))]
        hist = reuse_history(c["kind"], other["case"], c["case"])
        results.append({"r1": r1, "r2": r2, "mutated": sorted(set(m1 + m2)), "history": hist})
    json.dump(results, open(out, "w"))


if __name__ == "__main__":
    if sys.argv[1] == "gen":
        gen(int(sys.argv[2]), int(sys.argv[3]), sys.argv[4])
    else:
        run(sys.argv[2], sys.argv[3])
