#!/bin/sh
# run_all.sh quick|thorough : every registered check in turn (development aid)
tier=${1:-quick}
ROOT=$(cd "$(dirname "$0")/.." && pwd)
cd "$ROOT"
for p in C01 C02 C03 C04 C05 C06 C07 C08 C09 C10 C11 C12 C13 C14 C15 C16 C17 C18 C19 C20; do
  /venv/bin/python harness/check.py $p --tier $tier 2>&1 | grep -E "VIOLATION|KNOWN-FINDING|$tier:" | cut -c1-260
done
