"""Structural matchers for entries of known_findings.json: each decides whether a failure report
is an instance of that listed finding (so that any other violation is still reported)."""
import engine


def _desc(rep):
    c = rep.get("case") or {}
    return c.get("desc")


def _outcome(rep):
    impl = rep.get("impl") or {}
    out = impl.get("out") if isinstance(impl, dict) else impl
    try:
        if out and str(out[0]) == "err":
            return str(out[1][0])
    except (IndexError, TypeError, KeyError):       # a report of another shape is simply not this finding
        pass
    return None


def acl_undeclared_cap(rep):
    """a memoryAccess entry names a capability no unit declares -> bare AssertionError (finding O2)"""
    d = _desc(rep)
    if not d or rep.get("component") != "loader" or _outcome(rep) != "AssertionError":
        return False
    declared = {c.lower() for u in d["units"] for c in u.get("capabilities", [])}
    return any(c.lower() not in declared for u in d["units"] for c in u.get("memoryAccess", []))


PINNED = {
    "acl_undeclared_cap": {"desc": {"units": [{"name": "core", "width": 1, "capabilities": ["ALU"], "readLock": True,
                                               "writeLock": True, "memoryAccess": ["MEM"]}], "dataPath": []},
                           "kind": "pinned"},
}


def _demo(name):
    reps = engine.run_cases("loader", 0, 1, {}, explicit=[PINNED[name]])
    if not reps or "error" in reps[0]:
        return False
    r = reps[0]
    bad = "C11" in r["checks"] and not r["checks"]["C11"][0]
    rep = {"component": "loader", "case": r["case"], "impl": r.get("impl")}
    return bad and globals()[name](rep)


def acl_undeclared_cap_demo():
    return _demo("acl_undeclared_cap")
