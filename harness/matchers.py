"""Structural matchers for entries of known_findings.json: each decides whether a failure report
is an instance of that listed finding (so that any other violation is still reported)."""
