#!/venv/bin/python
"""Re-applies every stored seeded breaking change to /repo and runs the quick check of the property it
breaks (development aid; /repo is restored after each).  Prints the detection matrix."""
import glob, json, os, re, subprocess, sys
V = "/verif"
env = dict(os.environ, VERIF_EVIDENCE_DIR=os.path.join(V, ".work", "evidence-seed"))
rows = []
for m in sorted(glob.glob(V + "/seeded/*/meta.json")):
    d = json.load(open(m))
    if d.get("kind") == "harmless refactoring" or (len(sys.argv) > 1 and d["name"] not in sys.argv[1:]):
        continue
    pid = d["property"]
    patch = os.path.join(os.path.dirname(m), "patch.diff")
    if subprocess.run(f"git -C /repo apply {patch}", shell=True).returncode != 0:
        rows.append((d["name"], pid, "APPLY-FAILED")); continue
    try:
        p = subprocess.run(f"/venv/bin/python harness/check.py {pid} --tier quick", shell=True, cwd=V, env=env,
                           capture_output=True, text=True, timeout=3600)
        mm = re.search(r"VIOLATION property=\S+ replay=\S+(.*)", p.stdout)
        verdict = "missed" if not mm else ("corr-only" if "no-failing-input-found" in mm.group(1) else "direct")
    finally:
        subprocess.run("git -C /repo checkout -- .", shell=True)
    d["regress"] = verdict
    json.dump(d, open(m, "w"), indent=1)
    rows.append((d["name"], pid, verdict))
    print(d["name"], pid, verdict, flush=True)
print("missed:", [r for r in rows if r[2] not in ("direct", "corr-only")])
