#!/venv/bin/python
"""seedtest.py <name> <property> <worktree> [--props C01,C02,...]
Confirms a seeded change (made by an independent sub-agent in a scratch worktree of /repo) and runs the
registered quick checks against it:
  1. copies mutation.patch / demo.py / NOTES.md into /verif/seeded/<name>/
  2. in the scratch worktree: demo passes on the original tree, fails on the changed tree; the 32 baseline
     tests still pass with the change
  3. applies the patch to /repo, runs the quick checks, records which fired, and reverts /repo.
Development aid; not one of the registered checks."""
import json
import os
import re
import shutil
import subprocess
import sys

VERIF = "/verif"
BASE32 = None


def sh(cmd, cwd=None, env=None, timeout=3600):
    p = subprocess.run(cmd, shell=True, cwd=cwd, env=env, capture_output=True, text=True, timeout=timeout)
    return p.returncode, p.stdout + p.stderr


def baseline_passes(tree):
    rc, out = sh("/venv/bin/python -m pytest -q -p no:cacheprovider --timeout=900 --continue-on-collection-errors "
                 "-rA 2>&1 | grep -E '^PASSED' | sort", cwd=tree)
    return set(out.split("\n")) - {""}


def main():
    name, pid, wt = sys.argv[1:4]
    props = None
    if "--props" in sys.argv:
        props = sys.argv[sys.argv.index("--props") + 1].split(",")
    dst = os.path.join(VERIF, "seeded", name)
    os.makedirs(dst, exist_ok=True)
    rc, patch = sh("git diff -- src", cwd=wt)
    if not patch.strip():
        patch = open(os.path.join(wt, "mutation.patch")).read()
    open(os.path.join(dst, "patch.diff"), "w").write(patch)
    for f in ("demo.py", "NOTES.md"):
        if os.path.exists(os.path.join(wt, f)):
            shutil.copy(os.path.join(wt, f), os.path.join(dst, f))
    meta = {"property": pid, "name": name}
    env = dict(os.environ, PYTHONPATH=f"/tmp/shim:{wt}/src")
    # demo on changed tree
    rc_c, out_c = sh(f"/venv/bin/python {wt}/demo.py", cwd=wt, env=env)
    # demo on original tree
    sh(f"git apply -R {dst}/patch.diff", cwd=wt)      # (git stash is shared between worktrees: not used)
    try:
        rc_o, out_o = sh(f"/venv/bin/python {wt}/demo.py", cwd=wt, env=env)
        base_o = baseline_passes(wt)
    finally:
        sh(f"git apply {dst}/patch.diff", cwd=wt)
    base_c = baseline_passes(wt)
    meta["demo_original"] = {"rc": rc_o, "tail": out_o[-300:]}
    meta["demo_changed"] = {"rc": rc_c, "tail": out_c[-600:]}
    meta["baseline_passed_original"] = len(base_o)
    meta["baseline_passed_changed"] = len(base_c)
    meta["baseline_same_set"] = base_o == base_c
    meta["confirmed"] = rc_o == 0 and rc_c != 0 and base_o <= base_c and len(base_o) >= 32
    # run checks against /repo with the patch applied
    manifest = json.load(open(os.path.join(VERIF, "MANIFEST.json")))
    claimed = [c["property_id"] for c in manifest["checks"]]
    props = props or claimed
    scratch = "--scratch" in sys.argv          # run the checks against the worktree itself (REPO override): /repo untouched
    rc, out = (0, "") if scratch else sh(f"git -C /repo apply {dst}/patch.diff")
    fired = {}
    if rc != 0:
        meta["apply_error"] = out[-500:]
    else:
        try:
            for p in props:
                rcp, outp = sh(f"/venv/bin/python harness/check.py {p} --tier quick", cwd=VERIF,
                               env=dict(os.environ, VERIF_EVIDENCE_DIR=os.path.join(VERIF, ".work", "evidence-seed-" + name),
                                        **({"VERIF_REPO": wt} if scratch else {})))
                m = re.search(r"VIOLATION property=(\S+) replay=(\S+)(.*)", outp)
                fired[p] = {"rc": rcp, "violation": bool(m), "no_failing_input": bool(m and "no-failing-input-found" in m.group(3)),
                            "summary": outp.strip().split("\n")[-1][-200:]}
                if m and os.path.exists(m.group(2)):
                    shutil.copy(m.group(2), os.path.join(dst, f"replay-{p}.json"))
        finally:
            if not scratch:
                sh("git -C /repo checkout -- .")
    meta["checks"] = fired
    meta["detected_by"] = sorted(p for p, v in fired.items() if v["violation"])
    meta["what_we_ran"] = "demo.py on original/changed scratch worktree; baseline pytest (no shim) on both; " \
                          "harness/check.py <P> --tier quick with the patch applied to /repo, then git checkout -- ."
    notes = os.path.join(dst, "NOTES.md")
    meta["needs"] = open(notes).read()[:1500] if os.path.exists(notes) else ""
    json.dump(meta, open(os.path.join(dst, "meta.json"), "w"), indent=1)
    print(json.dumps({k: meta[k] for k in ("confirmed", "baseline_same_set", "detected_by")}))
    for p, v in fired.items():
        print(" ", p, v["summary"])
    rc, out = sh("git -C /repo status --short -- src")
    if out.strip():
        print("WARNING /repo not clean:", out)


if __name__ == "__main__":
    main()
