"""Runs the implementation in /repo's working tree (with the fastcore-1.7 shim) and encodes
its inputs/outputs canonically.  Imported only inside worker processes."""
import copy
import io
import json
import logging
import os
import signal
import sys

HERE = os.path.dirname(os.path.abspath(__file__))
REPO = os.environ.get("VERIF_REPO", "/repo")
sys.path.insert(0, os.path.join(HERE, "compat"))
import fastcore_self  # noqa: E402,F401  (must precede any /repo import)

sys.path.insert(0, os.path.join(REPO, "src"))
logging.disable(logging.CRITICAL)

from sx import Sym  # noqa: E402

SHIM_ACTIVE = fastcore_self.ACTIVE
CASE_TIMEOUT = float(os.environ.get("VERIF_CASE_TIMEOUT", "10"))


class CaseTimeout(Exception):
    pass


def _alarm(signum, frame):
    raise CaseTimeout()


try:
    signal.signal(signal.SIGALRM, _alarm)
except ValueError:          # imported outside the main thread (e.g. while unpickling): no per-case alarm there
    pass


def with_timeout(fn, *a):
    signal.setitimer(signal.ITIMER_REAL, CASE_TIMEOUT)
    try:
        return fn(*a)
    finally:
        signal.setitimer(signal.ITIMER_REAL, 0)


# ---------------------------------------------------------------- lazy imports of /repo
_mods = {}


def M(name):
    if name not in _mods:
        import importlib
        _mods[name] = importlib.import_module(name)
    return _mods[name]


# ---------------------------------------------------------------- encoders
def enc_unit(m):
    try:
        mem = list(m._mem_acl)                            # private attribute
    except AttributeError:
        mem = None
        try:                                              # renamed: the one remaining sequence-valued attrs field
            import attr
            rest = [f.name for f in attr.fields(type(m)) if f.name not in ("name", "width", "capabilities", "lock_info")]
            vals = [getattr(m, n) for n in rest if isinstance(getattr(m, n), (tuple, list, set, frozenset))]
            if len(vals) == 1:
                mem = sorted(vals[0])
        except Exception:  # noqa: BLE001
            mem = None
        if mem is None:
            mem = [c for c in m.capabilities if m.needs_mem(c)]     # the public view (kept capabilities only)
    return [m.name, int(m.width), list(m.capabilities), bool(m.lock_info.rd_lock),
            bool(m.lock_info.wr_lock), mem]


def enc_funit(f):
    return [enc_unit(f.model), [p.name for p in f.predecessors]]


def enc_proc(p):
    return [[enc_unit(m) for m in p.in_ports], [enc_funit(f) for f in p.out_ports],
            [enc_unit(m) for m in p.in_out_ports], [enc_funit(f) for f in p.internal_units]]


def enc_hwprog(prog):
    ex = lambda x: "".join(str.__iter__(x)) if isinstance(x, str) else x        # exact characters of str subclasses
    return [[[ex(s) for s in i.sources], ex(i.destination), ex(i.categ)] for i in prog]


def canon_record(bag):
    return sorted([k, sorted([int(e.instr), Sym(str(e.stalled))] for e in v)]
                  for k, v in bag.items())


def canon_diag(tbl):
    return [canon_record(r) for r in tbl]


def exc_info(e):
    """(class name, public attrs, message) of an exception"""
    fields = {}
    for k in ("old_element", "new_element", "unit", "width", "edge", "element", "port",
              "start", "lock_type", "capability", "instr", "line"):
        if hasattr(e, k):
            fields[k] = getattr(e, k)
    return type(e).__name__, fields, str(e)


# ---------------------------------------------------------------- building objects
def mk_unit(u):
    units = M("processor_utils.units")
    name, width, caps, rl, wl, mem = u
    return units.UnitModel(name, width, list(caps), units.LockInfo(rl, wl), list(mem))


def mk_proc_from_parts(parts):
    """parts = dict(ins=[U], outs=[(U,[pred names])], inouts=[U], ints=[(U,[pred names])]) in the
    given (arbitrary) order; builds a ProcessorDesc through the public constructors."""
    pu = M("processor_utils")
    units = M("processor_utils.units")
    models = {}
    for u in parts["ins"] + parts["inouts"] + [f[0] for f in parts["outs"]] + [f[0] for f in parts["ints"]]:
        models[u[0]] = mk_unit(u)
    # every argument is an Iterable: lists, tuples and generators in turn (chosen by the sizes, so deterministic)
    forms = ["list", "tuple", "generator"]
    k0 = len(parts["ints"]) + 2 * len(parts["outs"]) + len(parts["ins"])
    # a predecessor is referred to by a UnitModel: the listed object itself, an equal copy of it, or (one build in three)
    # a model that agrees with it in the NAME only - predecessors are identified by name
    raw = {}
    for u in parts["ins"] + parts["inouts"] + [f[0] for f in parts["outs"]] + [f[0] for f in parts["ints"]]:
        raw[u[0]] = u

    def pred_obj(p, j):
        mode = (k0 + j) % 3
        if mode == 1:
            return copy.deepcopy(models[p])
        if mode == 2:
            nm, width, caps, rl, wl, mem = raw[p]
            return mk_unit([nm, int(width) + 1, list(caps)[:1], rl, wl, []])
        return models[p]
    fu = lambda f: units.FuncUnit(models[f[0][0]], shaped([pred_obj(p, j) for j, p in enumerate(f[1])],
                                                          forms[(k0 + len(f[1])) % 3]))
    return pu.ProcessorDesc(shaped([models[u[0]] for u in parts["ins"]], forms[k0 % 3]),
                            shaped([fu(f) for f in parts["outs"]], forms[(k0 + 1) % 3]),
                            shaped([models[u[0]] for u in parts["inouts"]], forms[(k0 + 2) % 3]),
                            shaped([fu(f) for f in parts["ints"]], forms[(k0 // 3) % 3]))


def mk_hwprog(prog):
    """the program as HwInstruction objects; in every second program, instructions that are equal (same sources,
    destination, capability) are ONE object occurring several times (sharing inside the argument: anything keyed
    by object identity or by instruction equality instead of by position then confuses them)"""
    pd = M("program_defs")
    out, seen = [], {}
    share = len(prog) % 2 == 0
    for s, d, c in prog:
        ins = pd.HwInstruction(s if not isinstance(s, list) else list(s), d, c)
        if share:
            try:
                ins = seen.setdefault((tuple(ins.sources), ins.destination, ins.categ), ins)
            except Exception:  # noqa: BLE001
                pass
        out.append(ins)
    return out


class chatty_logging:
    """the root logger at DEBUG with silent handlers for the duration of a call (every third call, chosen by `k`):
    code that computes log arguments only when a level is enabled runs those computations"""

    def __init__(self, k):
        self.on = k % 3 == 0

    def __enter__(self):
        if self.on:
            root = logging.getLogger()
            self.old = (root.level, root.handlers[:])
            root.handlers[:] = [logging.NullHandler()]
            root.setLevel(logging.DEBUG)
            logging.disable(logging.NOTSET)

    def __exit__(self, *a):
        if self.on:
            root = logging.getLogger()
            root.setLevel(self.old[0])
            root.handlers[:] = self.old[1]
            logging.disable(logging.CRITICAL)
        return False


# ---------------------------------------------------------------- components
_SIM_KEEP = []


def run_sim_obj(proc, hwprog):
    """returns (tag, payload): Done/Stalled + canonical diagram, or Crash/Timeout.
    History: the arguments and results of the last runs stay alive (weakly keyed or identity-keyed hidden state
    stays populated), and one run in four is preceded by a run of the REVERSED program on the same processor
    object (state left behind by an earlier, different simulation)."""
    ss = M("sim_services")
    spec = ss.HwSpec(proc)          # ONE hardware object for the preceding run and the run under test
    try:
        prog_l = list(hwprog) if isinstance(hwprog, (list, tuple)) else []
        if prog_l and (len(prog_l) + sum(len(getattr(i, "sources", ())) for i in prog_l)) % 4 == 0:
            try:
                _SIM_KEEP.append(with_timeout(lambda: ss.simulate(prog_l[::-1], spec)))
            except BaseException as e:  # noqa: BLE001
                _SIM_KEEP.append(e)
    except Exception:  # noqa: BLE001
        pass
    _SIM_KEEP.append((spec, hwprog))
    del _SIM_KEEP[:-30]
    try:
        with chatty_logging(len(_SIM_KEEP[-1][1]) if isinstance(_SIM_KEEP[-1][1], list) else 1):
            res = with_timeout(lambda: ss.simulate(hwprog, spec))
        return [Sym("Done"), canon_diag(res)]
    except ss.StallError as e:
        return [Sym("Stalled"), canon_diag(e.processor_state)]
    except CaseTimeout:
        return [Sym("Timeout")]
    except Exception as e:  # noqa: BLE001
        return [Sym("Crash"), Sym(type(e).__name__)]


def alias_desc(desc):
    """Sharing INSIDE the argument, as YAML anchors / merge keys produce it: lists with equal contents become one
    list object (a unit's capabilities and memoryAccess, the capability lists of different units, equal
    connections).  Applied in place to every second description (chosen by its size); a loader that works on
    its argument or on a deep copy of it in place is then seen pruning one unit through another."""
    try:
        units = desc.get("units", [])
        if (len(units) + len(desc.get("dataPath", []))) % 2:
            return desc
        seen = {}
        for u in units:
            for k in ("capabilities", "memoryAccess"):
                v = u.get(k)
                if isinstance(v, list) and all(isinstance(x, str) for x in v):
                    u[k] = seen.setdefault(tuple(v), v)
        dp = desc.get("dataPath")
        if isinstance(dp, list):
            for i, e in enumerate(dp):
                if isinstance(e, list) and all(isinstance(x, str) for x in e):
                    dp[i] = seen.setdefault(("edge",) + tuple(e), e)
    except Exception:  # noqa: BLE001
        pass
    return desc


RAW_ARGS = False     # set by the purity histories that must hand the SAME argument object to consecutive calls


def load_desc(desc):
    """returns ('ok', ProcessorDesc) or ('err', (cls, fields, msg))"""
    pu = M("processor_utils")
    if RAW_ARGS:
        return _load_desc(pu, desc)
    alias_desc(desc)
    # `units` and `dataPath` are typed Iterable: lists, tuples and one-shot iterables in turn; and one call in three
    # runs with the root logger at INFO, as the command-line driver configures it (handlers silenced)
    info = False
    try:
        us, dp = desc["units"], desc["dataPath"]
        if isinstance(us, list) and isinstance(dp, list):
            k = len(us) + 3 * len(dp)
            forms = ["list", "list", "tuple", "generator", "map"]
            desc = dict(desc, units=shaped(us, forms[k % 5]), dataPath=shaped(dp, forms[(k // 5) % 5]))
            info = k % 3 == 0
    except Exception:  # noqa: BLE001
        pass
    if info:
        root = logging.getLogger()
        old, old_handlers = root.level, root.handlers[:]
        root.handlers[:] = [logging.NullHandler()]
        root.setLevel(logging.INFO)
        logging.disable(logging.NOTSET)
    try:
        return _load_desc(pu, desc)
    finally:
        if info:
            root.setLevel(old)
            root.handlers[:] = old_handlers
            logging.disable(logging.CRITICAL)


def _load_desc(pu, desc):
    try:
        return "ok", with_timeout(pu.load_proc_desc, desc)
    except CaseTimeout:
        return "err", ("Timeout", {}, "")
    except Exception as e:  # noqa: BLE001
        return "err", exc_info(e)


# ---------------------------------------------------------------- icase / bag / regq
_XPROC = {}
XPROC_POOL = ["ALU", "alu", "Mem", "MEM", "fetch", "Fetch", "R1", "r1", "", "a b", "\u00c9cole", "\u00e9COLE", "x" * 40, "X" * 40]


def xproc_objects():
    """ICaseStrings of XPROC_POOL pickled by ANOTHER interpreter process started with a different hash seed
    (objects that arrive from outside keep whatever state that process put into them).  One sub-process per
    worker; None when the class cannot be pickled there (then the history is simply not exercised)."""
    if "objs" not in _XPROC:
        import base64, pickle, subprocess
        seed = "4242" if os.environ.get("PYTHONHASHSEED") != "4242" else "1717"
        code = ("import sys,json,pickle,base64\nfrom str_utils import ICaseString\n"
                "print(base64.b64encode(pickle.dumps([ICaseString(s) for s in json.load(sys.stdin)])).decode())")
        try:
            r = subprocess.run([sys.executable, "-c", code], input=json.dumps(XPROC_POOL), capture_output=True, text=True,
                               timeout=60, env=dict(os.environ, PYTHONHASHSEED=seed,
                                                    PYTHONPATH=os.pathsep.join(p for p in sys.path if p)))
            _XPROC["objs"] = dict(zip(XPROC_POOL, pickle.loads(base64.b64decode(r.stdout.strip()))))
        except Exception:  # noqa: BLE001
            _XPROC["objs"] = None
    return _XPROC["objs"]


def run_icase(a, b, via="direct"):
    su = M("str_utils")
    A, B = su.ICaseString(a), su.ICaseString(b)
    try:
        if via == "xproc" and xproc_objects() and a in xproc_objects():
            A = xproc_objects()[a]
        elif via == "deepcopy":
            A = copy.deepcopy(A)
        elif via == "pickle":
            import pickle
            A = pickle.loads(pickle.dumps(A))
    except Exception:  # noqa: BLE001
        A = su.ICaseString(a)
    return [A == B, A < B, hash(A) == hash(B), (b in A), str(A), a.lower(), a.upper()]


def mk_bag(rec, plain=False):
    cu = M("container_utils")
    sd = M("sim_services.sim_defs")
    if plain:
        ty = {"int": int, "bool": bool, "float": float}
        return cu.BagValDict({k: [ty[t](v) for v, t in es] for k, es in rec})
    return cu.BagValDict({k: [sd.InstrState(i, sd.StallState(l)) for i, l in es] for k, es in rec})


def run_bag(a, b, plain=False):
    A, B = mk_bag(a, plain), mk_bag(b, plain)
    if (len(a) + sum(len(es) for _, es in a)) % 2 == 1:
        # history: the record is first built with half of its entries (plus a unit that will be emptied), measured
        # and compared, and only then filled through the lists __getitem__ hands out - as the simulator fills its
        # cycle records.  Anything computed at the first measurement must not survive.
        try:
            full = mk_bag(a, plain)
            half = [[k, es[:len(es) // 2]] for k, es in a] + [["\x00tmp", a[0][1][:1] if a and a[0][1] else []]]
            A2 = mk_bag(half, plain)
            len(A2), A2 == B, B == A2, repr(A2)
            for k, es in a:
                A2[k].extend(full[k][len(es) // 2:])
            A2["\x00tmp"].clear()
            A = A2
        except Exception:  # noqa: BLE001
            A = mk_bag(a, plain)
    if (len(a) + 2 * len(b)) % 3 == 0:
        # history: the RIGHT-hand record was looked into after it was built (a lookup of an idle unit leaves an empty
        # list behind, as in the simulator's own records); empty lists must not matter on either side
        try:
            for k, _ in a:
                B[k]
            B["\x00idle"]
            A["\x00idle2"]
        except Exception:  # noqa: BLE001
            pass
    e1, e2 = A == B, B == A
    return [e1 if bool(e1) == bool(e2) else Sym("asymmetric"), len(A), repr(A)]


def enc_pyqueue(groups_front_first):
    ra = M("reg_access")
    return [[Sym("R" if g.access_type == ra.AccessType.READ else "W"), sorted(int(o) for o in g.reqs)]
            for g in groups_front_first]


def _fresh(o):
    """an equal int that is a different object whenever CPython allows (owners are compared by value)"""
    return int(str(o)) if isinstance(o, int) else o


def run_regq(reqs, ops):
    ra = M("reg_access")
    ty = {"R": ra.AccessType.READ, "W": ra.AccessType.WRITE}
    b = ra.RegAccQBuilder()
    # life cycle of the builder (chosen by the number of requests): create() once; create() twice, the SECOND queue
    # used and the first left untouched; a queue created half-way, left untouched, and the builder used further
    hist = len(reqs) % 3
    early = []
    for k, (t, o) in enumerate(reqs):
        if hist == 2 and k == len(reqs) // 2:
            early.append(b.create())
        b.append(ty[t], _fresh(o))
    try:
        q0 = enc_pyqueue(list(b._queue))                  # builder keeps registration order (private attribute)
    except (AttributeError, TypeError):
        q0 = Sym("unavailable")
    if hist == 1:
        early.append(b.create())
    q = b.create()
    outs = []
    dead = False
    for op in ops:
        if dead:
            outs.append(Sym("skipped"))
            continue
        if op[0] == "can":
            try:
                outs.append(bool(q.can_access(ty[op[1]], _fresh(op[2]))))
            except IndexError:
                outs.append(Sym("IndexError"))
        else:
            try:
                q.dequeue(_fresh(op[1]))
                outs.append(Sym("ok"))
            except (KeyError, IndexError) as e:
                outs.append(Sym(type(e).__name__))
                dead = True
    try:
        qf = enc_pyqueue(list(reversed(q._queue)))
    except (AttributeError, TypeError):
        qf = Sym("unavailable")
    return [q0, outs, qf]


# ---------------------------------------------------------------- parse / isa
def shaped(seq, form):
    """the same sequence of items in another legal Iterable form"""
    seq = list(seq)
    if form == "tuple":
        return tuple(seq)
    if form == "generator":
        return (x for x in seq)
    if form == "map":
        return map(lambda x: x, seq)
    if form == "file":
        return io.StringIO("".join(x if x.endswith("\n") else x + "\n" for x in seq))
    return seq


def run_parse(lines, form="list"):
    pu = M("program_utils")
    try:
        with chatty_logging(len(lines)):
            prog = with_timeout(pu.read_program, shaped(lines, form))
        return [Sym("ok"), [[list(p.sources), p.destination, p.name, int(p.line)] for p in prog]]
    except pu.CodeError as e:
        return [Sym("err"), [Sym("CodeError"), int(e.line), e.instr, str(e)]]
    except CaseTimeout:
        return [Sym("err"), [Sym("Timeout")]]
    except Exception as e:  # noqa: BLE001
        return [Sym("err"), [Sym(type(e).__name__), str(e)]]


_KEEP = []


class Folded(str):
    """a str subclass that compares and hashes ignoring case (the FoldedCase recipe): a legal `str` wherever the
    API takes names; code that hands back ITS ARGUMENT instead of the registered spelling shows through it"""

    def __eq__(self, other):
        return isinstance(other, str) and str.lower(self) == str.lower(other)

    def __ne__(self, other):
        return not self.__eq__(other)

    def __hash__(self):
        return hash(str.lower(self))


def exact(x):
    """the exact characters of a str (or str subclass) result"""
    return "".join(str.__iter__(x)) if isinstance(x, str) else x


def run_isa(spec, caps, prog, form="list", twin=None):
    pu = M("processor_utils")
    su = M("str_utils")
    pd = M("program_defs")
    pgu = M("program_utils")
    pairs = [tuple(x) for x in spec]
    if (len(pairs) + len(caps)) % 4 == 1:          # capability values given as case-insensitive str objects
        pairs = [(m, Folded(c)) for m, c in pairs]
    if form == "items" and len({p[0] for p in pairs}) == len(pairs):
        table = dict(pairs).items()
    elif form == "zip":
        table = zip([p[0] for p in pairs], [p[1] for p in pairs])
    elif form in ("tuple", "generator"):
        table = shaped(pairs, form)
    else:
        table = pairs
    if twin is not None:
        # history: the same table loaded just before against a case-variant twin of the ability set, in the form
        # get_abilities returns (a frozenset); argument and result stay alive
        try:
            ab0 = frozenset(su.ICaseString(c) for c in twin)
            _KEEP.append((ab0, pu.load_isa(list(pairs), ab0)))
        except Exception as e:  # noqa: BLE001
            _KEEP.append((ab0, e))
        del _KEEP[:-40]
    try:
        ab = [su.ICaseString(c) for c in caps]
        ab = frozenset(ab) if form == "frozenset" else shaped(ab, "generator" if form == "generator" else "list")
        if form == "frozenset":
            _KEEP.append((ab, None))
        with chatty_logging(len(pairs) + len(caps)):
            isa = pu.load_isa(table, ab)
        r1 = [Sym("ok"), [[exact(k), exact(v)] for k, v in isa.items()]]
    except Exception as e:  # noqa: BLE001
        cls, f, msg = exc_info(e)
        fields = [f[k] for k in ("old_element", "new_element", "element") if k in f]
        return [[Sym("err"), [Sym(cls)] + fields, msg], Sym("none")]
    try:
        with chatty_logging(len(prog) + 1):
            hw = pgu.compile_program(shaped([pd.ProgInstruction(list(s), d, n, l) for s, d, n, l in prog],
                                            form if form in ("tuple", "generator") else "list"), isa)
        r2 = [Sym("ok"), enc_hwprog(hw)]
    except Exception as e:  # noqa: BLE001
        cls, f, msg = exc_info(e)
        r2 = [Sym("err"), [Sym(cls), f.get("element", "")], msg]
    return [r1, r2]


def run_abilities(proc):
    pu = M("processor_utils")
    return sorted(str(c) for c in pu.get_abilities(proc))


# ---------------------------------------------------------------- loader
def enc_load(desc):
    """implementation result of load_proc_desc as ['ok', proc] / ['err', [cls, fields...], msg]; plus
    whether the argument was mutated"""
    before = copy.deepcopy(desc)
    tag, r = load_desc(desc)
    mutated = desc != before
    if tag == "ok":
        return [Sym("ok"), enc_proc(r)], r, mutated
    cls, f, msg = r
    order = {"DupElemError": ("old_element", "new_element"), "BadWidthError": ("unit", "width"),
             "BadEdgeError": ("edge",), "UndefElemError": ("element",), "DeadInputError": ("port",),
             "PathLockError": ("start", "lock_type", "capability"), "BlockedCapError": ("capability", "port")}
    fields = [f[k] for k in order.get(cls, ()) if k in f]
    fields = [list(x) if isinstance(x, (list, tuple)) else x for x in fields]
    return [Sym("err"), [Sym(cls)] + fields, msg], None, mutated


def desc_to_sx(desc):
    us = [[u["name"], int(u["width"]), list(u["capabilities"]), bool(u.get("readLock", False)),
           bool(u.get("writeLock", False)), list(u.get("memoryAccess", []))] for u in desc["units"]]
    return [us, [list(e) for e in desc["dataPath"]]]


# ---------------------------------------------------------------- whole pipeline through the library
def run_library(desc, isa_pairs, lines):
    """read_processor-equivalent composition on in-memory data: returns dict with stage results"""
    pu = M("processor_utils")
    pgu = M("program_utils")
    ss = M("sim_services")
    out = {}
    try:
        proc = pu.load_proc_desc(copy.deepcopy(desc))
        isa = pu.load_isa([tuple(x) for x in isa_pairs], pu.get_abilities(proc))
        prog = pgu.read_program(list(lines))
        hw = pgu.compile_program(prog, isa)
    except Exception as e:  # noqa: BLE001
        cls, f, msg = exc_info(e)
        return {"err": [cls, jsonish(f), msg]}
    out["proc"] = enc_proc(proc)
    out["isa"] = [[k, v] for k, v in isa.items()]
    out["hw"] = enc_hwprog(hw)
    out["sim"] = run_sim_obj(proc, hw)
    return out


def jsonish(x):
    if isinstance(x, dict):
        return {k: jsonish(v) for k, v in x.items()}
    if isinstance(x, (list, tuple)):
        return [jsonish(v) for v in x]
    return x


# ---------------------------------------------------------------- flow analysis (private helpers of _checks)
def run_flow(units, edges, cap, outs, ins):
    """the bus-width analysis of processor_utils._checks._chk_cap_flow, step by step through its own helper
    functions, on a graph built like the loader's; returns the analysis graph after node splitting and
    capacity distribution, the sink, the flow verdict per input port and the verdict of _chk_cap_flow.
    The helpers are PRIVATE: when they are gone or take other arguments (a refactoring), the part that cannot
    be observed is returned as Sym("unavailable") instead of failing -- the public loader stream still
    decides the property."""
    import networkx
    STRUCT = (AttributeError, TypeError, KeyError, NameError, ImportError, IndexError)
    try:
        ck = M("processor_utils._checks")
        cau = M("processor_utils.cap_anal_utils")
        un = M("processor_utils.units")
        exc = M("processor_utils.exception")
    except STRUCT:
        return [Sym("unavailable")] * 5

    def build():
        g = networkx.DiGraph()
        for n, w, caps in units:
            g.add_node(n, **{un.UNIT_WIDTH_KEY: w, un.UNIT_CAPS_KEY: list(caps)})
        g.add_edges_from(edges)
        return g
    try:
        anal = ck._get_anal_graph(ck._make_cap_graph(build(), cap))
        amap = {attrs[ck._OLD_NODE_KEY]: unit for unit, attrs in anal.nodes.items()}
        unified = ck._aug_out_ports(anal, [amap[p] for p in outs])
        unified = cau.split_nodes(anal)[unified]
        ck._dist_edge_caps(anal)
        nodes = [[str(n), int(anal.nodes[n][un.UNIT_WIDTH_KEY]), [str(s) for s in anal.successors(n)]] for n in anal]
        caps = sorted([str(u), str(v), int(d["capacity"])] for u, v, d in anal.edges(data=True) if "capacity" in d)
        flows = []
        for p in ins:
            try:
                v = networkx.maximum_flow_value(anal, amap[p], unified)
                r = "positive" if v else "zero"
            except networkx.NetworkXUnbounded:
                r = "unbounded"
            except networkx.NetworkXError:
                r = "error"
            flows.append([p, Sym(r)])
        steps = [nodes, caps, str(unified), flows]
    except CaseTimeout:
        raise
    except Exception:  # noqa: BLE001  private helpers of another shape: this part is unobservable, not wrong
        steps = [Sym("unavailable")] * 4
    try:
        ck._chk_cap_flow(ck._get_anal_graph(ck._make_cap_graph(build(), cap)), exc.ComponentInfo(cap, "Capability " + cap),
                         list(ins), list(outs), lambda port: "port " + port)
        verdict = Sym("ok")
    except exc.BlockedCapError as e:
        verdict = [Sym("blocked"), e.capability, e.port]
    except STRUCT:
        verdict = Sym("unavailable")
    except Exception as e:  # noqa: BLE001
        verdict = [Sym("crash"), type(e).__name__]
    return steps + [verdict]
