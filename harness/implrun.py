"""Runs the implementation in /repo's working tree (with the fastcore-1.7 shim) and encodes
its inputs/outputs canonically.  Imported only inside worker processes."""
import copy
import io
import logging
import os
import signal
import sys

HERE = os.path.dirname(os.path.abspath(__file__))
REPO = os.environ.get("REPO", "/repo")
sys.path.insert(0, os.path.join(HERE, "compat"))
import fastcore_self  # noqa: E402,F401  (must precede any /repo import)

sys.path.insert(0, os.path.join(REPO, "src"))
logging.disable(logging.CRITICAL)

from sx import Sym  # noqa: E402

SHIM_ACTIVE = fastcore_self.ACTIVE
CASE_TIMEOUT = float(os.environ.get("VERIF_CASE_TIMEOUT", "10"))


class CaseTimeout(Exception):
    pass


def _alarm(signum, frame):
    raise CaseTimeout()


signal.signal(signal.SIGALRM, _alarm)


def with_timeout(fn, *a):
    signal.setitimer(signal.ITIMER_REAL, CASE_TIMEOUT)
    try:
        return fn(*a)
    finally:
        signal.setitimer(signal.ITIMER_REAL, 0)


# ---------------------------------------------------------------- lazy imports of /repo
_mods = {}


def M(name):
    if name not in _mods:
        import importlib
        _mods[name] = importlib.import_module(name)
    return _mods[name]


# ---------------------------------------------------------------- encoders
def enc_unit(m):
    return [m.name, int(m.width), list(m.capabilities), bool(m.lock_info.rd_lock),
            bool(m.lock_info.wr_lock), list(m._mem_acl)]


def enc_funit(f):
    return [enc_unit(f.model), [p.name for p in f.predecessors]]


def enc_proc(p):
    return [[enc_unit(m) for m in p.in_ports], [enc_funit(f) for f in p.out_ports],
            [enc_unit(m) for m in p.in_out_ports], [enc_funit(f) for f in p.internal_units]]


def enc_hwprog(prog):
    return [[list(i.sources), i.destination, i.categ] for i in prog]


def canon_record(bag):
    return sorted([k, sorted([int(e.instr), Sym(str(e.stalled))] for e in v)]
                  for k, v in bag.items())


def canon_diag(tbl):
    return [canon_record(r) for r in tbl]


def exc_info(e):
    """(class name, public attrs, message) of an exception"""
    fields = {}
    for k in ("old_element", "new_element", "unit", "width", "edge", "element", "port",
              "start", "lock_type", "capability", "instr", "line"):
        if hasattr(e, k):
            fields[k] = getattr(e, k)
    return type(e).__name__, fields, str(e)


# ---------------------------------------------------------------- building objects
def mk_unit(u):
    units = M("processor_utils.units")
    name, width, caps, rl, wl, mem = u
    return units.UnitModel(name, width, list(caps), units.LockInfo(rl, wl), list(mem))


def mk_proc_from_parts(parts):
    """parts = dict(ins=[U], outs=[(U,[pred names])], inouts=[U], ints=[(U,[pred names])]) in the
    given (arbitrary) order; builds a ProcessorDesc through the public constructors."""
    pu = M("processor_utils")
    units = M("processor_utils.units")
    models = {}
    for u in parts["ins"] + parts["inouts"] + [f[0] for f in parts["outs"]] + [f[0] for f in parts["ints"]]:
        models[u[0]] = mk_unit(u)
    fu = lambda f: units.FuncUnit(models[f[0][0]], [models[p] for p in f[1]])
    return pu.ProcessorDesc([models[u[0]] for u in parts["ins"]], [fu(f) for f in parts["outs"]],
                            [models[u[0]] for u in parts["inouts"]], [fu(f) for f in parts["ints"]])


def mk_hwprog(prog):
    pd = M("program_defs")
    return [pd.HwInstruction(list(s), d, c) for s, d, c in prog]


# ---------------------------------------------------------------- components
def run_sim_obj(proc, hwprog):
    """returns (tag, payload): Done/Stalled + canonical diagram, or Crash/Timeout"""
    ss = M("sim_services")
    try:
        res = with_timeout(lambda: ss.simulate(hwprog, ss.HwSpec(proc)))
        return [Sym("Done"), canon_diag(res)]
    except ss.StallError as e:
        return [Sym("Stalled"), canon_diag(e.processor_state)]
    except CaseTimeout:
        return [Sym("Timeout")]
    except Exception as e:  # noqa: BLE001
        return [Sym("Crash"), Sym(type(e).__name__)]


def load_desc(desc):
    """returns ('ok', ProcessorDesc) or ('err', (cls, fields, msg))"""
    pu = M("processor_utils")
    try:
        return "ok", with_timeout(pu.load_proc_desc, desc)
    except CaseTimeout:
        return "err", ("Timeout", {}, "")
    except Exception as e:  # noqa: BLE001
        return "err", exc_info(e)
