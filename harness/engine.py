"""Generic plumbing: deterministic case generation in worker processes, implementation run,
extracted-model run (ocaml/driver.exe), comparison, statistics."""
import collections
import hashlib
import json
import multiprocessing
import os
import random
import subprocess
import tempfile
import time

import gen
import sx

HERE = os.path.dirname(os.path.abspath(__file__))
VERIF = os.path.dirname(HERE)
DRIVER = os.path.join(VERIF, "ocaml", "driver.exe")
WORK = os.path.join(VERIF, ".work")
NPROC = int(os.environ.get("VERIF_NPROC", "16"))


def case_rng(seed, comp, idx):
    h = hashlib.sha256(f"{seed}:{comp}:{idx}".encode()).digest()
    return random.Random(int.from_bytes(h[:8], "big"))


def run_driver(lines):
    """lines: list of s-expression strings; returns dict id -> parsed result list"""
    os.makedirs(WORK, exist_ok=True)
    fd, path = tempfile.mkstemp(prefix="cases-", suffix=".sx", dir=WORK)
    try:
        with os.fdopen(fd, "w") as f:
            f.write("\n".join(lines))
            f.write("\n")
        p = subprocess.run(["/bin/sh", "-c", f"ulimit -s unlimited 2>/dev/null; exec {DRIVER} {path}"],
                           capture_output=True, text=True, timeout=3600)
        if p.returncode != 0:
            raise RuntimeError(f"driver failed rc={p.returncode}: {p.stderr[:500]}")
        out = {}
        for ln in p.stdout.splitlines():
            if not ln.strip():
                continue
            r = sx.parse(ln)
            out[str(r[0])] = {str(e[0]): e[1:] for e in r[1:]}
        return out
    finally:
        try:
            os.unlink(path)
        except OSError:
            pass


def plain(x):
    """implementation results as plain data: a str subclass other than sx.Sym (an implementation may hand back the
    caller's own str-like objects) becomes its exact characters, so that results pickle without importing anything
    and compare by characters, not by the subclass's __eq__"""
    if isinstance(x, str):
        return x if type(x) in (str, sx.Sym) else "".join(str.__iter__(x))
    if isinstance(x, list):
        return [plain(y) for y in x]
    if isinstance(x, tuple):
        return tuple(plain(y) for y in x)
    if isinstance(x, dict):
        return {plain(k): plain(v) for k, v in x.items()}
    return x


def _worker(job):
    """job = (comp_name, seed, idx_list, params, explicit_cases)"""
    import components  # imports implrun lazily (after fork)
    comp_name, seed, idxs, params, explicit = job
    comp = components.COMPONENTS[comp_name]
    cases = []
    if explicit is not None:
        for i, c in zip(idxs, explicit):
            cases.append((i, c))
    else:
        for i in idxs:
            rng = case_rng(seed, comp_name, i)
            c = comp.make(rng, params)
            if c is not None and comp.name in gen.LATIN1_COMPONENTS and rng.random() < 0.2:
                c = gen.latin1ify(rng, c)
            if c is not None:
                cases.append((i, c))
    lines = []
    runs = []
    for i, c in cases:
        try:
            args, impl = comp.run(c)
            args, impl = plain(args), plain(impl)
        except Exception as e:  # noqa: BLE001  harness trouble is reported, never hidden
            import traceback
            runs.append((i, c, None, "harness-error: " + traceback.format_exc()[-800:], 0))
            continue
        multi = args["multi"] if isinstance(args, dict) else [args]
        for k, a in enumerate(multi):
            drv = getattr(comp, "driver", comp_name)
            if isinstance(a, dict):
                drv, a = a["driver"], a["args"]
            lines.append("(" + drv + f" c{i}_{k} " + " ".join(sx.enc(x) for x in a) + ")")
        runs.append((i, c, impl, None, len(multi)))
    results = run_driver(lines) if lines else {}
    out = []
    for i, c, impl, err, nres in runs:
        if err is not None:
            out.append({"idx": i, "case": c, "error": err})
            continue
        rl = [results.get(f"c{i}_{k}") for k in range(nres)]
        if any(r is None for r in rl):
            out.append({"idx": i, "case": c, "error": "no driver result"})
            continue
        bad = [r for r in rl if "error" in r]
        if bad:
            out.append({"idx": i, "case": c, "error": "driver: " + str(bad[0]["error"])})
            continue
        rep = comp.judge(c, impl, rl[0] if nres == 1 else rl)
        rep["idx"] = i
        rep.setdefault("case", c)
        out.append(rep)
    return out


def run_cases(comp_name, seed, n, params, explicit=None, chunk=None, inproc=False, start=0):
    """runs n generated cases (or the explicit list) over NPROC workers; returns list of reports"""
    if explicit is not None:
        n = len(explicit)
    if n == 0:
        return []
    if inproc and explicit is not None:          # (shrinking: many tiny runs; no pool start-up each time)
        return _worker((comp_name, seed, list(range(n)), params, explicit))
    chunk = chunk or max(1, min(250, (n + NPROC - 1) // NPROC))
    jobs = []
    for st in range(0, n, chunk):
        idxs = list(range(start + st, start + min(n, st + chunk)))
        ex = [explicit[i] for i in idxs] if explicit is not None else None
        jobs.append((comp_name, seed, idxs, params, ex))
    ctx = multiprocessing.get_context("fork")
    try:
        with ctx.Pool(min(NPROC, len(jobs))) as pool:
            # (a worker killed from outside would make a plain map() wait for ever)
            res = pool.map_async(_worker, jobs).get(timeout=int(os.environ.get("VERIF_POOL_TIMEOUT", "5400")))
    except Exception as e:  # noqa: BLE001  pool trouble (timeout, a worker that raised): run the jobs here, one by one
        res = []
        for job in jobs:
            try:
                res.append(_worker(job))
            except Exception as e2:  # noqa: BLE001
                import traceback
                res.append([{"idx": i, "case": None, "error": "harness-error: " + traceback.format_exc()[-600:]}
                            for i in job[2][:1]])
    return [r for part in res for r in part]


class Stats:
    def __init__(self):
        self.counters = collections.Counter()
        self.distinct = set()
        self.samples = []

    def add(self, rep):
        self.counters["evaluations"] += 1
        for k in rep.get("tags", []):
            self.counters["tag:" + k] += 1
        if rep.get("nontrivial"):
            self.distinct.add(rep.get("digest"))
        if len(self.samples) < 3 and rep.get("sample") is not None and rep.get("nontrivial"):
            self.samples.append(rep["sample"])


def digest(obj):
    return hashlib.sha1(json.dumps(obj, sort_keys=True, default=str).encode()).hexdigest()[:16]
