"""Input generators.  Every random choice comes from the `random.Random` passed in."""

CAPS = ["ALU", "MEM", "FPU", "BR", "simd", "Io"]
NAME_POOLS = [
    ["u0", "u1", "u2", "u3", "u4", "u5", "u6", "u7", "u8", "u9"],
    ["B", "a", "C", "d", "E", "f", "G", "h", "I", "j"],
    ["in 1", "Core", "alu", "MemUnit", "out", "fetch", "Decode", "wb", "X", "y"],
    # names that are special to string.Template, str.format, %-formatting, csv or YAML
    ["a$b", "$in", "x{0}", "100%s", "q'r", "semi;colon", "#1", "u$$", "${p}", "back\\slash"],
    # names that look like the placeholders of the project's own message templates
    ["$width", "$new_elem", "$start", "$line", "$port", "$$", "$capability", "$unit", "$elem", "$lock_type"],
    # Latin-1 names: letters with case partners above U+00BF, letters without one (sharp s, micro sign,
    # y-diaeresis), non-letters, and the two Latin-1 white-space characters (NEL, no-break space)
    # names with line terminators and other separators inside (a YAML block scalar yields "name\n"): whatever
    # str.splitlines / str.split / str.strip treat specially
    ["line\nbreak", "nel\x85x", "ff\x0cx", "cr\rx", "vt\x0bx", "fs\x1cx", "tab\tx", "trail\n", " lead", ""],
    # numbered names: natural-sort traps (digit runs of different length, leading zeros, '-' below '0')
    ["ALU2", "ALU10", "u9", "u10", "a01", "a1", "MEM1", "MEM-1", "x100", "x20"],
    ["\u00c9cole", "\u00f1and\u00fa", "Stra\u00dfe", "\u00b5op", "\u00dcnit", "\u00c6sir", "\u00feorn", "\u00ff",
     "STRASSE", "x\u00f7y\u00a0z"],
]


def up1(c):
    """upper-case form of one character when it is again one Latin-1 character naming the same letter
    (str.upper sends sharp s to 'SS' and the micro sign / y-diaeresis out of Latin-1: those stay as they are)"""
    u = c.upper()
    return u if len(u) == 1 and ord(u) < 256 and u.lower() == c.lower() else c


def recase(rng, s, p=0.5):
    """random letter-case variant of s"""
    if rng.random() >= p:
        return s
    return "".join(up1(c) if rng.random() < 0.5 else c.lower() for c in s)


# letter pairs of Latin-1 used to re-letter a whole case consistently (commutes with str.lower/str.upper)
_L1_TARGETS = [chr(c) for c in range(0xC0, 0xDF) if c != 0xD7]
_L1_KEYS = ("desc", "desc2", "isa", "isa2", "spec", "caps", "lines", "lines2", "instrs", "prog", "parts")


def latin1ify(rng, case):
    """the same case with some ASCII letters replaced, consistently and case-pair by case-pair, by Latin-1
    letters (A/a -> e.g. U+00C9/U+00E9).  Only the text fields of a case are touched."""
    letters = rng.sample("ABCDEFGHIJKLMNOPQRSTUVWXYZ", rng.randint(1, 6))
    targets = rng.sample(_L1_TARGETS, len(letters))
    tbl = {}
    for a, t in zip(letters, targets):
        tbl[ord(a)] = t
        tbl[ord(a.lower())] = t.lower()

    def tr(x):
        if isinstance(x, str):
            return x.translate(tbl)
        if isinstance(x, list):
            return [tr(y) for y in x]
        if isinstance(x, tuple):
            return tuple(tr(y) for y in x)
        if isinstance(x, dict):
            return {k: tr(v) for k, v in x.items()}
        return x
    return {k: (tr(v) if k in _L1_KEYS else v) for k, v in case.items()}


def near_miss_names(rng, d):
    """renames two unit names or two capabilities of a description to texts that str.lower keeps apart but a
    broader notion of caseless matching (casefold, NFKC, trimming) would merge: sharp s / "ss", with and
    without a trailing no-break space"""
    pairs = [("Ma\u00df", "MASS"), ("stra\u00dfe", "Strasse"), ("Gro\u00df", "gross"), ("io\u00a0", "IO")]
    new = rng.choice(pairs)
    if rng.random() < 0.5:
        olds = [u["name"].lower() for u in d["units"]]
    else:
        olds = sorted({c.lower() for u in d["units"] for c in u["capabilities"]})
    if len(olds) < 2:
        return d
    olds = rng.sample(olds, 2)
    ren = dict(zip(olds, new))

    def r(s):
        return recase(rng, ren[s.lower()], 0.3) if isinstance(s, str) and s.lower() in ren else s
    for u in d["units"]:
        u["name"] = r(u["name"])
        u["capabilities"] = [r(c) for c in u["capabilities"]]
        if "memoryAccess" in u:
            u["memoryAccess"] = [r(c) for c in u["memoryAccess"]]
    d["dataPath"] = [[r(x) for x in e] for e in d["dataPath"]]
    return d


LATIN1_COMPONENTS = {"loader", "isa", "parse", "abilities", "mkproc", "pipeline", "recase", "hwload"}


def big(rng, hi, big_hi, p=0.03, lo=0):
    """a size: usually uniform in lo..hi; with probability p log-uniform in hi+1..big_hi (size stress: long
    operand lists, long programs, large processors, long strings)"""
    if big_hi > hi and rng.random() < p:
        import math
        return min(big_hi, int(math.exp(rng.uniform(math.log(hi + 1), math.log(big_hi + 1)))))
    return rng.randint(lo, hi)


def rand_dag(rng, n, pedge=0.35, shape=None):
    """edges over range(n) respecting a random topological order"""
    order = list(range(n))
    rng.shuffle(order)
    shape = shape or rng.choice(["random", "random", "chain", "layers", "fork", "sparse", "join"])
    es = []
    if shape == "chain":
        es = [(order[i], order[i + 1]) for i in range(n - 1)]
        for i in range(n):
            for j in range(i + 2, n):
                if rng.random() < 0.1:
                    es.append((order[i], order[j]))
    elif shape == "layers":
        nl = rng.randint(2, 4)
        layer = [sorted(rng.sample(range(n), n))[i::nl] for i in range(nl)]
        layer = [l for l in layer if l]
        for a, b in zip(layer, layer[1:]):
            for x in a:
                for y in b:
                    if rng.random() < 0.6:
                        es.append((x, y))
    elif shape == "join" and n >= 4:
        # routes of unequal length from the inputs into one join unit, which feeds a last unit
        j, last = order[-2], order[-1]
        es.append((j, last))
        rest = order[:-2]
        k = rng.randint(1, len(rest) - 1) if len(rest) > 1 else 1
        long_route, short = rest[:k], rest[k:]
        for a, b in zip(long_route, long_route[1:]):
            es.append((a, b))
        es.append((long_route[-1], j))
        for x in short:
            es.append((x, j) if rng.random() < 0.7 else (x, rng.choice(long_route)))
    elif shape == "fork":
        for i in range(1, n):
            es.append((order[rng.randrange(i)], order[i]))
    else:
        p = pedge if shape == "random" else 0.15
        for i in range(n):
            for j in range(i + 1, n):
                if rng.random() < p:
                    es.append((order[i], order[j]))
    rng.shuffle(es)
    return es


def rand_desc(rng, nmax=6, ncap_max=3, wmax=3, case_noise=True, mem_p=0.3, nbig=16):
    n = big(rng, nmax, max(nmax, nbig), 0.02, lo=1)
    if n > 10:
        names = [rng.choice("uUxY") + str(i) for i in range(n)]
        rng.shuffle(names)
    else:
        names = rng.sample(rng.choice(NAME_POOLS), n)
    if rng.random() < 0.02:
        wmax = max(wmax, 9)
    caps = CAPS[: big(rng, ncap_max, len(CAPS), 0.04, lo=1)]
    us = []
    for nm in names:
        c = [x for x in caps if rng.random() < 0.75] or [rng.choice(caps)]
        rng.shuffle(c)
        mem = [x for x in c if rng.random() < mem_p]
        u = {"name": nm, "width": rng.randint(1, wmax), "capabilities": c}
        if rng.random() < 0.8:
            u["readLock"] = rng.random() < 0.4
        if rng.random() < 0.8:
            u["writeLock"] = rng.random() < 0.4
        if mem or rng.random() < 0.5:
            u["memoryAccess"] = mem
        us.append(u)
    es = [[names[a], names[b]] for a, b in rand_dag(rng, n)]
    d = {"units": us, "dataPath": es}
    return d


def shuffle_keys(rng, d):
    """the same description with the keys of every unit dict in a random order (dict order is not part of
    a description)"""
    for i, u in enumerate(d["units"]):
        ks = list(u)
        rng.shuffle(ks)
        d["units"][i] = {k: u[k] for k in ks}
    return d


def add_case_noise(rng, d):
    """re-case non-defining occurrences: edge ends, repeated capabilities, memory lists"""
    seen = set()
    for u in d["units"]:
        newc = []
        for c in u["capabilities"]:
            if c.lower() in seen:
                newc.append(recase(rng, c))
            else:
                seen.add(c.lower())
                newc.append(c)
        u["capabilities"] = newc
    for u in d["units"]:
        if "memoryAccess" in u:
            u["memoryAccess"] = [recase(rng, c) for c in u["memoryAccess"]]
    d["dataPath"] = [[recase(rng, x) for x in e] for e in d["dataPath"]]
    return d


def smart_locks(rng, desc):
    """constructive 'one lock per route' labelling so that most descriptions are accepted"""
    names = [u["name"] for u in desc["units"]]
    low = {n.lower(): n for n in names}
    succ = {n: [] for n in names}
    haspred = set()
    for e in desc["dataPath"]:
        if len(e) == 2 and e[0].lower() in low and e[1].lower() in low:
            a, b = low[e[0].lower()], low[e[1].lower()]
            if b not in succ[a]:
                succ[a].append(b)
            haspred.add(b)
    byname = {u["name"]: u for u in desc["units"]}
    order = []
    seen = set()

    def dfs(n):
        if n in seen:
            return
        seen.add(n)
        for s in succ[n]:
            dfs(s)
        order.append(n)

    for n in names:
        dfs(n)

    def place(key, bias):
        L = {}
        for n in order:
            ls = {L[s] for s in succ[n]}
            if len(ls) > 1:
                return False
            base = ls.pop() if ls else 0
            if base == 0:
                lock = (rng.random() < bias) or n not in haspred
            else:
                lock = False
            byname[n][key] = lock
            L[n] = base + (1 if lock else 0)
        return True

    for _ in range(20):
        if place("writeLock", rng.choice([0.3, 0.6, 0.9])) and place("readLock", rng.choice([0.1, 0.3, 0.6])):
            return desc
    return desc


def simple_locks(rng, desc):
    tgt = {e[1].lower() for e in desc["dataPath"] if len(e) == 2}
    src = {e[0].lower() for e in desc["dataPath"] if len(e) == 2}
    style = rng.random()
    for u in desc["units"]:
        isin = u["name"].lower() not in tgt
        isout = u["name"].lower() not in src
        if style < 0.5:
            u["readLock"] = isin
            u["writeLock"] = isin
        else:
            u["readLock"] = isin
            u["writeLock"] = isout
    return desc


def dup_noise(rng, d):
    """legal redundancy: a capability listed twice in a unit, a connection listed twice (any letter case),
    a memory-access entry listed twice or naming a capability declared only by other units"""
    allcaps = [c for u in d["units"] for c in u["capabilities"]]
    if d["units"] and allcaps and rng.random() < 0.15:
        u = rng.choice(d["units"])
        m = u.setdefault("memoryAccess", [])
        m.insert(rng.randrange(len(m) + 1), recase(rng, rng.choice(m) if m and rng.random() < 0.5 else rng.choice(allcaps), 0.3))
    if d["units"] and rng.random() < 0.2:
        u = rng.choice(d["units"])
        if u["capabilities"]:
            u["capabilities"].insert(rng.randrange(len(u["capabilities"]) + 1),
                                     recase(rng, rng.choice(u["capabilities"]), 0.5))
    if d["dataPath"] and rng.random() < 0.2:
        e = rng.choice(d["dataPath"])
        d["dataPath"].insert(rng.randrange(len(d["dataPath"]) + 1), [recase(rng, x, 0.5) for x in e])
    return d


def long_chain(rng, n=None):
    """a very deep pipeline: n units in a row (recursion depth / quadratic passes show only here), optionally
    with a dead-end spur or a defect far down the chain"""
    n = n or rng.choice([60, 90, 130, 180])
    cap = rng.choice(CAPS)
    units = [{"name": f"s{i}", "width": 1 + (i % 3 == 0), "capabilities": [cap] + (["X9"] if i % 7 == 3 else []),
              "readLock": i == 0, "writeLock": i == 1 % n} for i in range(n)]
    dp = [[f"s{i}", f"s{i + 1}"] for i in range(n - 1)]
    r = rng.random()
    if r < 0.25:
        units.append({"name": "spur", "width": 1, "capabilities": ["Q7"], "readLock": False, "writeLock": False})
        dp.append([f"s{n // 2}", "spur"])
    elif r < 0.4:
        dp.append([f"s{n - 1}", f"s{n // 3}"])                       # a long cycle
    elif r < 0.5:
        units[n - 2]["width"] = 0
    return {"units": units, "dataPath": dp}


def plain_deep_chain(n, cap="ALU"):
    """n units in a row, nothing to prune, locks in the first unit: the loaded processor is known in closed form
    (used beyond the sizes the extracted model handles in reasonable time)"""
    return {"units": [{"name": f"d{i}", "width": 1, "capabilities": [cap], "readLock": i == 0, "writeLock": i == 0}
                      for i in range(n)],
            "dataPath": [[f"d{i}", f"d{i + 1}"] for i in range(n - 1)]}


def deep_dead_chain(n, cap="ALU"):
    """in -> good, and next to it in -> c1 -> ... -> cn -> x where x shares no capability: x is dropped and the
    chain is a dead end that has to be trimmed unit by unit; the loaded processor is in -> good"""
    u = lambda name, c, lock=False: {"name": name, "width": 1, "capabilities": [c], "readLock": lock, "writeLock": lock}
    units = [u("in", cap, True), u("good", cap)] + [u(f"c{i}", cap) for i in range(1, n + 1)] + [u("x", "ZZ")]
    dp = [["in", "good"], ["in", "c1"]] + [[f"c{i}", f"c{i + 1}"] for i in range(1, n)] + [[f"c{n}", "x"]]
    return {"units": units, "dataPath": dp}


def valid_desc(rng, nmax=6, **kw):
    """a description that the loader accepts with good probability"""
    d = dup_noise(rng, rand_desc(rng, nmax, **kw))
    r = rng.random()
    if r < 0.6:
        d = smart_locks(rng, d)
    elif r < 0.9:
        d = simple_locks(rng, d)
    if rng.random() < 0.5:
        d = add_case_noise(rng, d)
    return d


def rand_prog(rng, caps, nmax=8, nreg=None, bad=0.0, selfdep=0.3, nbig=40, nhuge=0):
    """list of (sources tuple sorted unique, destination, capability)"""
    n = big(rng, nmax, max(nmax, nbig), 0.02)
    if nhuge and rng.random() < 0.0004:
        n = rng.randint(258, nhuge)              # instruction indices beyond CPython's small-int cache
    nreg = nreg or rng.randint(2, 5)
    regs = [f"R{i}" for i in range(nreg)]
    prog = []
    for _ in range(n):
        k = rng.randint(0, 3)
        srcs = sorted(set(rng.choice(regs) for _ in range(k)))
        if srcs and rng.random() < selfdep:
            dst = rng.choice(srcs)
        else:
            dst = rng.choice(regs)
        cat = rng.choice(caps) if (caps and rng.random() >= bad) else "XXX"
        if srcs and rng.random() < 0.15:           # as written: unsorted, with a repeated source
            srcs = srcs + [rng.choice(srcs)]
            rng.shuffle(srcs)
        prog.append((tuple(srcs), dst, cat))
    return prog


# ----------------------------------------------------------------------------- malformed descriptions
def graft_dead_branch(rng, d, depth=None):
    """attach u -> x1 -> ... -> xk where xk shares no capability with x(k-1): xk is emptied, the chain
    becomes a dead end of depth k-1 that must be pruned back to u"""
    if not d["units"]:
        return d
    depth = depth or rng.randint(1, 3)
    u = rng.choice(d["units"])
    caps = list(u["capabilities"]) or ["ALU"]
    prev = u["name"]
    used = {x["name"].lower() for x in d["units"]}
    for k in range(depth):
        nm = f"dead{k}"
        while nm.lower() in used:
            nm += "x"
        used.add(nm.lower())
        last = k == depth - 1
        d["units"].append({"name": nm, "width": rng.randint(1, 2),
                           "capabilities": ["ZZZ"] if last else list(caps),
                           "readLock": False, "writeLock": False})
        d["dataPath"].append([prev, nm])
        prev = nm
    return d


def inject_defect(rng, d, kind=None):
    """one syntactic or structural defect; returns (desc, kind)"""
    us, es = d["units"], d["dataPath"]
    kinds = ["dupname", "badwidth", "badedge", "undef", "cycle", "deadbranch", "nocaps", "deadinput",
             "blocked", "locks", "aclundef", "emptyname", "selfloop", "strayport"]
    kind = kind or rng.choice(kinds)
    if kind == "dupname" and us:
        v = dict(rng.choice(us))
        v["name"] = recase(rng, v["name"], 0.7)
        us.insert(rng.randrange(len(us) + 1), v)
    elif kind == "badwidth" and us:
        rng.choice(us)["width"] = rng.choice([0, -1, -3])
    elif kind == "badedge":
        names = [u["name"] for u in us] or ["x"]
        es.insert(rng.randrange(len(es) + 1), rng.choice([[], [rng.choice(names)], [rng.choice(names)] * 3]))
    elif kind == "undef":
        names = [u["name"] for u in us] or ["x"]
        e = [rng.choice(names), "nowhere"]
        rng.shuffle(e)
        es.insert(rng.randrange(len(es) + 1), e)
    elif kind == "cycle" and es:
        e = rng.choice([x for x in es if len(x) == 2] or [["a", "b"]])
        es.append([e[1], e[0]])
    elif kind == "selfloop" and us:
        n = rng.choice(us)["name"]
        es.append([n, n])
    elif kind == "deadbranch":
        graft_dead_branch(rng, d)
    elif kind == "nocaps" and us:
        rng.choice(us)["capabilities"] = []
    elif kind == "deadinput" and us:
        # a new input port whose only successor shares nothing with it
        nm = "lonelyIn"
        us.append({"name": nm, "width": 1, "capabilities": ["QQQ"], "readLock": True, "writeLock": True})
        es.append([nm, rng.choice(us[:-1])["name"]])
    elif kind == "blocked" and us:
        # an input capability that no successor supports
        srcs = {e[0].lower() for e in es if len(e) == 2}
        tg = {e[1].lower() for e in es if len(e) == 2}
        ins = [u for u in us if u["name"].lower() not in tg and u["name"].lower() in srcs]
        if ins:
            rng.choice(ins)["capabilities"].append("ONLYHERE")
    elif kind == "strayport" and us:
        # a further input port offering an existing capability B together with a new one C, whose only
        # successor supports C alone: B cannot leave the port (blocked), while C's route is fine
        b = rng.choice([c for u in us for c in u["capabilities"]] or ["ALU"])
        us.append({"name": "strayIn", "width": 1, "capabilities": [b, "STRAYC"] if rng.random() < 0.5 else ["STRAYC", b],
                   "readLock": True, "writeLock": True})
        us.append({"name": "strayOut", "width": 1, "capabilities": ["STRAYC"], "readLock": False, "writeLock": False})
        es.append(["strayIn", "strayOut"])
        if rng.random() < 0.5:            # declared first, so that its capabilities are enumerated first
            us.insert(0, us.pop(-2))
    elif kind == "locks" and us:
        u = rng.choice(us)
        k = rng.choice(["readLock", "writeLock"])
        u[k] = not u.get(k, False)
    elif kind == "aclundef" and us:
        rng.choice(us).setdefault("memoryAccess", []).append("NOSUCHCAP")
    elif kind == "emptyname" and us:
        us[0]["name"] = ""
    return d, kind


# ----------------------------------------------------------------------------- program text / ISA tables
WS = [" ", "\t", "  ", " \t ", "\x0b", "\x0c", "\x1c", "\x1f", "\x85", "\xa0"]
IDCH = "ABCDEFGHIJKLMNOPQRSTUVWXYZabcdefghijklmnopqrstuvwxyz0123456789_"
# tokens (no blank, no comma) that are special to string.Template, str.format, %-formatting or look like the
# placeholders of the project's own message templates: usable as mnemonics and as register names
SPECIAL_TOKENS = ["MOV$", "$t", "J${x}", "st$$", "a%s", "x{0}", "${elem}", "$line", "$instr", "{instr}", "q'r", "#1"]


def ident(rng, pool=None, maxlen=4):
    if rng.random() < 0.04:
        return rng.choice(SPECIAL_TOKENS)
    if pool and rng.random() < 0.8:
        return rng.choice(pool)
    return "".join(rng.choice(IDCH) for _ in range(rng.randint(1, maxlen)))


def ws(rng, lo=0):
    if lo == 0 and rng.random() < 0.5:
        return ""
    return "".join(rng.choice(WS[:4] if rng.random() < 0.9 else WS) for _ in range(rng.randint(max(1, lo), 2)))


def rand_instr_list(rng, n=None, mnems=None, regs=None):
    n = rng.randint(0, 8) if n is None else n
    regs = regs or [f"R{i}" for i in range(rng.randint(2, 5))] + ["r1", "Acc"]
    mnems = mnems or ["ADD", "SUB", "LW", "mul", "Beq"]
    out = []
    for _ in range(n):
        k = big(rng, 5, 1200, 0.03, lo=1)
        ops = [recase(rng, ident(rng, regs), 0.3) for _ in range(k)]
        out.append([recase(rng, ident(rng, mnems), 0.3), ops])
    return out


def render_program(rng, instrs, corrupt=None):
    """lines (with line terminators, as file iteration yields them) for an instruction list; optional
    single-fault corruption: ('noops', i) / ('empty', i, k)"""
    lines = []
    for idx, (m, ops) in enumerate(instrs):
        while rng.random() < 0.25:
            lines.append(ws(rng) + "\n")
        ops = list(ops)
        if corrupt and corrupt[1] == idx:
            if corrupt[0] == "noops":
                lines.append(ws(rng) + m + ws(rng) + "\n")
                continue
            ops[min(corrupt[2], len(ops) - 1)] = ""
            if len(ops) == 1:
                ops = ["", "R1"] if corrupt[2] == 0 else ["R1", ""]
        body = (ws(rng) + "," + ws(rng)).join(ops)
        lines.append(ws(rng) + m + ws(rng, 1) + body + ws(rng) + ("\n" if rng.random() < 0.9 else ""))
    while rng.random() < 0.2:
        lines.append(ws(rng) + "\n")
    return lines


def rand_isa(rng, caps, n=None, defect=0.15):
    n = big(rng, 8, 60, 0.03) if n is None else n
    mn = ["ADD", "SUB", "LW", "SW", "MUL", "DIV", "BEQ", "NOP", "and", "Or"]
    if rng.random() < 0.15:
        mn[:3] = rng.sample(SPECIAL_TOKENS, 3)
    rng.shuffle(mn)
    mn += [f"OP{i}" for i in range(max(0, n - len(mn)))]
    spec = []
    for m in mn[:n]:
        c = rng.choice(caps) if caps else "ALU"
        spec.append([recase(rng, m, 0.4), recase(rng, c, 0.5)])
    r = rng.random()
    if spec and r < defect:
        m = rng.choice(spec)
        spec.insert(rng.randrange(len(spec) + 1), [recase(rng, m[0], 0.8), m[1]])
    elif spec and r < 2 * defect:
        rng.choice(spec)[1] = "NOCAP"
    return spec
