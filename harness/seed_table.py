#!/usr/bin/env python3
"""Rewrites the seeded-changes table of DESIGN.md from seeded/*/meta.json."""
import glob, json, os, re
V = "/verif"
rows = []
for m in sorted(glob.glob(V + "/seeded/*/meta.json")):
    d = json.load(open(m))
    if d.get("kind") == "harmless refactoring":
        continue
    det = []
    for p, v in sorted(d.get("checks", {}).items()):
        if v.get("violation"):
            det.append(p + (" (corr.)" if v.get("no_failing_input") else " (direct)"))
    first = (d.get("needs") or "").strip().split("\n")
    summary = d.get("summary") or ""
    rows.append(f"| `{d['name']}` | {d['property']} | {'yes' if d.get('confirmed') else 'NO'} | "
                f"{', '.join(det) or '**none**'} | {summary} |")
tbl = "| seeded change | breaks | confirmed | caught by (quick tier) | what it needs to manifest |\n|---|---|---|---|---|\n" + "\n".join(rows)
hrows = []
for m in sorted(glob.glob(V + "/seeded/harmless-*/meta.json")):
    d = json.load(open(m))
    hrows.append(f"| `harmless-{d['name']}` | {d.get('area', '')} | {d.get('lines_changed', '?')} | "
                 f"{', '.join(d['alarms']) or 'none'} |")
htbl = "| behaviour-preserving refactoring | area | changed lines | alarms (all 20 quick checks) |\n|---|---|---|---|\n" + "\n".join(hrows)
p = V + "/DESIGN.md"
s = open(p).read()
s = re.sub(r"<!-- SEEDED_TABLE_BEGIN -->.*<!-- SEEDED_TABLE_END -->",
           "<!-- SEEDED_TABLE_BEGIN -->\n" + tbl + "\n<!-- SEEDED_TABLE_END -->", s, flags=re.S)
s = re.sub(r"<!-- HARMLESS_TABLE_BEGIN -->.*<!-- HARMLESS_TABLE_END -->",
           "<!-- HARMLESS_TABLE_BEGIN -->\n" + htbl + "\n<!-- HARMLESS_TABLE_END -->", s, flags=re.S)
open(p, "w").write(s)
print(tbl)
print(htbl)
