"""Source fingerprints: an escalation signal, never a verdict.  The AST (docstrings removed) of every
modelled source file of /repo is hashed and compared with harness/fingerprints.json (recorded on the tree
the model was written against, after the fix: commits).  A changed file multiplies the case budget of the
properties whose model depends on it, so that rare breakages are found with higher probability exactly
when the code has changed; the unchanged tree keeps the fast quick tier."""
import ast
import hashlib
import json
import os

HERE = os.path.dirname(os.path.abspath(__file__))
REPO = os.environ.get("VERIF_REPO", "/repo")
FILE = os.path.join(HERE, "fingerprints.json")

SIM = ["C01", "C02", "C03", "C04", "C05", "C06", "C07", "C08", "C16", "C20"]
LOADER = ["C09", "C10", "C11", "C12", "C13", "C15", "C16", "C20", "C03", "C07"]
DEPENDS = {
    "src/sim_services/__init__.py": SIM,
    "src/sim_services/_instr_sinks.py": SIM,
    "src/sim_services/_utils.py": SIM,
    "src/sim_services/sim_defs.py": SIM + ["C17"],
    "src/reg_access.py": ["C01", "C02", "C08", "C19", "C16", "C20"],
    "src/container_utils.py": ["C17", "C08", "C13", "C14", "C15"] + LOADER,
    "src/str_utils.py": ["C18", "C13", "C14", "C15"] + LOADER,
    "src/program_utils.py": ["C13", "C14", "C15", "C16", "C20"],
    "src/program_defs.py": ["C14", "C15", "C13", "C16", "C20"] + SIM,
    "src/processor_utils/__init__.py": LOADER,
    "src/processor_utils/_checks.py": LOADER,
    "src/processor_utils/_optimization.py": LOADER,
    "src/processor_utils/_port_defs.py": LOADER,
    "src/processor_utils/cap_anal_utils.py": LOADER,
    "src/processor_utils/units.py": LOADER + SIM,
    "src/processor_utils/exception.py": ["C11", "C20"],
    "src/errors.py": ["C11", "C14", "C15", "C20"],
    "src/processor_sim.py": ["C16"],
    "src/hw_loading.py": ["C16", "C15"],
    "src/type_checking.py": LOADER + ["C16"],
}


def _hash(path):
    try:
        tree = ast.parse(open(path).read())
    except Exception:  # noqa: BLE001
        return "unparsable"
    for n in ast.walk(tree):
        if isinstance(n, (ast.FunctionDef, ast.ClassDef, ast.Module, ast.AsyncFunctionDef)):
            b = n.body
            if b and isinstance(b[0], ast.Expr) and isinstance(getattr(b[0], "value", None), ast.Constant) \
                    and isinstance(b[0].value.value, str):
                n.body = b[1:] or [ast.Pass()]
    return hashlib.sha256(ast.dump(tree).encode()).hexdigest()[:16]


def current():
    return {f: _hash(os.path.join(REPO, f)) for f in DEPENDS}


def changed_files():
    if not os.path.exists(FILE):
        return []
    ref = json.load(open(FILE))
    cur = current()
    return sorted(f for f in DEPENDS if ref.get(f) != cur[f])


def multiplier(pid):
    ch = [f for f in changed_files() if pid in DEPENDS[f]]
    return (4 if ch else 1), ch


if __name__ == "__main__":
    json.dump(current(), open(FILE, "w"), indent=1)
    print("recorded", FILE)
