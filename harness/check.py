#!/venv/bin/python
"""check.py Cxx --tier quick|thorough [--replay FILE]

Decides one property: (1) the Coq theorems registered for it (coq/props/Cxx.v) still check and are
closed; (2) the hand-written model still corresponds to /repo's working tree on generated and
enumerated inputs, seen through the property's projection; (3) the extracted verified checker
holds on every implementation output.  See DESIGN.md section 2.4."""
import argparse
import json
import os
import sys as _sys
if os.environ.get("PYTHONHASHSEED") is None:
    # the workers fork from this process and import /repo there: a fixed hash seed makes every run (and every replay)
    # see the same set/dict iteration orders.  (The C20 purity runs start their own interpreters with other seeds.)
    os.environ["PYTHONHASHSEED"] = "0"
    os.execv(_sys.executable, [_sys.executable] + _sys.argv)
import re
import subprocess
import sys
import time

HERE = os.path.dirname(os.path.abspath(__file__))
VERIF = os.path.dirname(HERE)
sys.path.insert(0, HERE)
os.environ.setdefault("PYTHONHASHSEED", "0")

import engine  # noqa: E402
import propdefs  # noqa: E402
import srcref  # noqa: E402

COQ = os.path.join(VERIF, "coq")
EVID = os.environ.get("VERIF_EVIDENCE_DIR") or os.path.join(VERIF, "evidence")   # (seedtest.py redirects it)
REPLAYS = os.path.join(VERIF, "replays")
KNOWN = os.path.join(VERIF, "known_findings.json")


def sh(cmd, timeout=3000, cwd=None):
    p = subprocess.run(cmd, shell=True, capture_output=True, text=True, timeout=timeout, cwd=cwd)
    return p.returncode, p.stdout + p.stderr


def ensure_build():
    """make (no-op when nothing changed), extraction, OCaml driver.  Returns (ok, log)."""
    log = []
    sh(f"{sys.executable} {os.path.join(HERE, 'gen_coqproject.py')}")      # the file list follows the tree
    mk = os.path.join(COQ, "Makefile")
    cp = os.path.join(COQ, "_CoqProject")
    if not os.path.exists(mk) or os.path.getmtime(cp) > os.path.getmtime(mk):
        rc, out = sh("coq_makefile -f _CoqProject -o Makefile", cwd=COQ)
        log.append(out)
    rc, out = sh("timeout 3000 make -k -j16 2>&1 | grep -v 'Cannot open' | tail -40", cwd=COQ)
    log.append(out)
    drv = os.path.join(VERIF, "ocaml", "driver.exe")
    ml = os.path.join(VERIF, "ocaml", "model.ml")
    srcs = [ml, os.path.join(VERIF, "ocaml", "driver.ml"), os.path.join(VERIF, "ocaml", "sx.ml")]
    if not os.path.exists(drv) or any(os.path.exists(s) and os.path.getmtime(s) > os.path.getmtime(drv) for s in srcs):
        rc2, out2 = sh("./build.sh", cwd=os.path.join(VERIF, "ocaml"))
        log.append(out2)
    return os.path.exists(drv), "\n".join(log)


def theorem_status(pid):
    """the theorems of props/<pid>.v plus the Prop-level readings of the property kept in props/Readings*.v
    (those whose name starts with the property id); returns (obligations, discharged, axioms, log)"""
    names, discharged, axioms, log = _file_status(pid)
    for extra in propdefs.READINGS.get(pid, []):
        whole = extra.endswith("*")              # "File*": every theorem of the file supports this property
        extra = extra.rstrip("*")
        n2, d2, a2, l2 = _file_status(extra)
        keep = [n for n in n2 if whole or n.startswith(pid + "_")]
        if not n2:                       # the readings file no longer compiles or lost its theorems
            keep = [f"{pid}_reading ({extra}.v)"]
        names += keep
        discharged += [n for n in d2 if n in keep]
        axioms.update({n: a2.get(n, ["does not compile"]) for n in keep})
        log += l2[-500:]
    return names, discharged, axioms, log


def _file_status(pid):
    """compile coq/props/<pid>.v on its own; returns (obligations, discharged, axioms, log)"""
    src = os.path.join(COQ, "props", pid + ".v")
    if not os.path.exists(src):
        return [], [], {}, "no props file"
    text = open(src).read()
    names = re.findall(r"^(?:Theorem|Corollary)\s+([A-Za-z0-9_']+)", text, re.M)
    rc, out = sh(f"timeout 600 coqc -Q model PS -Q spec PS -Q proofs PS -Q props PS "
                 f"-w -notation-overridden,-deprecated props/{pid}.v", cwd=COQ)
    axioms = {}
    discharged = []
    if rc == 0:
        # assumptions BY NAME: a generated file requires the compiled module and prints a marker before the
        # `Print Assumptions` of every theorem (and every Example) of the file, so nothing depends on the position
        # or presence of the `Print Assumptions` lines written in the props file itself
        examples = re.findall(r"^Example\s+([A-Za-z0-9_']+)", text, re.M)
        os.makedirs(os.path.join(VERIF, ".work"), exist_ok=True)
        pa = os.path.join(VERIF, ".work", f"PA_{pid}_{os.getpid()}.v")
        with open(pa, "w") as f:
            f.write(f"From PS Require Import {pid}.\n")
            for n in names + examples:
                f.write(f'Goal True. idtac "@@PA {n}". exact I. Qed.\nPrint Assumptions {n}.\n')
        rc2, out2 = sh(f"timeout 600 coqc -Q model PS -Q spec PS -Q proofs PS -Q props PS "
                       f"-w -notation-overridden,-deprecated {pa}", cwd=COQ)
        for ext in (".v", ".vo", ".vok", ".vos", ".glob"):
            try:
                os.remove(pa[:-2] + ext)
            except OSError:
                pass
        try:
            os.remove(os.path.join(os.path.dirname(pa), "." + os.path.basename(pa)[:-2] + ".aux"))
        except OSError:
            pass
        segs = {}
        for seg in out2.split("@@PA ")[1:]:
            nm, _, rest = seg.partition("\n")
            segs[nm.strip()] = rest.strip()
        for n in names + examples:
            v = segs.get(n, "no Print Assumptions output" if rc2 == 0 else "assumption file failed: " + out2[-300:])
            if v.startswith("Closed under"):
                axioms[n] = []
                if n in names:
                    discharged.append(n)
            elif v.startswith("Axioms:"):
                ax = re.findall(r"^([A-Za-z0-9_.']+)\s*:", v[len("Axioms:"):], re.M)
                axioms[n] = ax
                if n in names and all(a in propdefs.ALLOWED_AXIOMS for a in ax):
                    discharged.append(n)
            else:
                axioms[n] = [v[:200]]
    return names, discharged, axioms, out[-2000:]


def hygiene():
    rc, out = sh(r"grep -rnE '\b(Admitted|admit|Axiom|Parameter|Conjecture|Unset Guard|bypass_check|type-in-type)\b' "
                 r"--include=*.v model spec proofs props extract pylite srcref | grep -v '^[^:]*:[0-9]*: *(\*' || true", cwd=COQ)
    return out.strip()


def load_known():
    if os.path.exists(KNOWN):
        return json.load(open(KNOWN))["findings"]
    return []


def write_replay(pid, seed, n, payload):
    os.makedirs(REPLAYS, exist_ok=True)
    path = os.path.join(REPLAYS, f"{pid}-{seed}-{n}.json")
    with open(path, "w") as f:
        json.dump(payload, f, indent=1, default=str)
    return path


def _assumptions(pid):
    try:
        import manifest_data
        c = manifest_data.CLAIMS.get(pid, {})
        return [c.get("note", "")] + ["the implementation runs with the fastcore-1.7 compatibility shim (DESIGN.md 1.1)",
                                      "inputs are Latin-1 text (code points 0-255); structurally typed descriptions"]
    except Exception:  # noqa: BLE001
        return []


def main():
    ap = argparse.ArgumentParser()
    ap.add_argument("pid")
    ap.add_argument("--tier", default=os.environ.get("VERIF_TIER", "quick"), choices=["quick", "thorough"])
    ap.add_argument("--replay")
    a = ap.parse_args()
    pid = a.pid
    seed = int(os.environ.get("VERIF_SEED", "0"))
    t0 = time.time()
    prop = propdefs.PROPS[pid]

    ok_build, blog = ensure_build()
    if not ok_build:
        print("build failed:\n" + blog[-3000:])
        path = write_replay(pid, seed, 0, {"property": pid, "reason": "framework build failed", "log": blog[-3000:]})
        print(f"VIOLATION property={pid} replay={path} no-failing-input-found")
        return 1
    names, discharged, axioms, tlog = theorem_status(pid)
    dirty = hygiene()
    broken_theorems = [n for n in names if n not in discharged]
    if dirty:
        broken_theorems.append("hygiene: " + dirty[:300])

    srcref_res = None
    known = [k for k in load_known() if k["property"] == pid]
    open_known = [k for k in known if k["status"] == "open"]

    if a.replay:
        rp = json.load(open(a.replay))
        if not isinstance(rp.get("case"), (dict, list)) or not rp.get("component"):
            # a replay that names a theorem / the build instead of an input: what is re-checked is exactly that
            for ln in ([f"VIOLATION property={pid} replay={a.replay} no-failing-input-found"] if broken_theorems else []):
                print(ln)
            print(f"{pid} replay: theorems {len(discharged)}/{len(names)} closed; no input in this replay file "
                  f"(it names: {rp.get('theorems_not_checking') or rp.get('reason') or rp.get('kind')}); exit {1 if broken_theorems else 0}")
            return 1 if broken_theorems else 0
        res = propdefs.run_property(pid, a.tier, seed, replay=rp)
    else:
        escalate = bool(broken_theorems)
        if pid in srcref.PROPS:
            # translator tie (reg_access.py -> PyLite -> refinement proofs); when it is not available the tie
            # rests on the correspondence alone, searched with the escalated budget
            try:
                srcref_res = srcref.check(pid)
            except Exception as e:  # noqa: BLE001  the translator tie is optional: its failure only escalates the search
                srcref_res = [{"module": "?", "status": "unavailable", "detail": f"{type(e).__name__}: {e}"[:300]}]
            escalate = escalate or not srcref.all_proved(srcref_res)
        res = propdefs.run_property(pid, a.tier, seed, escalate=escalate)

    # ---- verdict
    violations = []          # (kind, report)
    known_hits = {}
    for rep in res["failures"]:
        k = propdefs.match_known(open_known, rep)
        if k is not None:
            known_hits.setdefault(k["id"], (k, rep))
        else:
            violations.append(rep)
    wall = time.time() - t0
    rc = 0
    out_lines = []
    for kid, (k, rep) in sorted(known_hits.items()):
        out_lines.append(f"KNOWN-FINDING: property={pid} {k['description']}")
    # listed open findings are reported whenever they are listed (the check re-demonstrates them
    # through their own pinned input, see propdefs.known_demo)
    for k in open_known:
        if k["id"] not in known_hits:
            demo = propdefs.known_demo(k)
            if demo:
                out_lines.append(f"KNOWN-FINDING: property={pid} {k['description']}")
    nv = 0
    if violations:
        checker_fail = [v for v in violations if v["kind"] == "checker"]
        first = (checker_fail or violations)[0]
        first = propdefs.shrink(pid, first)
        path = write_replay(pid, seed, 1, {"property": pid, **first})
        tail = "" if first["kind"] in ("checker", "metamorphic") else " no-failing-input-found"
        out_lines.append(f"VIOLATION property={pid} replay={path}{tail}")
        nv = len(violations)
        rc = 1
    elif broken_theorems:
        path = write_replay(pid, seed, 0, {"property": pid, "kind": "theorem",
                                           "theorems_not_checking": broken_theorems, "coqc_log": tlog,
                                           "searched": res["coverage"].get("evaluations", 0)})
        out_lines.append(f"VIOLATION property={pid} replay={path} no-failing-input-found")
        nv = 1
        rc = 1

    cov = dict(res["coverage"])
    if srcref_res is not None:
        cov["source_refinement"] = [{k: v for k, v in r.items() if k != "log"} for r in srcref_res]
    cov.update({
        "obligations": max(1, len(names)),
        "discharged": len(discharged) if names else 0,
        "theorems": names,
        "theorems_discharged": discharged,
        "axioms": axioms,
        "checker_cmd": f"cd /verif/coq && make && coqc props/{pid}.v  (Print Assumptions); "
                       f"coqchk in the thorough tier",
        "trusted_base": propdefs.TRUSTED_BASE + prop.get("trusted_extra", []),
        "known_findings_reported": sorted(known_hits),
    })
    if srcref_res is not None:
        cov["trusted_base"] = cov["trusted_base"] + [
            "translator tie (reg_access.py, sim_services/_utils.py): harness/py2coq.py (fail-closed ast dump; drops imports/docstrings/annotations, "
            "typing.cast(T,e) -> e, n-ary and/or nested to the right, attrs/enum class forms) and the PyLite semantics "
            "coq/pylite/PyLite.v (tree-valued objects: no aliasing, sets of ints as duplicate-free lists)"]
    if a.tier == "thorough" and not a.replay:
        ck_ok, ck_out = propdefs.coqchk(pid)
        cov["coqchk"] = ck_out
        cov["coqchk_ok"] = ck_ok
        if not ck_ok and rc == 0:
            # the independent checker does not accept the compiled development (or reports an axiom / an unchecked
            # fixpoint / assumed positivity): the theorems are not shown to hold
            path = write_replay(pid, seed, 0, {"property": pid, "kind": "theorem",
                                               "theorems_not_checking": [f"coqchk -o PS.{pid}"], "coqc_log": ck_out[-1500:]})
            out_lines.append(f"VIOLATION property={pid} replay={path} no-failing-input-found")
            nv, rc = 1, 1
    def _small(x):
        txt = json.dumps(x, default=str)
        if len(txt) <= 6000:
            return x
        d = x.get("desc") if isinstance(x, dict) else None
        return {"truncated": True, "size_chars": len(txt),
                "note": (f"description with {len(d.get('units', []))} units" if isinstance(d, dict) else "large sample omitted"),
                "head": txt[:400]}
    if isinstance(cov.get("samples"), list):
        cov["samples"] = [_small(x) for x in cov["samples"]]
    ev = {
        "property_id": pid, "tier": a.tier, "seed": seed, "level": "proof", "coverage": cov,
        "assumptions": prop.get("assumptions") or _assumptions(pid), "wall_s": round(wall, 2), "violations": nv,
    }
    if not a.replay:
        os.makedirs(EVID, exist_ok=True)
        with open(os.path.join(EVID, pid + ".json"), "w") as f:
            json.dump(ev, f, indent=1, default=str)
    for ln in out_lines:
        print(ln)
    print(f"{pid} {a.tier}: theorems {len(discharged)}/{len(names)} closed; "
          f"{cov.get('evaluations', 0)} cases, {cov.get('disagreements', 0)} disagreements, "
          f"{cov.get('checker_failures', 0)} checker failures "
          f"({sum(1 for r in res['failures'] if propdefs.match_known(open_known, r) is not None)} matched by listed known findings); "
          f"{wall:.1f}s; exit {rc}")
    return rc


if __name__ == "__main__":
    try:
        sys.exit(main())
    except SystemExit:
        raise
    except BaseException:  # noqa: BLE001  the interface is kept even when the machinery itself fails
        import traceback
        tb = traceback.format_exc()
        print(tb[-1500:])
        pid_ = next((x for x in sys.argv[1:] if re.fullmatch(r"C\d\d", x)), "C00")
        path_ = write_replay(pid_, int(os.environ.get("VERIF_SEED", "0")), 0,
                             {"property": pid_, "kind": "harness", "reason": "the check itself failed", "traceback": tb[-3000:]})
        print(f"VIOLATION property={pid_} replay={path_} no-failing-input-found")
        sys.exit(1)
