#!/usr/bin/env python3
"""Regenerates coq/_CoqProject: model, spec, extraction, and the proof/props files of the properties
listed in harness/ready.txt (a property is added there once its props file compiles closed)."""
import glob
import os

HERE = os.path.dirname(os.path.abspath(__file__))
COQ = os.path.join(os.path.dirname(HERE), "coq")
ready = open(os.path.join(HERE, "ready.txt")).read().split()
shared = {"Lists", "Run", "HZ", "Graph", "LD", "Domain", "Flow", "Exact", "Exact2", "Exact3", "Exact4", "Exact5", "Exact6"}
lines = ["-Q model PS", "-Q spec PS", "-Q proofs PS", "-Q props PS", "-Q extract PS", "-Q pylite PS",
         "-arg -w -arg -notation-overridden,-deprecated"]
for d in ("model", "spec", "extract", "pylite"):
    lines += sorted(os.path.relpath(f, COQ) for f in glob.glob(os.path.join(COQ, d, "*.v")))
for f in sorted(glob.glob(os.path.join(COQ, "proofs", "*.v"))):
    pre = os.path.basename(f).split("_")[0].split(".")[0]
    if pre in shared or pre in ready:
        lines.append(os.path.relpath(f, COQ))
for p in ready:
    if os.path.exists(os.path.join(COQ, "props", p + ".v")):
        lines.append(f"props/{p}.v")
open(os.path.join(COQ, "_CoqProject"), "w").write("\n".join(lines) + "\n")
print("ready:", ready)
