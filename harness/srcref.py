#!/usr/bin/env python3
"""srcref.py -- the TRANSLATOR half of the tie between model and code, for reg_access.py and sim_services/_utils.py
(MODULES below; the text that follows describes the first).
On every run: (1) harness/py2coq.py dumps the current source of <REPO>/src/reg_access.py into a Coq term of the
PyLite syntax (coq/pylite/PyLite.v); (2) coq/srcref/RegAccessRefine_proof.v / RegAccessRefine.v are compiled
against that term: they prove that the source, run by the PyLite semantics, refines model/RegAccess.v method by
method and over whole histories, and that C19's protocol theorem holds of the source (`C19_on_source`).

Outcomes: "proved" (every theorem compiled, every Print Assumptions closed), "untranslatable" (the source uses a
construct PyLite has no constructor for: the translator fails closed), "proof-broken" (the dumped program no longer
refines the model, or the proof script no longer applies to it).  The second and third are NOT verdicts: the tie
then rests on the correspondence check alone, which check.py runs with an escalated budget.

Compiled files are cached under .work/srcref/<hash of every input file>/ (the translation itself is redone on
every call; only the re-compilation of byte-identical inputs is skipped)."""
import hashlib
import json
import os
import re
import shutil
import subprocess
import sys
import time

HERE = os.path.dirname(os.path.abspath(__file__))
VERIF = os.path.dirname(HERE)
COQ = os.path.join(VERIF, "coq")
REPO = os.environ.get("VERIF_REPO", "/repo")
WORK = os.path.join(VERIF, ".work", "srcref")
MODULES = {
    # the register-access queues: C19, and the hazard bookkeeping under C01/C02
    "RegAccess": {"src": "src/reg_access.py", "term": "SRC", "gen": "RegAccessSrc.v",
                  "files": ["RegAccessEmbed.v", "RegAccessRefine_proof.v", "RegAccessRefine.v"],
                  "search": "RegAccessSearch.v",
                  "deps": ["model/RegAccess.v", "spec/QueueSpec.v", "proofs/C19_proof.v"],
                  "props": ["C19", "C01", "C02"]},
    # the two tests behind width (C04), memory port (C05) and the issue/advance decisions (C06, C07)
    "SimUtils": {"src": "src/sim_services/_utils.py", "term": "SRC_UTILS", "gen": "SimUtilsSrc.v",
                 "files": ["SimUtilsRefine.v"], "deps": [], "props": ["C04", "C05", "C06", "C07"]},
}
PROPS = sorted({p for m in MODULES.values() for p in m["props"]})

sys.path.insert(0, HERE)
import py2coq  # noqa: E402


def _coqc(d, f, log, timeout=600):
    q = ["-Q", os.path.join(COQ, "model"), "PS", "-Q", os.path.join(COQ, "spec"), "PS", "-Q", os.path.join(COQ, "proofs"), "PS",
         "-Q", os.path.join(COQ, "pylite"), "PS", "-Q", d, "PS", "-w", "-notation-overridden,-deprecated"]
    try:
        p = subprocess.run(["coqc"] + q + [os.path.join(d, f)], capture_output=True, text=True, timeout=timeout)
    except subprocess.TimeoutExpired:
        log.append(f"{f}: timeout")
        return False, ""
    log.append(f"{f}: rc={p.returncode} {(p.stdout + p.stderr)[-600:] if p.returncode else ''}".strip())
    return p.returncode == 0, p.stdout


def check_module(name):
    t0 = time.time()
    m = MODULES[name]
    src = os.path.join(REPO, m["src"])
    out = {"module": name, "source": src, "translator": "harness/py2coq.py", "semantics": "coq/pylite/PyLite.v",
           "theorem_file": "coq/srcref/" + m["files"][-1]}
    try:
        text = py2coq.translate(open(src, encoding="utf-8").read(), m["term"])
    except (py2coq.Unsupported, SyntaxError, OSError, RecursionError, ValueError, AttributeError, TypeError) as e:
        out.update(status="untranslatable", detail=str(e)[:300])
        return out
    h = hashlib.sha256((name + text).encode())
    for f in [os.path.join(COQ, "srcref", x) for x in m["files"] + ([m["search"]] if m.get("search") else [])] + \
            [os.path.join(COQ, "pylite", "PyLite.v")] + \
            [os.path.join(COQ, x) for x in m["deps"]]:
        h.update(open(f, "rb").read())
    key = h.hexdigest()[:20]
    out["source_term_sha"] = hashlib.sha256(text.encode()).hexdigest()[:16]
    d = os.path.join(WORK, key)
    res_file = os.path.join(d, "result.json")
    os.makedirs(WORK, exist_ok=True)
    import fcntl
    lock = open(os.path.join(WORK, ".lock"), "w")
    fcntl.flock(lock, fcntl.LOCK_EX)            # concurrent checks: one compiles, the others reuse
    if os.path.exists(res_file):
        out.update(json.load(open(res_file)))
        out["cached_compilation"] = True
        return out
    os.makedirs(d, exist_ok=True)
    open(os.path.join(d, m["gen"]), "w").write(text)
    for f in m["files"]:
        shutil.copy(os.path.join(COQ, "srcref", f), d)
    log, ok, stdout = [], True, ""
    if not os.path.exists(os.path.join(COQ, "pylite", "PyLite.vo")):
        ok, _ = _coqc(os.path.join(COQ, "pylite"), "PyLite.v", log)
    for f in [m["gen"]] + m["files"]:
        if not ok:
            break
        ok, stdout = _coqc(d, f, log)
    thm_src = open(os.path.join(COQ, "srcref", m["files"][-1])).read()
    names = re.findall(r"^Theorem\s+(\w+)", thm_src, flags=re.M)
    closed = stdout.count("Closed under the global context") if ok else 0
    res = {"status": "proved" if ok and closed == len(names) else "proof-broken",
           "theorems": names, "closed": closed, "log": log, "seconds": round(time.time() - t0, 1)}
    if res["status"] != "proved" and m.get("search") and os.path.exists(os.path.join(d, m["gen"][:-2] + ".vo")):
        # the proofs do not go through: bounded search inside Coq for an input on which source and model differ
        try:
            shutil.copy(os.path.join(COQ, "srcref", m["search"]), d)
            shutil.copy(os.path.join(COQ, "srcref", m["files"][0]), d)
            ok_e, _ = _coqc(d, m["files"][0], log)
            ok_s, out_s = _coqc(d, m["search"], log, timeout=240) if ok_e else (False, "")
            if ok_s:
                txt = " ".join(out_s.split())
                res["counterexample_search"] = ("source and model differ on (requests, removals, query, source answer, "
                                                "model answer; 0 error / 1 false / 2 true): " + txt) if "Some" in txt else \
                    "no difference on all request lists <= 3, removal histories <= 2 (bounded search, not a proof)"
        except Exception as e:  # noqa: BLE001  the search is an aid, never a reason to fail
            res["counterexample_search"] = "search not run: " + str(e)[:200]
    json.dump(res, open(res_file, "w"), indent=1)
    # keep the cache small
    olds = sorted((os.path.getmtime(os.path.join(WORK, x)), x) for x in os.listdir(WORK) if not x.startswith("."))
    for _, x in olds[:-12]:
        shutil.rmtree(os.path.join(WORK, x), ignore_errors=True)
    out.update(res)
    return out


def check(pid=None):
    """results of the modules whose tie the check of property `pid` reports (all modules when pid is None)"""
    return [check_module(n) for n, m in MODULES.items() if pid is None or pid in m["props"]]


def all_proved(results):
    return all(r.get("status") == "proved" for r in results)


if __name__ == "__main__":
    for r in check():
        print(json.dumps({k: v for k, v in r.items() if k != "log" or r.get("status") != "proved"}, indent=1))
