#!/usr/bin/env python3
"""py2coq.py <python source> <Coq output> [definition name]
Dumps the `ast` of a Python module written in the PyLite subset (coq/pylite/PyLite.v) as a Coq term of type
`pmodule`.  FAIL-CLOSED: any node, decorator, argument form or operator that PyLite has no constructor for
raises Unsupported (exit 2, nothing written) - the translator never guesses.  The only semantic steps it takes
itself (part of the trusted base, listed in DESIGN.md):
  * imports, docstrings, type annotations and `pass` are dropped;
  * `typing.cast(T, e)` is replaced by `e` (the identity at run time);
  * n-ary `and`/`or` are nested to the right (Python evaluates them left to right with short circuit);
  * an `@frozen`/`@attr.frozen`/`@attr.s`-style class becomes its list of fields in definition order with
    `init`, `converter`, `factory` of `field(...)`; a class deriving from `enum.Enum` becomes its member names
    (members must be `auto()`); methods keep their parameter names (first one = the receiver).
Everything else is a one-to-one dump."""
import ast
import sys


class Unsupported(Exception):
    pass


def bad(node, why=""):
    raise Unsupported(f"line {getattr(node, 'lineno', '?')}: {type(node).__name__} {why}".strip())


def qs(s):
    if any(ord(c) > 126 or ord(c) < 32 for c in s):
        raise Unsupported(f"non-printable identifier {s!r}")
    return '"' + s.replace('"', '""') + '"'


def lst(items):
    return "[" + "; ".join(items) + "]"


CMP = {ast.Eq: "CEq", ast.NotEq: "CNotEq", ast.In: "CIn", ast.NotIn: "CNotIn", ast.Lt: "CLt", ast.LtE: "CLe",
       ast.Gt: "CGt", ast.GtE: "CGe"}


def const_index(node):
    """Constant subscript k or -k -> (neg, k)"""
    if isinstance(node, ast.Constant) and type(node.value) is int and node.value >= 0:
        return "false", node.value
    if isinstance(node, ast.UnaryOp) and isinstance(node.op, ast.USub) and isinstance(node.operand, ast.Constant) \
            and type(node.operand.value) is int and node.operand.value > 0:
        return "true", node.operand.value
    bad(node, "subscript is not an integer constant")


def expr(e):
    if isinstance(e, ast.Name):
        return f"(EName {qs(e.id)})"
    if isinstance(e, ast.Constant):
        if e.value is None:
            return "ENone"
        if type(e.value) is bool:
            return f"(EBool {'true' if e.value else 'false'})"
        if type(e.value) is int and 0 <= e.value < 5000:
            return f"(EInt {e.value})"
        bad(e, f"constant {e.value!r}")
    if isinstance(e, ast.Attribute):
        return f"(EAttr {expr(e.value)} {qs(e.attr)})"
    if isinstance(e, ast.Subscript):
        neg, k = const_index(e.slice)
        return f"(EIdx {expr(e.value)} {neg} {k})"
    if isinstance(e, ast.BoolOp):
        ctor = "EAnd" if isinstance(e.op, ast.And) else "EOr" if isinstance(e.op, ast.Or) else bad(e)
        vals = [expr(v) for v in e.values]
        out = vals[-1]
        for v in reversed(vals[:-1]):
            out = f"({ctor} {v} {out})"
        return out
    if isinstance(e, ast.UnaryOp) and isinstance(e.op, ast.Not):
        return f"(ENot {expr(e.operand)})"
    if isinstance(e, ast.Compare):
        if len(e.ops) != 1 or type(e.ops[0]) not in CMP:
            bad(e, "chained or unsupported comparison")
        return f"(ECmp {CMP[type(e.ops[0])]} {expr(e.left)} {expr(e.comparators[0])})"
    if isinstance(e, ast.Set):
        return f"(ESetLit {lst([expr(x) for x in e.elts])})"
    if isinstance(e, ast.Call):
        if e.keywords or any(isinstance(a, ast.Starred) for a in e.args):
            bad(e, "keyword or starred arguments")
        f = e.func
        if isinstance(f, ast.Attribute) and isinstance(f.value, ast.Name) and f.value.id == "typing" and f.attr == "cast":
            if len(e.args) != 2:
                bad(e, "typing.cast arity")
            return expr(e.args[1])
        args = lst([expr(a) for a in e.args])
        if isinstance(f, ast.Name):
            return f"(ECall {qs(f.id)} {args})"
        if isinstance(f, ast.Attribute):
            return f"(EMeth {expr(f.value)} {qs(f.attr)} {args})"
        bad(e, "callee form")
    bad(e)


def is_doc(s):
    return isinstance(s, ast.Expr) and isinstance(s.value, ast.Constant) and isinstance(s.value.value, str)


def stmts(body):
    out = []
    for s in body:
        if is_doc(s) or isinstance(s, ast.Pass):
            continue
        if isinstance(s, ast.Return):
            out.append(f"SReturn {expr(s.value) if s.value is not None else 'ENone'}")
        elif isinstance(s, ast.Expr):
            if not (isinstance(s.value, ast.Call) and isinstance(s.value.func, ast.Attribute)):
                bad(s, "expression statement that is not a method call")
            out.append(f"SExpr {expr(s.value)}")
        elif isinstance(s, ast.Delete):
            if len(s.targets) != 1 or not isinstance(s.targets[0], ast.Subscript):
                bad(s, "del target")
            neg, k = const_index(s.targets[0].slice)
            out.append(f"SDel {expr(s.targets[0].value)} {neg} {k}")
        elif isinstance(s, ast.If):
            out.append(f"SIf {expr(s.test)} {stmts(s.body)} {stmts(s.orelse)}")
        else:
            bad(s)
    return lst(out)


def func(fn, allowed_decorators=()):
    a = fn.args
    if a.posonlyargs or a.kwonlyargs or a.vararg or a.kwarg or a.defaults or a.kw_defaults:
        bad(fn, "parameter form")
    for d in fn.decorator_list:
        if ast.unparse(d) not in allowed_decorators:
            bad(fn, f"decorator {ast.unparse(d)}")
    if isinstance(fn, ast.AsyncFunctionDef):
        bad(fn)
    return f"mkM {qs(fn.name)} {lst([qs(x.arg) for x in a.args])} {stmts(fn.body)}"


ATTRS_DECOS = {"frozen", "attr.frozen", "attrs.frozen"}
ENUM_BASES = {"enum.Enum", "Enum"}


def opt_name(node):
    if not isinstance(node, ast.Name):
        bad(node, "converter/factory is not a plain name")
    return f"(Some {qs(node.id)})"


def klass(c):
    if c.keywords:
        bad(c, "class keywords")
    bases = [ast.unparse(b) for b in c.bases]
    decos = [ast.unparse(d) for d in c.decorator_list]
    methods, fields, members = [], [], []
    is_enum = bases and all(b in ENUM_BASES for b in bases)
    is_attrs = not bases and len(decos) == 1 and decos[0] in ATTRS_DECOS
    if not (is_enum and not decos) and not is_attrs:
        bad(c, f"class form bases={bases} decorators={decos}")
    for s in c.body:
        if is_doc(s) or isinstance(s, ast.Pass):
            continue
        if isinstance(s, ast.FunctionDef):
            if is_enum:
                bad(s, "method in an enum class")
            methods.append(func(s))
        elif is_enum and isinstance(s, ast.Assign) and len(s.targets) == 1 and isinstance(s.targets[0], ast.Name) \
                and ast.unparse(s.value) in ("auto()", "enum.auto()"):
            members.append(qs(s.targets[0].id))
        elif is_attrs and isinstance(s, ast.AnnAssign) and isinstance(s.target, ast.Name) and s.simple:
            init, conv, fac = "true", "None", "None"
            if s.value is not None:
                v = s.value
                if not (isinstance(v, ast.Call) and ast.unparse(v.func) in ("field", "attr.field", "attrs.field")
                        and not v.args):
                    bad(s, "field default form")
                for kw in v.keywords:
                    if kw.arg == "init" and isinstance(kw.value, ast.Constant) and type(kw.value.value) is bool:
                        init = "true" if kw.value.value else "false"
                    elif kw.arg == "converter":
                        conv = opt_name(kw.value)
                    elif kw.arg == "factory":
                        fac = opt_name(kw.value)
                    else:
                        bad(s, f"field option {kw.arg}")
            fields.append(f"mkF {qs(s.target.id)} {init} {conv} {fac}")
        else:
            bad(s, "class body statement")
    kind = f"(KEnum {lst(members)})" if is_enum else f"(KAttrs {lst(fields)})"
    return f"mkC {qs(c.name)} {kind} {lst(methods)}"


def translate(src, name):
    tree = ast.parse(src)
    classes, funcs = [], []
    for s in tree.body:
        if is_doc(s) or isinstance(s, (ast.Import, ast.ImportFrom)):
            continue
        if isinstance(s, ast.ClassDef):
            classes.append(klass(s))
        elif isinstance(s, ast.FunctionDef):
            funcs.append(func(s))
        else:
            bad(s, "module-level statement")
    sep = ";\n    "
    return ("(* GENERATED by harness/py2coq.py from the current source -- do not edit *)\n"
            "From PS Require Import Base RegAccess PyLite.\nOpen Scope string_scope.\n"
            f"Definition {name} : pmodule := mkP\n  [ {sep.join(classes)} ]\n  [ {sep.join(funcs)} ].\n")


def main():
    src_path, out_path = sys.argv[1:3]
    name = sys.argv[3] if len(sys.argv) > 3 else "SRC"
    try:
        text = translate(open(src_path, encoding="utf-8").read(), name)
    except (Unsupported, SyntaxError) as e:
        print(f"py2coq: unsupported: {e}")
        sys.exit(2)
    try:
        if open(out_path).read() == text:
            return
    except OSError:
        pass
    open(out_path, "w").write(text)


if __name__ == "__main__":
    main()
