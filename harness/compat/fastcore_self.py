"""fastcore 1.7.x `Self` semantics on top of a newer fastcore."""
import fastcore.basics as _b

class _Self:
    def __init__(self): self.nms,self.args,self.kwargs,self.ready = [],[],[],True
    def __repr__(self): return f'self: {self.nms}({self.args}, {self.kwargs})'
    def __call__(self, *args, **kwargs):
        if self.ready:
            x = args[0]
            for n,a,k in zip(self.nms,self.args,self.kwargs):
                x = getattr(x,n)
                if callable(x) and a is not None: x = x(*a, **k)
            return x
        else:
            self.args.append(args)
            self.kwargs.append(kwargs)
            self.ready = True
            return self
    def __getattr__(self,k):
        if not self.ready:
            self.args.append(None)
            self.kwargs.append(None)
        self.nms.append(k)
        self.ready = False
        return self
    def _call(self, *args, **kwargs):
        self.args,self.kwargs,self.nms = [args],[kwargs],['__call__']
        self.ready = True
        return self

class _SelfCls:
    def __getattr__(self,k): return getattr(_Self(),k)
    def __getitem__(self,i): return self.__getattr__('__getitem__')(i)
    def __call__(self,*args,**kwargs): return self.__getattr__('_call')(*args,**kwargs)


def _needs_shim():
    class _P:
        x = "not callable"
    try:
        return _b.Self.x()(_P()) != "not callable"
    except TypeError:
        return True

ACTIVE = _needs_shim()
if ACTIVE:
    _b.Self = _SelfCls()

