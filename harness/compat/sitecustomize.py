"""Loaded automatically when this directory is on PYTHONPATH: restores the
fastcore 1.7 `Self` semantics that /repo's Pipfile.lock pins (see DESIGN.md 1.1)."""
try:
    import fastcore_self  # noqa: F401
except Exception:  # pragma: no cover - never block the interpreter
    pass
