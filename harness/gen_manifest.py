#!/venv/bin/python
"""Regenerates /verif/MANIFEST.json from harness/manifest_data.py (keeps it valid at all times)."""
import json
import os
import re
import sys

HERE = os.path.dirname(os.path.abspath(__file__))
VERIF = os.path.dirname(HERE)
sys.path.insert(0, HERE)
import manifest_data as md  # noqa: E402

ALL = [f"C{i:02d}" for i in range(1, 21)]
checks = []
na = []
for pid in ALL:
    props = os.path.join(VERIF, "coq", "props", pid + ".v")
    has_thm = os.path.exists(props) and re.search(r"^Theorem", open(props).read(), re.M)
    if pid in md.CLAIMS and has_thm:
        c = md.CLAIMS[pid]
        checks.append({
            "property_id": pid,
            "quick_cmd": f"/venv/bin/python harness/check.py {pid} --tier quick",
            "thorough_cmd": f"/venv/bin/python harness/check.py {pid} --tier thorough",
            "evidence_file": f"/verif/evidence/{pid}.json",
            "replay_cmd_template": f"/venv/bin/python harness/check.py {pid} --replay {{path}}",
            "engine": "coq-model+correspondence",
            "level_claimed": {"category": "proof", "text": c["text"] + md.HISTORY_SUFFIX.get(pid, md.HISTORY_SUFFIX["*"]), "design_ref": c.get("ref", "DESIGN.md section 4 " + pid)},
            "level_note": c["note"],
            "technique": c["technique"],
        })
    else:
        na.append({"property_id": pid, "reason": md.NOT_CLAIMED.get(pid, "check not built yet (work in progress in this session)")})

m = {
    "version": 1,
    "setup_cmd": "sh /verif/harness/setup.sh",
    "hooks": {
        "guard": "MSK61_PROCESSORSIM_VERIF",
        "enable": "no source hooks are needed: every observation point is a public function result or exception; "
                  "checks import /repo/src from the working tree in fresh processes (PYTHONPATH=/verif/harness/compat:/repo/src)",
        "baseline_off_cmd": "cd /repo && /venv/bin/python -m pytest -ra -q -p no:cacheprovider --timeout=900 --continue-on-collection-errors",
        "source_commits": [],
        "add_only": True,
    },
    "engines": [{
        "name": "coq-model+correspondence",
        "path": "/verif/coq (model, spec, proofs, props), /verif/ocaml (extracted model + driver), /verif/harness (check.py)",
        "serves_properties": [c["property_id"] for c in checks],
        "kind_free_text": "machine-checked proof in Coq 8.16 over a hand-written Gallina model of the Python code; "
                          "the model is tied to /repo's working tree on every run by a correspondence (differential) check "
                          "through the extracted model, and extracted verified checkers search implementation outputs for violations",
    }],
    "checks": checks,
    "notes": md.NOTES,
    "not_applicable": na,
}
json.dump(m, open(os.path.join(VERIF, "MANIFEST.json"), "w"), indent=1)
print("claimed:", [c["property_id"] for c in checks], "not claimed:", [x["property_id"] for x in na])
