"""Components: for each modelled part of /repo, how to make a case, run the implementation on
it, and judge the implementation's output against the extracted model's output and the
extracted (verified) checkers.  Cases are plain JSON-able data so that they can be replayed."""
import copy

import gen
import sx
from sx import Sym
from engine import digest


def jsonable(x):
    if isinstance(x, Sym):
        return str(x)
    if isinstance(x, (list, tuple)):
        return [jsonable(y) for y in x]
    if isinstance(x, dict):
        return {str(k): jsonable(v) for k, v in x.items()}
    return x


def checks_of(res):
    """driver 'chk' entry -> {Cxx: [ok(bool), clause(str)]}"""
    out = {}
    for e in res.get("chk", []):
        out[str(e[0])] = [bool(e[1]), str(e[2]) if len(e) > 2 else ""]
    return out


def strip_labels(out):
    if len(out) < 2 or not isinstance(out[1], list):
        return out
    return [out[0], [[[u, sorted(e[0] for e in es)] for u, es in r] for r in out[1]]]


def proj_c08(out):
    if len(out) < 2 or not isinstance(out[1], list):
        return out
    return [out[0], len(out[1]), out[1][-1] if out[1] else []]


class Component:
    name = ""

    def make(self, rng, params):
        raise NotImplementedError

    def run(self, case):
        raise NotImplementedError

    def judge(self, case, impl, res):
        raise NotImplementedError


# =============================================================================== sim
class SimComponent(Component):
    """(processor, program) -> diagram.  Processor obtained either by loading a generated
    description with the implementation's loader or by building it from parts."""
    name = "sim"

    def make(self, rng, params):
        kind = rng.choice(params.get("kinds", ["loaded", "loaded", "parts"]))
        nmax = params.get("nmax", 6)
        for _ in range(30):
            d = gen.valid_desc(rng, nmax, wmax=params.get("wmax", 3), mem_p=params.get("mem_p", 0.3))
            if kind == "handbuilt":
                d = gen.simple_locks(rng, d) if rng.random() < 0.6 else d
            case = {"kind": kind, "desc": d, "perm_seed": rng.randrange(1 << 30)}
            proc = self._proc(case)
            if proc is not None:
                break
        else:
            return None
        caps = sorted({c for u in (list(proc.in_ports) + list(proc.in_out_ports)) for c in u.capabilities})
        allcaps = sorted({c for u in d["units"] for c in u["capabilities"]})
        r = rng.random()
        bad = params.get("bad", 0.05) if r < 0.3 else 0.0
        pool = caps if rng.random() < 0.8 or not allcaps else allcaps
        case["prog"] = [[list(p[0]), p[1], p[2]] for p in
                        gen.rand_prog(rng, pool, nmax=params.get("plen", 8), bad=bad, nhuge=300 if params.get("deep") else 0,
                                      selfdep=params.get("selfdep", 0.3))]
        return case

    def _proc(self, case):
        import implrun
        if case["kind"] == "handbuilt":
            return self._handbuilt(case["desc"])
        tag, p = implrun.load_desc(copy.deepcopy(case["desc"]))
        if tag != "ok":
            return None
        if case["kind"] == "parts":
            # rebuild from parts in a shuffled order through the public constructors
            import random
            rng = random.Random(case["perm_seed"])
            enc = implrun.enc_proc(p)
            parts = {"ins": enc[0], "outs": [(f[0], f[1]) for f in enc[1]], "inouts": enc[2],
                     "ints": [(f[0], f[1]) for f in enc[3]]}
            for k in parts:
                parts[k] = list(parts[k])
                rng.shuffle(parts[k])
            parts["outs"] = [(f[0], rng.sample(f[1], len(f[1]))) for f in parts["outs"]]
            parts["ints"] = [(f[0], rng.sample(f[1], len(f[1]))) for f in parts["ints"]]
            p = implrun.mk_proc_from_parts(parts)
        return p

    @staticmethod
    def _handbuilt(d):
        """a processor built directly from parts WITHOUT the loader's pruning: capability dead-ends,
        connections between units sharing nothing, outputs a capability cannot reach"""
        import implrun
        names = [u["name"] for u in d["units"]]
        if len({n.lower() for n in names}) != len(names):
            return None
        low = {n.lower(): n for n in names}
        es = []
        for e in d["dataPath"]:
            if len(e) != 2 or e[0].lower() not in low or e[1].lower() not in low:
                return None
            a, b = low[e[0].lower()], low[e[1].lower()]
            if a == b:
                return None
            if (a, b) not in es:
                es.append((a, b))
        # acyclic?
        order, indeg = [], {n: sum(1 for x in es if x[1] == n) for n in names}
        zero = [n for n in names if indeg[n] == 0]
        while zero:
            n = zero.pop()
            order.append(n)
            for a, b in es:
                if a == n:
                    indeg[b] -= 1
                    if indeg[b] == 0:
                        zero.append(b)
        if len(order) != len(names):
            return None
        def unit(u):
            caps = []
            for c in u["capabilities"]:
                if c.upper() not in caps:
                    caps.append(c.upper())
            mem = [c.upper() for c in u.get("memoryAccess", []) if c.upper() in caps]
            return [u["name"], int(u["width"]), caps, bool(u.get("readLock", False)), bool(u.get("writeLock", False)), mem]
        parts = {"ins": [], "outs": [], "inouts": [], "ints": []}
        for u in d["units"]:
            if not u["capabilities"] or u["width"] <= 0:
                return None
            n = u["name"]
            preds = [a for a, b in es if b == n]
            succs = [b for a, b in es if a == n]
            if preds and succs:
                parts["ints"].append((unit(u), preds))
            elif preds:
                parts["outs"].append((unit(u), preds))
            elif succs:
                parts["ins"].append(unit(u))
            else:
                parts["inouts"].append(unit(u))
        try:
            return implrun.mk_proc_from_parts(parts)
        except Exception:  # noqa: BLE001
            return None

    def run(self, case):
        import implrun
        proc = self._proc(case)
        if proc is None:
            raise RuntimeError("description no longer accepted by the loader")
        forms = ["list", "tuple", "generator"]
        hw = implrun.mk_hwprog([(implrun.shaped(s, forms[(k + len(s)) % 3]), d, c)
                                for k, (s, d, c) in enumerate(case["prog"])])
        encp = implrun.enc_proc(proc)
        # the program the model is given is derived from the case, not from the implementation's objects:
        # HwInstruction must present the sources as a sorted duplicate-free tuple whatever Iterable it got
        encprog = [[sorted(set(s)), d, c] for s, d, c in case["prog"]]
        out = implrun.run_sim_obj(proc, hw)
        return [encp, encprog, out], {"proc": encp, "prog": encprog, "out": out,
                                      "hw_normalised": jsonable(implrun.enc_hwprog(hw)) == jsonable(encprog)}

    def judge(self, case, impl, res):
        model = res["model"][0]
        wf = bool(res["wf"][0]) if "wf" in res else True
        out = impl["out"]
        jm, jo = jsonable(model), jsonable(out)
        agree = {"full": jm == jo, "occ": strip_labels(jm) == strip_labels(jo), "c08": proj_c08(jm) == proj_c08(jo)}
        tag = str(out[0])
        ncyc = len(out[1]) if len(out) > 1 and isinstance(out[1], list) else 0
        nun = sum(len(x) for x in impl["proc"])
        labels = {str(e[1]) for r in (out[1] if ncyc else []) for _, es in r for e in es}
        tags = [f"outcome:{tag}", f"wf:{int(wf)}", f"kind:{case['kind']}", f"units:{nun}",
                f"prog:{len(impl['prog'])}"] + [f"label:{l}" for l in sorted(labels)]
        return {
            "agree": agree,
            "in_domain": wf,
            "diff": None if agree["full"] else {"model": jm, "impl": jo},
            "checks": checks_of(res),
            "tags": tags,
            "nontrivial": wf and len(impl["prog"]) >= 2 and ncyc >= 3,
            "digest": digest([jsonable(impl["proc"]), jsonable(impl["prog"])]),
            "sample": {"processor": jsonable(impl["proc"]), "program": jsonable(impl["prog"]),
                       "outcome": tag, "cycles": ncyc},
            "case": case,
            "impl": jsonable(impl),
        }




def std_report(case, agree, model, impl, checks=None, tags=(), nontrivial=True, sample=None, dig=None,
               in_domain=True, extra=None):
    allok = all(agree.values()) if isinstance(agree, dict) else bool(agree)
    rep = {"agree": agree if isinstance(agree, dict) else bool(agree), "in_domain": in_domain,
           "diff": None if allok else {"model": jsonable(model), "impl": jsonable(impl)},
           "checks": checks or {}, "tags": list(tags), "nontrivial": nontrivial,
           "digest": dig or digest(jsonable(case)), "sample": sample if sample is not None else jsonable(case),
           "case": case, "impl": jsonable(impl)}
    if extra:
        rep.update(extra)
    return rep


def ints_in(msg):
    import re
    return [int(x) for x in re.findall(r"\d+", msg)]


# =============================================================================== icase
class IcaseComponent(Component):
    name = "icase"
    ALPH = "aAbB1 "

    def make(self, rng, params):
        alph = params.get("alphabet") or "".join(chr(c) for c in range(32, 127))
        if not params.get("alphabet") and rng.random() < 0.3:
            alph = "".join(chr(c) for c in range(32, 127)) + 3 * "".join(chr(c) for c in range(160, 256))
        n = gen.big(rng, params.get("maxlen", 8), 1200, 0.02, lo=params.get("maxlen", 8))
        if not params.get("alphabet") and rng.random() < 0.08:
            # BEYOND the modelled (Latin-1) domain: characters whose lower/upper forms change length or leave the
            # block.  No theorem speaks about them; the implementation is compared with the property's own
            # wording evaluated by Python (str.lower), as a search for failing inputs only.
            sp = "\u0130\u0131\u017f\u212a\u03a3\u03c3\u03c2\u00df\u01c5\u0307\ufb01iI\u0049k"
            a = "".join(rng.choice(sp) for _ in range(rng.randint(0, 4)))
            r = rng.random()
            b = a.lower() if r < 0.3 else (a.upper() if r < 0.5 else
                                           ("".join(rng.choice(sp) for _ in range(rng.randint(0, 4))) if r < 0.8
                                            else a.lower()[rng.randint(0, 1):]))
            return {"a": a, "b": b, "beyond": True}
        a = "".join(rng.choice(alph) for _ in range(rng.randint(0, n)))
        r = rng.random()
        if r < 0.3:
            b = gen.recase(rng, a, 1.0)
        elif r < 0.5 and a:
            i = rng.randrange(len(a))
            b = gen.recase(rng, a[i:rng.randint(i, len(a))], 1.0)
        else:
            b = "".join(rng.choice(alph) for _ in range(rng.randint(0, n)))
        if not params.get("alphabet") and rng.random() < 0.06:
            # objects that did not come from the constructor in this process: unpickled from another interpreter
            # process (different hash seed), pickled and unpickled here, deep-copied
            import implrun
            via = rng.choice(["xproc", "xproc", "pickle", "deepcopy"])
            if via == "xproc":
                a = rng.choice(implrun.XPROC_POOL)
                b = gen.recase(rng, a, 1.0) if rng.random() < 0.7 else rng.choice(implrun.XPROC_POOL)
            return {"a": a, "b": b, "via": via}
        return {"a": a, "b": b}

    def run(self, case):
        import implrun
        impl = implrun.run_icase(case["a"], case["b"], case.get("via", "direct"))
        if case.get("beyond"):
            return ["", ""], impl                      # the model is not consulted
        return [case["a"], case["b"]], impl

    def judge(self, case, impl, res):
        if case.get("beyond"):
            a, b = case["a"], case["b"]
            la, lb = a.lower(), b.lower()
            want = [la == lb, la < lb, lb in la, a]
            got = [bool(impl[0]), bool(impl[1]), bool(impl[3]), impl[4]]
            ok = want == got and ((not impl[0]) or bool(impl[2]))
            return std_report(case, True, want, got, {"C18": [ok, "beyond Latin-1: equality/order/containment/str as the "
                                                              "property words them (lower-cased texts); equal keys hash equally"]},
                              tags=["beyond-latin1"], nontrivial=a != b)
        m = jsonable(res["model"][0])
        i = jsonable([int(impl[0]), int(impl[1]), int(impl[2]), int(impl[3])] + list(impl[4:]))
        # hash: equal strings must hash equally (unequal ones may collide)
        a, b = case["a"], case["b"]
        if any(ch in a for ch in "\u00b5\u00df\u00ff"):
            # str.upper of these three leaves Latin-1 / changes length: outside the modelled domain of upper
            m, i = m[:6], i[:6]
        agree = m[:2] == i[:2] and m[3:] == i[3:]
        checks = {"C18": [(not impl[0]) or bool(impl[2]), "equal keys hash equally"]}
        return std_report(case, agree, m, i, checks,
                          tags=[f"eq:{int(impl[0])}", f"lt:{int(impl[1])}", f"in:{int(impl[3])}"],
                          nontrivial=a != b and (a.lower() == b.lower() or len(a) > 0 and len(b) > 0))


# =============================================================================== bag
class BagComponent(Component):
    name = "bag"

    def make(self, rng, params):
        keys = ["u0", "u1", "u2", "ALU", "alu", "B", "b"]
        if rng.random() < 0.25:
            # keys whose repr() is not just the quoted text: quotes, backslash, control and Latin-1 characters
            keys = ["it's", 'say "hi"', "both'\"", "back\\slash", "tab\there", "nl\n", "\x85", "\u00e9t\u00e9",
                    "soft\xadhyphen", "del\x7f", "nb\xa0sp", "cr\r", ""]
        vals = params.get("vals") or [[0, "U"], [0, "D"], [1, "U"], [1, "S"], [2, "D"]]
        plain = "vals" not in params and rng.random() < 0.12
        if plain:
            # entries that are plain numbers, equal across types (1 == True == 1.0): the record class is generic,
            # and "the same multiset" is meant under ==.  [value, type tag]; the model sees the value only.
            vals = [[0, "int"], [0, "bool"], [0, "float"], [1, "int"], [1, "bool"], [1, "float"], [2, "int"], [2, "float"],
                    [3, "int"]]

        def rec():
            ks = rng.sample(keys, rng.randint(0, params.get("maxunits", 4)))
            return [[k, [list(rng.choice(vals)) for _ in range(gen.big(rng, params.get("maxlen", 4), 40, 0.02))]] for k in ks]
        a = rec()
        r = rng.random()
        if r < 0.4:
            b = [[k, rng.sample(es, len(es))] for k, es in rng.sample(a, len(a))]
            if rng.random() < 0.5:
                b.append(["zz", []])
            if rng.random() < 0.3 and b:
                b = [x for x in b if x[1]] if rng.random() < 0.5 else b
        elif r < 0.6 and a:
            b = [[k, list(es)] for k, es in a]
            k = rng.randrange(len(b))
            b[k][1] = b[k][1] + [list(rng.choice(vals))] if rng.random() < 0.5 else b[k][1][:-1]
        else:
            b = rec()
        if plain and a and rng.random() < 0.5:
            # the same numbers under other types, in another order: equal records
            b = [[k, rng.sample([[v, rng.choice(["int", "float"] + (["bool"] if v < 2 else []))] for v, _ in es], len(es))]
                 for k, es in a]
        return {"a": a, "b": b, **({"plain": True} if plain else {})}

    def run(self, case):
        import implrun
        impl = implrun.run_bag(case["a"], case["b"], plain=case.get("plain", False))
        enc = lambda r: [[k, [[i, Sym("U" if case.get("plain") else l)] for i, l in es]] for k, es in r]
        return [enc(case["a"]), enc(case["b"])], impl

    def judge(self, case, impl, res):
        m = jsonable(res["model"][0])
        eqv = -1 if str(impl[0]) == "asymmetric" else int(impl[0])       # a == b and b == a must agree
        i = [eqv, impl[1], impl[2]]
        if case.get("plain"):          # repr shows the type (True / 1 / 1.0): only == and len are compared
            m, i = m[:2], i[:2]
        return std_report(case, m == i, m, i, {}, tags=[f"eq:{eqv}", f"len:{impl[1]}"],
                          nontrivial=any(es for _, es in case["a"]) and any(es for _, es in case["b"]))


# =============================================================================== regq
class RegqComponent(Component):
    name = "regq"

    def make(self, rng, params):
        owners = list(range(params.get("owners", 4)))
        if "owners" not in params and rng.random() < 0.15:
            # owner ids beyond CPython's small-int cache (equal ints are then distinct objects)
            owners = rng.sample([255, 256, 257, 258, 300, 1000], 4)
        n = gen.big(rng, params.get("maxlen", 7), 60, 0.02)
        reqs = []
        for _ in range(n):
            o = rng.choice(owners)
            r = rng.random()
            if r < 0.25:           # an instruction reading and writing the register
                reqs.append(["R", o])
                reqs.append(["W", o])
            else:
                reqs.append([rng.choice(["R", "R", "W"]), o])
        # a permitted history is built by consulting a throw-away copy of the implementation queue
        return {"reqs": reqs, "walk_seed": rng.randrange(1 << 30), "owners": owners}

    def _ops(self, case):
        import random
        import implrun
        if "ops" in case:
            return case["ops"]
        rng = random.Random(case["walk_seed"])
        ra = implrun.M("reg_access")
        ty = {"R": ra.AccessType.READ, "W": ra.AccessType.WRITE}
        b = ra.RegAccQBuilder()
        for t, o in case["reqs"]:
            b.append(ty[t], o)
        q = b.create()
        ops = []
        owners = case["owners"]
        for _ in range(len(case["reqs"]) + 2):
            for t in "RW":
                for o in owners:
                    ops.append(["can", t, o])
            serv = []
            for o in owners:
                try:
                    if q.can_access(ty["R"], o) or q.can_access(ty["W"], o):
                        serv.append(o)
                except IndexError:
                    pass
            if not serv or rng.random() < 0.05:
                ops.append(["deq", rng.choice(owners)])       # possibly not permitted: must fail the same way
                break
            o = rng.choice(serv)
            ops.append(["deq", o])
            q.dequeue(o)
        return ops

    def run(self, case):
        import implrun
        ops = self._ops(case)
        impl = implrun.run_regq(case["reqs"], ops)
        enc_ops = [[Sym("can"), Sym(o[1]), o[2]] if o[0] == "can" else [Sym("deq"), o[1]] for o in ops]
        iout = [impl[0], [int(x) if isinstance(x, bool) else x for x in impl[1]], impl[2]]
        return [[[Sym(t), o] for t, o in case["reqs"]], enc_ops, iout], {"ops": ops, "out": impl}

    def judge(self, case, impl, res):
        m = jsonable(res["model"][0])
        i = jsonable(impl["out"])
        i[1] = [int(x) if isinstance(x, bool) else x for x in i[1]]
        for k in (0, 2):                        # queue contents: a private attribute, compared when observable
            if str(i[k]) == "unavailable":
                m[k] = i[k]
        ndeq = sum(1 for o in impl["ops"] if o[0] == "deq")
        c = dict(case)
        c["ops"] = impl["ops"]
        return std_report(c, m == i, m, i, checks_of(res), tags=[f"reqs:{len(case['reqs'])}", f"removals:{ndeq}"],
                          nontrivial=len(case["reqs"]) >= 2 and ndeq >= 1, dig=digest([case["reqs"], impl["ops"]]))


# =============================================================================== parse
class ParseComponent(Component):
    name = "parse"

    def make(self, rng, params):
        if "maxlines" not in params and rng.random() < 0.04:
            # BEYOND the modelled (Latin-1) domain: register names that are canonically equivalent in Unicode but
            # different for str.lower (precomposed / combining accents, Ohm / Omega, Kelvin / K, ligatures).  The
            # model is not consulted; the result is compared with the written instructions (first spelling by
            # str.lower, as the property words it) - a search for failing inputs only.
            pool = ["caf\u00e9", "cafe\u0301", "CAF\u00c9", "A\u00f1o", "An\u0303o", "\u2126", "\u03a9", "\u03c9", "K", "\u212a", "k",
                    "\ufb01", "fi", "R1", "r1", "\u00c5", "\u212b", "A\u030a"]
            instrs = gen.rand_instr_list(rng, rng.randint(1, 6), regs=pool)
            return {"lines": gen.render_program(rng, instrs, None), "instrs": instrs, "corrupt": None, "form": "list",
                    "beyond": True}
        instrs = gen.rand_instr_list(rng, gen.big(rng, params.get("maxlines", 8), 1200, 0.02))
        corrupt = None
        r = rng.random()
        if instrs and r < params.get("corrupt", 0.3):
            i = rng.randrange(len(instrs))
            corrupt = ["noops", i] if rng.random() < 0.4 else ["empty", i, rng.randrange(len(instrs[i][1]))]
        lines = gen.render_program(rng, instrs, corrupt)
        return {"lines": lines, "instrs": instrs, "corrupt": corrupt,
                "form": rng.choice(["list", "list", "tuple", "generator", "file"])}

    def run(self, case):
        import implrun
        impl = implrun.run_parse(case["lines"], case.get("form", "list"))
        if case.get("beyond"):
            return [[]], impl                            # the model is not consulted
        return [list(case["lines"])], impl

    def judge(self, case, impl, res):
        if case.get("beyond"):
            i = jsonable(impl)
            exp = self.expected(case)
            return std_report(case, True, exp, i, {"C14": [exp == i, "beyond Latin-1: the written instructions, registers in "
                                                              "their first spelling by str.lower"],
                                                   "C13": [exp == i, "registers matched by lower-cased text only"]},
                              tags=["beyond-latin1"], nontrivial=True)
        m = jsonable(res["model"][0])
        i = jsonable(impl)
        checks = {}
        if str(i[0]) == "err" and i[1][0] == "CodeError" and str(m[0]) == "err":
            # compare class, line, mnemonic; the operand position must be stated in the message
            _, line, ins, msg = i[1]
            _, mline, mins, mk, _mmsg = m[1]
            agree = (line, ins) == (mline, mins)
            msgtag = ["msg:same-text" if msg == _mmsg else "msg:other-wording"]   # wording is not part of C14
            ok = ins in msg and line in ints_in(msg) and (mk == "none" or mk in ints_in(msg))
            checks["C14"] = [ok, "message names mnemonic, line and operand position"]
        else:
            agree = m == i
            msgtag = []
        exp = self.expected(case)
        if exp is not None:
            checks["C14x"] = [exp == i, "result equals the written instructions"]
        return std_report(case, agree, m, i, checks, tags=[f"res:{i[0]}", f"lines:{len(case['lines'])}"] + msgtag,
                          nontrivial=len(case["lines"]) >= 2, sample={"lines": case["lines"]})

    @staticmethod
    def expected(case):
        """independent oracle for generated (not replayed/enumerated) cases: the instruction list that
        was rendered, with registers in their first spelling, sources deduplicated and sorted"""
        if "instrs" not in case or case.get("corrupt"):
            return None
        reg = {}
        out = []
        lineno = 0
        it = iter(case["instrs"])
        for ln in case["lines"]:
            lineno += 1
            if not ln.strip():
                continue
            m, ops = next(it)
            std = [reg.setdefault(o.lower(), o) for o in ops]
            out.append([sorted(set(std[1:])), std[0], m, lineno])
        return ["ok", out]


# =============================================================================== isa
class IsaComponent(Component):
    name = "isa"

    def make(self, rng, params):
        caps = [gen.recase(rng, c, 0.3) for c in gen.CAPS[: gen.big(rng, 3, len(gen.CAPS), 0.04, lo=1)]]
        if rng.random() < 0.15:
            caps.append(gen.recase(rng, caps[0], 1.0))            # two spellings of one capability
        spec = gen.rand_isa(rng, caps)
        mn = [s[0] for s in spec] or ["ADD"]
        prog = []
        for k in range(gen.big(rng, 8, 80, 0.02)):
            name = gen.recase(rng, rng.choice(mn), 0.5) if rng.random() < 0.9 else \
                rng.choice(["FOO", "FOO"] + gen.SPECIAL_TOKENS)
            srcs = sorted({f"R{rng.randint(0, 4)}" for _ in range(rng.randint(0, 3))})
            prog.append([srcs, f"R{rng.randint(0, 4)}", name, k + 1 + rng.randint(0, 2)])
        case = {"spec": spec, "caps": caps, "prog": prog,
                "form": rng.choice(["list", "list", "tuple", "items", "generator", "zip"])}
        if rng.random() < 0.05 and spec:
            # BEYOND the modelled domain of str.upper: mnemonics with sharp s, micro sign, y-diaeresis (their upper
            # forms change length or leave Latin-1).  The model is not consulted; the implementation is compared
            # with the property's wording evaluated by Python's own str.upper / str.lower (oracle stream).
            odd = ["ma\u00df", "\u00b5op", "\u00ffx", "Stra\u00dfe", "MASS", "\u00b5OP"]
            for row in rng.sample(spec, min(len(spec), rng.randint(1, 3))):
                row[0] = rng.choice(odd)
            names = [r[0] for r in spec]
            for ins in prog:
                if rng.random() < 0.6:
                    n0 = rng.choice(names)
                    ins[2] = rng.choice([n0, n0.upper(), n0.lower(), n0.capitalize()])
            case.update(spec=spec, prog=prog, beyond=True, form="list")
            return case
        if len({c.lower() for c in caps}) == len(caps) and rng.random() < 0.3:
            # the ability set in the form get_abilities returns, after the same table was loaded against a
            # differently spelled twin of it that is still alive (hidden state keyed by equal-but-different keys)
            case["form"] = "frozenset"
            case["twin"] = [gen.recase(rng, c, 1.0) for c in caps]
        return case

    def run(self, case):
        import implrun
        impl = implrun.run_isa(case["spec"], case["caps"], case["prog"], case.get("form", "list"), case.get("twin"))
        if case.get("beyond"):
            return [[], [], []], impl                      # the model is not consulted
        return [case["spec"], case["caps"], case["prog"]], impl

    @staticmethod
    def _oracle(case):
        """C15 as worded, evaluated with Python's own case mappings (used beyond the modelled domain only)"""
        std = {}
        for c in case["caps"]:
            std[c.lower()] = c                                    # SelfIndexSet.create: the last spelling wins
        isa = {}
        for mn, cap in case["spec"]:
            if mn.upper() in isa:                                 # (the row's mnemonic is examined before its capability)
                return ["err", "DupElemError", mn], None
            if cap.lower() not in std:
                return ["err", "UndefElemError", cap], None
            isa[mn.upper()] = std[cap.lower()]
        hw = []
        for srcs, dst, name, line in case["prog"]:
            if name.upper() not in isa:
                return ["ok", isa], ["err", "UndefElemError", name]
            hw.append([sorted(set(srcs)), dst, isa[name.upper()]])
        return ["ok", isa], ["ok", hw]

    def judge(self, case, impl, res):
        if case.get("beyond"):
            i = jsonable(impl)
            w1, w2 = self._oracle(case)
            g1 = ["ok", dict(map(tuple, i[0][1]))] if str(i[0][0]) == "ok" else ["err", str(i[0][1][0]), i[0][1][-1]]
            ok = g1[:2] == w1[:2] and (w1[0] == "ok" or str(g1[2]).lower() == str(w1[2]).lower())
            if ok and w2 is not None:
                g2 = ["ok", i[1][1]] if str(i[1][0]) == "ok" else ["err", str(i[1][1][0]), i[1][1][1]]
                ok = g2 == w2
            return std_report(case, True, [w1, w2], i, {"C15": [ok, "beyond Latin-1 upper: instruction set and compilation as the "
                                                              "property words them (str.upper / str.lower)"],
                                                        "C13": [ok, "mnemonics matched ignoring case"]},
                              tags=["beyond-upper"], nontrivial=True)
        m = jsonable(res["model"][0])
        i = jsonable(impl)
        checks = {}
        msgtags = []

        def cmp(mr, ir):
            if str(ir[0]) == "err" and str(mr[0]) == "err":
                fields = ir[1]
                msg = ir[2]
                mf = mr[1]
                if mf[0] == "UndefElemError" and len(mf) == 3:       # compile: name + line (line only in the message)
                    ok = fields[:2] == mf[:2]
                    msgtags.append("msg:same-text" if len(mr) > 2 and mr[2] == msg else "msg:other-wording")
                    checks["C15"] = [mf[1] in msg and mf[2] in ints_in(msg), "message names mnemonic and line"]
                    return ok
                checks.setdefault("C15", [all(str(f) in msg for f in fields[1:]), "message names the culprit"])
                msgtags.append("msg:same-text" if len(mr) > 2 and mr[2] == msg else "msg:other-wording")
                return fields == mf
            if str(mr[0]) == "ok" and str(ir[0]) == "ok" and isinstance(mr[1], list) and all(len(x) == 2 for x in mr[1]):
                return sorted(mr[1]) == sorted(ir[1])           # a dict: entry order is not part of the property
            return mr == ir
        a1 = cmp(m[0], i[0])
        a2 = (m[1] == i[1]) if (str(m[1]) == "none" or str(i[1]) == "none") else cmp(m[1], i[1])
        return std_report(case, a1 and a2, m, i, checks,
                          tags=[f"isa:{i[0][0]}", f"compile:{i[1][0] if isinstance(i[1], list) else i[1]}"] + msgtags,
                          nontrivial=len(case["spec"]) >= 2)


class AbilitiesComponent(Component):
    name = "abilities"

    def make(self, rng, params):
        for _ in range(30):
            d = gen.valid_desc(rng, params.get("nmax", 6))
            import implrun
            tag, p = implrun.load_desc(copy.deepcopy(d))
            if tag == "ok":
                return {"desc": d}
        return None

    def run(self, case):
        import implrun
        tag, p = implrun.load_desc(copy.deepcopy(case["desc"]))
        if tag != "ok":
            raise RuntimeError("description no longer accepted")
        return [implrun.enc_proc(p)], {"proc": implrun.enc_proc(p), "out": implrun.run_abilities(p)}

    def judge(self, case, impl, res):
        m = sorted(jsonable(res["model"][0]))
        i = impl["out"]
        exp = sorted({c for u in impl["proc"][0] + impl["proc"][2] for c in u[2]})
        return std_report(case, m == i, m, i, {"C15": [exp == i, "union of input and in-out port capabilities"]},
                          tags=[f"caps:{len(i)}"], nontrivial=len(i) >= 2)


# =============================================================================== loader
def canon_proc(p):
    """orders removed (no property except C12 speaks of a listing order, and C12 is judged by its own
    checkers): classes sorted by unit name; capability, memory and predecessor lists as sorted lists"""
    def cu(u):
        return [u[0], u[1], sorted(u[2]), u[3], u[4], sorted(u[5])]

    def cf(f):
        return [cu(f[0]), sorted(f[1])]
    return [sorted(cu(u) for u in p[0]), sorted(cf(f) for f in p[1]),
            sorted(cu(u) for u in p[2]), sorted(cf(f) for f in p[3])]


class LoaderComponent(Component):
    name = "loader"

    def make(self, rng, params):
        nmax = params.get("nmax", 7)
        if "nmax" not in params and rng.random() < params.get("deep_chain", 0.003):
            return {"desc": gen.long_chain(rng), "kind": "long-chain"}
        if "nmax" not in params and rng.random() < 0.0015:
            # BEYOND what the extracted model evaluates in reasonable time (it is cubic in the number of units):
            # a plain chain of 1 000 - 1 500 units, deeper than CPython's default recursion limit.  The loaded
            # processor of such a chain is known in closed form; the model is not consulted (oracle stream).
            n = rng.choice([1001, 1200, 1500])
            if rng.random() < 0.5:
                return {"desc": gen.deep_dead_chain(n), "kind": "deep-dead-chain-oracle", "oracle_n": n, "oracle": "dead"}
            return {"desc": gen.plain_deep_chain(n), "kind": "deep-chain-oracle", "oracle_n": n}
        d = gen.valid_desc(rng, nmax) if rng.random() < params.get("valid", 0.6) else gen.rand_desc(rng, nmax)
        kind = "plain"
        r = rng.random()
        dp = params.get("defect", 0.35)
        if r < dp:
            d, kind = gen.inject_defect(rng, d, params.get("defect_kind"))
            if rng.random() < 0.15:
                d, k2 = gen.inject_defect(rng, d)
                kind += "+" + k2
        elif r < dp + params.get("dead", 0.15):
            for _ in range(rng.randint(1, 2)):
                d = gen.graft_dead_branch(rng, d)
            kind = "deadbranch"
        if rng.random() < 0.3:
            d = gen.add_case_noise(rng, d)
        if rng.random() < 0.1:
            d = gen.near_miss_names(rng, d)
        if rng.random() < 0.2:
            d = gen.shuffle_keys(rng, d)
        return {"desc": d, "kind": kind}

    def run(self, case):
        import implrun
        d = copy.deepcopy(case["desc"])
        enc, proc, mutated = implrun.enc_load(d)
        if case.get("oracle_n"):
            tiny = gen.plain_deep_chain(2)
            return [implrun.desc_to_sx(tiny), [Sym("err"), [Sym("unused")]]], {"out": enc, "mutated": mutated}
        return [implrun.desc_to_sx(case["desc"]), enc[:2]], {"out": enc, "mutated": mutated}

    def judge(self, case, impl, res):
        if case.get("oracle") == "dead":
            us = case["desc"]["units"]
            i = jsonable(impl["out"])
            c0 = us[0]["capabilities"][0]
            want = [[[us[0]["name"], 1, [c0], True, True, []]], [[[us[1]["name"], 1, [c0], False, False, []], [us[0]["name"]]]], [], []]
            shape = len(us) >= 4 and us[1]["capabilities"][0].lower() == c0.lower() != us[-1]["capabilities"][0].lower()
            ok = (str(i[0]) == "ok" and canon_proc(i[1]) == canon_proc(want)) or not shape
            verdict = [ok, "a dead-end chain deeper than the recursion limit is trimmed completely: in -> good remains"]
            return std_report(case, True, ["ok"], i[:1], {"C09": verdict, "C10": verdict, "C11": verdict},
                              tags=[f"outcome:{'accepted' if str(i[0]) == 'ok' else i[1][0]}", "kind:deep-dead-chain-oracle"],
                              nontrivial=True)
        if case.get("oracle_n"):
            us = case["desc"]["units"]              # (names may have been re-lettered by the case transformations)
            n = len(us)
            i = jsonable(impl["out"])
            nm = lambda k: us[k]["name"]
            unit = lambda k: [nm(k), 1, [us[0]["capabilities"][0]], k == 0, k == 0, []]   # first spelling
            want = ["ok", [[unit(0)], [[unit(n - 1), [nm(n - 2)]]], [],
                           [[unit(k), [nm(k - 1)]] for k in range(n - 2, 0, -1)]]]
            plain = n >= 3 and all(u["width"] == 1 and len(u["capabilities"]) == 1 and
                                   u["capabilities"][0].lower() == us[0]["capabilities"][0].lower() and
                                   bool(u.get("readLock")) == (k == 0) and bool(u.get("writeLock")) == (k == 0) and
                                   not u.get("memoryAccess") for k, u in enumerate(us)) and \
                len({u["name"].lower() for u in us}) == n and \
                [[a.lower(), b.lower()] for a, b in case["desc"]["dataPath"]] == [[nm(k).lower(), nm(k + 1).lower()] for k in range(n - 1)]
            ok = (canon_proc(i[1]) == canon_proc(want[1]) if str(i[0]) == "ok" else False) or not plain
            verdict = [ok, "a plain chain deeper than the recursion limit loads to itself, sink first"]
            return std_report(case, True, want[:1], i[:1], {"C09": verdict, "C10": verdict, "C11": verdict, "C12": verdict},
                              tags=[f"outcome:{'accepted' if str(i[0]) == 'ok' else i[1][0]}", "kind:deep-chain-oracle"],
                              nontrivial=True)
        m = jsonable(res["model"][0])
        i = jsonable(impl["out"])
        checks = checks_of(res)
        acc = {"acc": str(m[0]) == str(i[0])}
        if str(i[0]) == "ok":
            exact = m == i[:2]
            canon = str(m[0]) == "ok" and canon_proc(m[1]) == canon_proc(i[1])
            agree = {"exact": exact, "canon": canon, "err": str(m[0]) == "ok", **acc}
            outcome = "accepted"
        else:
            cls = i[1][0]
            outcome = cls
            msg = i[2]
            if str(m[0]) != "err" or m[1][0] != cls:
                same = False
            elif cls == "DeadInputError":
                same = i[1][1] in m[1][1]                        # any of the dead ports (set iteration order)
            elif cls == "PathLockError":
                same = i[1][1:4] == m[1][1:4]
            else:
                same = i[1] == m[1]
            # the message: the model's text for its own error (model/Errors.v) when the errors coincide, and in
            # any case the documented template filled with the fields the implementation reported
            msgs = jsonable(res["msgs"][0]) if "msgs" in res else []
            mmsgs = jsonable(res["mmsgs"][0]) if "mmsgs" in res else []
            # The wording of a message is not part of any property: the comparison is made through the projection
            # "which culprit fields does the message contain" (all of them, for the model: theorem
            # C11_message_names_culprit); whether the text is also identical is recorded as a tag only.
            msg_tag = "msg:unmodelled" if not msgs else ("msg:same-text" if msg in msgs and (not same or not mmsgs or msg in mmsgs)
                                                         else "msg:other-wording")
            agree = {"exact": same, "canon": str(m[0]) == "err", "err": same, **acc}
            # C11: the message contains the culprit fields
            flds = [f for f in i[1][1:] if not isinstance(f, list)]
            ok = all(str(f) in msg for f in flds)
            if "C11" in checks:
                checks["C11"] = [checks["C11"][0] and ok, "defect present; message names the culprit"]
        if impl["mutated"]:
            checks["C20"] = [False, "load_proc_desc modified its argument"]
        nun = len(case["desc"]["units"])
        return std_report(case, agree, m, i[:2], checks,
                          tags=[f"outcome:{outcome}", f"kind:{case.get('kind', '?')}", f"units:{nun}"] +
                               ([msg_tag] if str(i[0]) != "ok" else []),
                          nontrivial=nun >= 3, sample={"desc": case["desc"], "outcome": outcome},
                          dig=digest(jsonable(case["desc"])))


class MkprocComponent(Component):
    """ProcessorDesc built from parts supplied in an arbitrary order"""
    name = "mkproc"

    def make(self, rng, params):
        n = gen.big(rng, params.get("nmax", 8), 24, 0.02, lo=1)
        names = rng.sample(rng.choice(gen.NAME_POOLS), n) if n <= 10 else [f"u{i}" for i in range(n)]
        es = gen.rand_dag(rng, n)
        if rng.random() < params.get("cyclic", 0.08) and es:
            a, b = rng.choice(es)
            es.append((b, a))
        preds = {i: sorted({a for a, b in es if b == i}) for i in range(n)}
        succs = {i: sorted({b for a, b in es if a == i}) for i in range(n)}
        unit = lambda i: [names[i], rng.randint(1, 3), ["ALU"], bool(rng.random() < 0.3), bool(rng.random() < 0.3), []]
        us = {i: unit(i) for i in range(n)}
        parts = {"ins": [], "outs": [], "inouts": [], "ints": []}
        for i in range(n):
            pl = [names[p] for p in preds[i]]
            rng.shuffle(pl)
            if preds[i] and succs[i]:
                parts["ints"].append([us[i], pl])
            elif preds[i]:
                parts["outs"].append([us[i], pl])
            elif succs[i]:
                parts["ins"].append(us[i])
            else:
                parts["inouts"].append(us[i])
        for k in parts:
            rng.shuffle(parts[k])
        return {"parts": parts}

    def run(self, case):
        import implrun
        import networkx
        p = case["parts"]
        try:
            proc = implrun.mk_proc_from_parts({"ins": p["ins"], "outs": [tuple(f) for f in p["outs"]],
                                               "inouts": p["inouts"], "ints": [tuple(f) for f in p["ints"]]})
            impl = [Sym("ok"), implrun.enc_proc(proc)]
        except networkx.NetworkXUnfeasible:
            impl = [Sym("err"), [Sym("NetworkXUnfeasible")]]
        return [[p["ins"], p["outs"], p["inouts"], p["ints"]], impl], impl

    def judge(self, case, impl, res):
        m = jsonable(res["model"][0])
        i = jsonable(impl)
        n = sum(len(v) for v in case["parts"].values())
        if str(m[0]) == "ok" and str(i[0]) == "ok":
            agree = {"exact": m == i, "canon": canon_proc(m[1]) == canon_proc(i[1])}
        else:
            agree = {"exact": m == i, "canon": m == i}
        return std_report(case, agree, m, i, checks_of(res), tags=[f"res:{i[0]}", f"units:{n}",
                          f"internal:{len(case['parts']['ints'])}"], nontrivial=len(case["parts"]["ints"]) >= 2)


# =============================================================================== command line / pipeline
def parse_table(text):
    """stdout of the CLI -> (n_cycles, rows) with rows[k] = list of cells; None if malformed"""
    lines = text.split("\n")
    if not lines or lines[-1] != "":
        return None
    lines = lines[:-1]
    if not lines:
        return None
    hdr = lines[0]
    if hdr == '""':
        hdr_cells = [""]
    else:
        hdr_cells = hdr.split("\t")
    if hdr_cells[0] != "":
        return None
    ticks = hdr_cells[1:]
    if ticks != [str(i) for i in range(1, len(ticks) + 1)]:
        return None
    rows = []
    for k, ln in enumerate(lines[1:]):
        cells = ln.split("\t")
        if cells[0] != f"I{k + 1}":
            return None
        rows.append(cells[1:])
    return len(ticks), rows


def table_to_diag(T, rows):
    """canonical diagram (list of records) described by a parsed table"""
    d = [dict() for _ in range(T)]
    for k, cells in enumerate(rows):
        for t, c in enumerate(cells):
            if c == "":
                continue
            if len(c) < 2 or c[1] != ":" or c[0] not in "DSU" or t >= T:
                return None
            d[t].setdefault(c[2:], []).append([k, Sym(c[0])])
    return [sorted([u, sorted(es)] for u, es in r.items()) for r in d]


class _StdoutProxy:
    def __init__(self, real):
        self.real = real
        self.target = None

    def write(self, text):
        return (self.target or self.real).write(text)

    def flush(self):
        return (self.target or self.real).flush()

    def __getattr__(self, name):
        return getattr(self.real, name)


_STDOUT_PROXY = None


class PipelineComponent(Component):
    """processor+ISA YAML and assembly text through the command-line driver (sub-process) and through
    the library, against the model of every stage"""
    name = "pipeline"

    def make(self, rng, params):
        import implrun
        for _ in range(40):
            d = gen.valid_desc(rng, params.get("nmax", 5))
            if any(ch in u["name"] for u in d["units"] for ch in "\t\r\n\""):
                continue
            tag, p = implrun.load_desc(copy.deepcopy(d))
            if tag != "ok":
                continue
            caps = implrun.run_abilities(p)
            spec = gen.rand_isa(rng, caps, n=rng.randint(1, 5), defect=0.0)
            if not spec:
                continue
            instrs = gen.rand_instr_list(rng, rng.randint(0, params.get("plen", 6)), mnems=[s[0] for s in spec])
            instrs = [[gen.recase(rng, rng.choice(spec)[0], 0.4), ops] for _, ops in instrs]
            # most cases call processor_sim.run in this process (same code path below the typer wrapper, no
            # interpreter start-up); one in ten goes through the real command line
            return {"desc": d, "isa": spec, "lines": gen.render_program(rng, instrs),
                    "mode": "cli" if rng.random() < 0.1 else "inproc"}
        return None

    @staticmethod
    def _run_inproc(yp, ap):
        import contextlib
        import io
        import logging
        import os
        import implrun
        import sys
        # the module binds csv.writer(sys.stdout) when it is imported: import it with a forwarding stand-in for
        # sys.stdout whose target can be switched per run (and also redirect sys.stdout itself while running,
        # in case the writer is created later)
        global _STDOUT_PROXY
        if _STDOUT_PROXY is None:
            _STDOUT_PROXY = _StdoutProxy(sys.stdout)
            real, sys.stdout = sys.stdout, _STDOUT_PROXY
            try:
                implrun.M("processor_sim")
            finally:
                sys.stdout = real
        ps = implrun.M("processor_sim")
        import inspect
        run = getattr(ps, "run", None)
        try:
            inspect.signature(run).bind(None, None)
        except (TypeError, ValueError):
            return None          # no two-argument run(): this tree is exercised through the real command line only
        buf = io.StringIO()
        logging.disable(logging.CRITICAL)
        if os.path.getsize(ap) % 5 == 0:
            # history: an earlier run in this process whose output device failed in the middle of the table
            # (disk full / closed pipe); whatever the driver had buffered then must not leak into this run
            class _Full(io.StringIO):
                def write(self, s):
                    if self.tell() + len(s) > 7:
                        raise OSError(28, "No space left on device")
                    return super().write(s)
            full = _Full()
            _STDOUT_PROXY.target = full
            try:
                with contextlib.redirect_stdout(full):
                    ps.run(open(yp), open(ap))       # noqa: SIM115
            except BaseException:  # noqa: BLE001
                pass
        _STDOUT_PROXY.target = buf
        try:
            with contextlib.redirect_stdout(buf):
                ps.run(open(yp), open(ap))           # noqa: SIM115  (run() closes both)
            rc = 0
        except BaseException:  # noqa: BLE001  the command line would exit with status 1
            rc = 1
        finally:
            _STDOUT_PROXY.target = None

        class P:
            returncode = rc
            stdout = buf.getvalue()
        return P

    def run(self, case):
        import implrun
        import os
        import subprocess
        import tempfile
        import yaml
        import engine
        lib = implrun.run_library(case["desc"], case["isa"], case["lines"])
        os.makedirs(engine.WORK, exist_ok=True)
        with tempfile.TemporaryDirectory(dir=engine.WORK) as td:
            yp = os.path.join(td, "P.yaml")
            ap = os.path.join(td, "prog.asm")
            with open(yp, "w") as f:
                yaml.safe_dump({"microarch": case["desc"], "ISA": {k: v for k, v in case["isa"]}}, f)
            with open(ap, "w", newline="") as f:
                f.write("".join(ln if ln.endswith("\n") else ln + "\n" for ln in case["lines"]))
            env = dict(os.environ)
            env["PYTHONPATH"] = os.path.join(engine.HERE, "compat") + os.pathsep + os.path.join(implrun.REPO, "src")
            p = self._run_inproc(yp, ap) if case.get("mode") == "inproc" else None
            if p is not None and p.returncode != 0 and "sim" in lib and str(lib["sim"][0]) == "Done":
                p = None          # the library completes but the in-process call failed: ask the real command line
            if p is None:
                cmd = ["/venv/bin/python", os.path.join(implrun.REPO, "src", "processor_sim.py"), "--processor", yp, ap]
                p = subprocess.run(cmd, capture_output=True, text=True, env=env, timeout=120)
                if p.returncode != 0:
                    # a sub-process can die for reasons that have nothing to do with the code under test (a loaded
                    # machine, a signal): only a failure that repeats is taken as the command line's answer
                    p = subprocess.run(cmd, capture_output=True, text=True, env=env, timeout=240)
        out = {"lib": lib, "rc": p.returncode, "stdout": p.stdout, "stderr_tail": (getattr(p, "stderr", "") or "")[-300:]}
        parsed = parse_table(p.stdout) if p.returncode == 0 else None
        diag = table_to_diag(*parsed) if parsed else None
        out["parsed"] = diag
        args = [implrun.desc_to_sx(case["desc"]), case["isa"],
                [ln if ln.endswith("\n") else ln + "\n" for ln in case["lines"]]]
        if diag is not None:
            args.append([Sym("Done"), diag])
        multi = [{"driver": "pipeline", "args": args}]
        if "sim" in lib and str(lib["sim"][0]) == "Done":
            multi.append({"driver": "table", "args": [lib["sim"][1], len(lib["hw"])]})
        return {"multi": multi}, out

    def judge(self, case, impl, res):
        res_list = res if isinstance(res, list) else [res]
        res = res_list[0]
        m = jsonable(res["model"][0])
        lib = jsonable(impl["lib"])
        completes = "sim" in lib and lib["sim"][0] == "Done"
        checks = {}
        tbl = jsonable(res_list[1]["model"][0]) if len(res_list) > 1 else None
        if completes:
            ok = impl["rc"] == 0 and impl["parsed"] is not None
            # C16: the printed table is exactly the library's diagram, cell by cell
            checks["C16"] = [ok and jsonable(impl["parsed"]) == lib["sim"][1]
                             and self._shape_ok(impl["stdout"], lib["sim"][1], len(lib["hw"])),
                             "printed cells = library diagram"]
            whole = str(m[0]) == "ok" and m[1] == impl["stdout"] and m[2] == lib["proc"] and m[3] == lib["hw"] \
                and m[4] == lib["sim"][1]
            # C16 proper: stdout = the model's rendering of the LIBRARY's diagram
            agree = {"table": tbl is not None and str(tbl[0]) == "ok" and tbl[1] == impl["stdout"], "pipeline": whole}
            if str(m[0]) == "ok" and len(m) > 6 and m[5]:
                for e in m[6][1:]:
                    checks["T" + str(e[0])] = [bool(e[1]), "diagram property on the printed table"]
            mm, ii = m[:5], ["ok", impl["stdout"], lib.get("proc"), lib.get("hw"), lib["sim"][1]]
        else:
            agree = {"table": True, "pipeline": str(m[0]) != "ok"}    # model must not complete either
            mm, ii = m[:2], lib
        ncyc = len(lib["sim"][1]) if completes else 0
        return std_report(case, agree, mm, ii, checks, tags=[f"completes:{int(completes)}", f"rc:{impl['rc']}", f"mode:{case.get('mode', 'cli')}"],
                          in_domain=completes, nontrivial=completes and ncyc >= 3,
                          sample={"stdout": impl["stdout"][:400], "lines": case["lines"]})

    @staticmethod
    def _shape_ok(text, diag, n):
        parsed = parse_table(text)
        if parsed is None:
            return False
        T, rows = parsed
        return T == len(diag) and len(rows) == n


# =============================================================================== re-casing (C13)
def recase_desc(rng, d):
    """change only the letter case of NON-defining name occurrences"""
    d = copy.deepcopy(d)
    seen = set()
    for u in d["units"]:
        newc = []
        for c in u["capabilities"]:
            if c.lower() in seen:
                newc.append(gen.recase(rng, c, 0.8))
            else:
                seen.add(c.lower())
                newc.append(c)
        u["capabilities"] = newc
    for u in d["units"]:
        if "memoryAccess" in u:
            u["memoryAccess"] = [gen.recase(rng, c, 0.8) for c in u["memoryAccess"]]
    d["dataPath"] = [[gen.recase(rng, x, 0.8) for x in e] for e in d["dataPath"]]
    return d


def recase_lines(rng, lines):
    """re-case mnemonics and every register occurrence after its first one"""
    import re
    seen = set()
    out = []
    for ln in lines:
        m = re.match(r"^(\s*)(\S+)(\s+)(.*?)(\s*)$", ln, re.S)
        if not m:
            out.append(ln)
            continue
        lead, mn, sp, ops, tail = m.groups()
        parts = re.split(r"(\s*,\s*)", ops)
        for k in range(0, len(parts), 2):
            key = parts[k].lower()
            if key in seen:
                parts[k] = gen.recase(rng, parts[k], 0.8)
            else:
                seen.add(key)
        out.append(lead + gen.recase(rng, mn, 0.8) + sp + "".join(parts) + tail)
    return out


class RecaseComponent(Component):
    """metamorphic: an input and a re-casing of its non-defining name occurrences give the same loaded
    processor, instruction set, compiled program and diagram (and both agree with the model)"""
    name = "recase"
    driver = "pipeline"

    def make(self, rng, params):
        import implrun
        for _ in range(40):
            d = gen.valid_desc(rng, params.get("nmax", 5))
            if rng.random() < 0.2:
                d, _k = gen.inject_defect(rng, d, rng.choice(["dupname", "undef", "badwidth", "deadinput", "locks"]))
            tag, p = implrun.load_desc(copy.deepcopy(d))
            caps = implrun.run_abilities(p) if tag == "ok" else ["ALU"]
            spec = gen.rand_isa(rng, caps, n=rng.randint(1, 5), defect=0.05)
            instrs = gen.rand_instr_list(rng, rng.randint(0, 6), mnems=[s[0] for s in spec] or ["ADD"])
            if spec:
                instrs = [[rng.choice(spec)[0] if rng.random() < 0.97 else m, ops] for m, ops in instrs]
            lines = gen.render_program(rng, instrs)
            d2 = recase_desc(rng, d)
            spec2 = [[m, gen.recase(rng, c, 0.8)] for m, c in spec]
            lines2 = recase_lines(rng, lines)
            return {"desc": d, "isa": spec, "lines": lines, "desc2": d2, "isa2": spec2, "lines2": lines2}
        return None

    def run(self, case):
        import implrun
        l1 = implrun.run_library(case["desc"], case["isa"], case["lines"])
        l2 = implrun.run_library(case["desc2"], case["isa2"], case["lines2"])
        nl = lambda ls: [ln if ln.endswith("\n") else ln + "\n" for ln in ls]
        return {"multi": [[implrun.desc_to_sx(case["desc"]), case["isa"], nl(case["lines"])],
                          [implrun.desc_to_sx(case["desc2"]), case["isa2"], nl(case["lines2"])]]}, [l1, l2]

    def judge(self, case, impl, res):
        l1, l2 = jsonable(impl[0]), jsonable(impl[1])
        m1, m2 = jsonable(res[0]["model"][0]), jsonable(res[1]["model"][0])

        def norm(l):
            if "err" in l:
                return ["err", l["err"][0]]
            return [l["proc"], l["hw"], l["sim"]]

        def norm_m(m):
            if str(m[0]) == "ok":
                return [m[2], m[3], ["Done", m[4]]]
            return m
        same = norm(l1) == norm(l2) and l1.get("isa") == l2.get("isa")
        # errors must also report the same (first-spelling) culprit
        if "err" in l1 and "err" in l2:
            low = lambda x: jsonable(x).lower() if isinstance(x, str) else \
                ({k: low(v) for k, v in x.items()} if isinstance(x, dict) else
                 ([low(v) for v in x] if isinstance(x, list) else x))
            same = same and low(l1["err"][:2]) == low(l2["err"][:2])
        def agree_one(l, m, canon):
            if "err" in l:
                return str(m[0]) == "err"
            if l["sim"][0] != "Done":
                return str(m[0]) == "err"
            if canon:
                if str(m[0]) != "ok":
                    return False
                return canon_proc(m[2]) == canon_proc(l["proc"]) and m[3] == l["hw"] and \
                    (m[2] != l["proc"] or m[4] == l["sim"][1])
            return norm_m(m) == norm(l)
        agree = {"exact": agree_one(l1, m1, False) and agree_one(l2, m2, False),
                 "canon": agree_one(l1, m1, True) and agree_one(l2, m2, True)}
        rep = std_report(case, agree, [m1[:2], m2[:2]], [norm(l1), norm(l2)], {},
                         tags=["res:" + ("err" if "err" in l1 else str(l1["sim"][0]))],
                         nontrivial=case["desc"] != case["desc2"] or case["lines"] != case["lines2"])
        if not same:
            rep["meta_fail"] = "re-casing non-defining occurrences changed the result"
            rep["impl"] = {"original": l1, "recased": l2}
        return rep


class HwloadComponent(Component):
    """hw_loading.read_processor on a YAML text: processor + instruction set in one go"""
    name = "hwload"

    def make(self, rng, params):
        import implrun
        for _ in range(30):
            d = gen.valid_desc(rng, params.get("nmax", 5))
            tag, p = implrun.load_desc(copy.deepcopy(d))
            if tag != "ok" and rng.random() < 0.8:
                continue
            caps = implrun.run_abilities(p) if tag == "ok" else ["ALU"]
            spec = gen.rand_isa(rng, caps, defect=0.1)
            if len({m for m, _ in spec}) != len(spec):
                continue                                   # a YAML mapping cannot repeat a key
            return {"desc": d, "isa": spec}
        return None

    def run(self, case):
        import implrun
        import io
        import yaml
        hl = implrun.M("hw_loading")
        text = yaml.safe_dump({"microarch": case["desc"], "ISA": {k: v for k, v in case["isa"]}}, sort_keys=False)
        src = lambda: io.StringIO(text)
        import re
        mw = re.search(r"width: (\d)\n", text)
        tmp = None
        if len(text) % 3 == 0 and mw:
            # history: the description is read from a disk FILE whose path was loaded just before with other contents
            # of the same length and whose time stamps were put back (cp -p / rsync -t / a coarse clock): anything
            # that remembers files by their metadata returns the old processor
            import os
            import tempfile
            import engine
            try:
                os.makedirs(engine.WORK, exist_ok=True)
                fd, tmp = tempfile.mkstemp(dir=engine.WORK, suffix=".yaml")
                decoy = text[:mw.start(1)] + str(int(mw.group(1)) % 9 + 1) + text[mw.end(1):]
                with os.fdopen(fd, "w") as f:
                    f.write(decoy)
                st = os.stat(tmp)
                try:
                    with open(tmp) as f:
                        implrun.with_timeout(hl.read_processor, f)
                except Exception:  # noqa: BLE001
                    pass
                with open(tmp, "r+") as f:
                    f.write(text)
                os.utime(tmp, ns=(st.st_atime_ns, st.st_mtime_ns))
                src = lambda: open(tmp)             # noqa: SIM115
            except OSError:
                src = lambda: io.StringIO(text)
        try:
            with src() as fobj:
                hd = implrun.with_timeout(hl.read_processor, fobj)
            out = [Sym("ok"), implrun.enc_proc(hd.processor), [[k, v] for k, v in hd.isa.items()]]
        except Exception as e:  # noqa: BLE001
            cls, f, msg = implrun.exc_info(e)
            out = [Sym("err"), [Sym(cls)], msg]
        finally:
            if tmp:
                try:
                    import os
                    os.remove(tmp)
                except OSError:
                    pass
        return [implrun.desc_to_sx(case["desc"]), case["isa"]], out

    def judge(self, case, impl, res):
        m = jsonable(res["model"][0])
        i = jsonable(impl)
        if str(i[0]) == "ok":
            agree = str(m[0]) == "ok" and canon_proc(m[1]) == canon_proc(i[1]) and sorted(m[2]) == sorted(i[2])
        else:
            agree = str(m[0]) == "err" and m[1][0] == i[1][0]
        return std_report(case, agree, m, i, {}, tags=[f"res:{i[0]}" + ("" if str(i[0]) == "ok" else ":" + str(i[1][0]))],
                          nontrivial=str(i[0]) == "ok" and len(case["isa"]) >= 2)



# =============================================================================== flow analysis (C09/C11)
class FlowComponent(Component):
    """the bus-width analysis behind BlockedCapError, step by step (model/Flow.v against the private helpers
    of processor_utils._checks / cap_anal_utils), and its abstraction Loader.chk_flow"""
    name = "flow"

    def make(self, rng, params):
        n = gen.big(rng, params.get("nmax", 7), 18, 0.03, lo=2)      # the loader runs the analysis for > 1 unit
        names = rng.sample(rng.choice(gen.NAME_POOLS), n) if n <= 10 else [f"n{i}" for i in range(n)]
        order = list(range(n))
        rng.shuffle(order)                       # listing order independent of the topological order
        es = gen.rand_dag(rng, n, pedge=rng.choice([0.2, 0.35, 0.6]))
        caps = gen.CAPS[: rng.randint(1, 3)]
        wmax = 9 if rng.random() < 0.05 else 3
        units = []
        for i in order:
            c = [x for x in caps if rng.random() < 0.7] or [rng.choice(caps)]
            units.append([names[i], rng.randint(1, wmax), c])
        edges = [[names[a], names[b]] for a, b in es]
        rng.shuffle(edges)
        cap = rng.choice(caps)
        tg = {e[1] for e in edges}
        sr = {e[0] for e in edges}
        outs = [u[0] for u in units if u[0] not in sr]
        ins = [u[0] for u in units if u[0] not in tg and cap in u[2]]
        return {"units": units, "edges": edges, "cap": cap, "outs": outs, "ins": ins}

    def run(self, case):
        import implrun
        impl = implrun.run_flow(case["units"], [tuple(e) for e in case["edges"]], case["cap"], case["outs"], case["ins"])
        return [case["units"], case["edges"], case["cap"], case["outs"], case["ins"]], impl

    def judge(self, case, impl, res):
        m = jsonable(res["model"][0])
        i = jsonable(impl)
        nodes_m, caps_m, t_m, flows_m, abs_m, det_m = m
        nodes_i, caps_i, t_i, flows_i, verdict_i = i
        if str(verdict_i) == "unavailable":
            # the private helpers are gone or changed shape: nothing to compare (the loader stream decides)
            return std_report(case, True, m, i, {}, tags=["flow:private-helpers-unavailable"], in_domain=False,
                              nontrivial=False)
        if str(nodes_i) == "unavailable":
            nodes_i, caps_i, t_i, flows_i = nodes_m, caps_m, t_m, flows_m       # steps not observable
            steps_tag = ["flow:steps-unavailable"]
        else:
            steps_tag = []
        graph_same = nodes_m == nodes_i and sorted(caps_m) == sorted(caps_i) and t_m == t_i
        if isinstance(det_m, list) and str(det_m[0]) == "crash":
            det_m = ["crash", {"error": "NetworkXError", "unbounded": "NetworkXUnbounded"}.get(str(det_m[2]), str(det_m[2]))]
        agree = {"graph": graph_same, "flows": flows_m == flows_i, "detailed": det_m == verdict_i,
                 "abstract": abs_m == verdict_i}
        agree["verdict"] = agree["detailed"] and agree["abstract"]
        kinds = sorted({str(f[1]) for f in flows_i}) or ["noports"]
        return std_report(case, agree, m, i, {}, tags=[f"verdict:{verdict_i[0] if isinstance(verdict_i, list) else verdict_i}",
                                                       f"nodes:{len(nodes_i)}", f"split:{len(nodes_i) - len(case['units'])}"] +
                          [f"flow:{k}" for k in kinds] + steps_tag,
                          nontrivial=len(case["units"]) >= 3 and bool(case["ins"]))


COMPONENTS = {c.name: c for c in [FlowComponent(), HwloadComponent(), SimComponent(), IcaseComponent(), BagComponent(), RegqComponent(),
                                  ParseComponent(), IsaComponent(), AbilitiesComponent(), LoaderComponent(),
                                  MkprocComponent(), PipelineComponent(), RecaseComponent()]}
