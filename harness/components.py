"""Components: for each modelled part of /repo, how to make a case, run the implementation on
it, and judge the implementation's output against the extracted model's output and the
extracted (verified) checkers.  Cases are plain JSON-able data so that they can be replayed."""
import copy

import gen
import sx
from sx import Sym
from engine import digest


def jsonable(x):
    if isinstance(x, Sym):
        return str(x)
    if isinstance(x, (list, tuple)):
        return [jsonable(y) for y in x]
    if isinstance(x, dict):
        return {str(k): jsonable(v) for k, v in x.items()}
    return x


def checks_of(res):
    """driver 'chk' entry -> {Cxx: [ok(bool), clause(str)]}"""
    out = {}
    for e in res.get("chk", []):
        out[str(e[0])] = [bool(e[1]), str(e[2]) if len(e) > 2 else ""]
    return out


class Component:
    name = ""

    def make(self, rng, params):
        raise NotImplementedError

    def run(self, case):
        raise NotImplementedError

    def judge(self, case, impl, res):
        raise NotImplementedError


# =============================================================================== sim
class SimComponent(Component):
    """(processor, program) -> diagram.  Processor obtained either by loading a generated
    description with the implementation's loader or by building it from parts."""
    name = "sim"

    def make(self, rng, params):
        kind = rng.choice(params.get("kinds", ["loaded", "loaded", "parts"]))
        nmax = params.get("nmax", 6)
        for _ in range(30):
            d = gen.valid_desc(rng, nmax, wmax=params.get("wmax", 3), mem_p=params.get("mem_p", 0.3))
            case = {"kind": kind, "desc": d, "perm_seed": rng.randrange(1 << 30)}
            proc = self._proc(case)
            if proc is not None:
                break
        else:
            return None
        caps = sorted({c for u in (list(proc.in_ports) + list(proc.in_out_ports)) for c in u.capabilities})
        allcaps = sorted({c for u in d["units"] for c in u["capabilities"]})
        r = rng.random()
        bad = params.get("bad", 0.05) if r < 0.3 else 0.0
        pool = caps if rng.random() < 0.8 or not allcaps else allcaps
        case["prog"] = [[list(p[0]), p[1], p[2]] for p in
                        gen.rand_prog(rng, pool, nmax=params.get("plen", 8), bad=bad,
                                      selfdep=params.get("selfdep", 0.3))]
        return case

    def _proc(self, case):
        import implrun
        tag, p = implrun.load_desc(copy.deepcopy(case["desc"]))
        if tag != "ok":
            return None
        if case["kind"] == "parts":
            # rebuild from parts in a shuffled order through the public constructors
            import random
            rng = random.Random(case["perm_seed"])
            enc = implrun.enc_proc(p)
            parts = {"ins": enc[0], "outs": [(f[0], f[1]) for f in enc[1]], "inouts": enc[2],
                     "ints": [(f[0], f[1]) for f in enc[3]]}
            for k in parts:
                parts[k] = list(parts[k])
                rng.shuffle(parts[k])
            parts["outs"] = [(f[0], rng.sample(f[1], len(f[1]))) for f in parts["outs"]]
            parts["ints"] = [(f[0], rng.sample(f[1], len(f[1]))) for f in parts["ints"]]
            p = implrun.mk_proc_from_parts(parts)
        return p

    def run(self, case):
        import implrun
        proc = self._proc(case)
        if proc is None:
            raise RuntimeError("description no longer accepted by the loader")
        hw = implrun.mk_hwprog([(tuple(s), d, c) for s, d, c in case["prog"]])
        encp = implrun.enc_proc(proc)
        encprog = implrun.enc_hwprog(hw)
        out = implrun.run_sim_obj(proc, hw)
        return [encp, encprog, out], {"proc": encp, "prog": encprog, "out": out}

    def judge(self, case, impl, res):
        model = res["model"][0]
        wf = bool(res["wf"][0]) if "wf" in res else True
        out = impl["out"]
        agree = jsonable(model) == jsonable(out)
        tag = str(out[0])
        ncyc = len(out[1]) if len(out) > 1 and isinstance(out[1], list) else 0
        nun = sum(len(x) for x in impl["proc"])
        labels = {str(e[1]) for r in (out[1] if ncyc else []) for _, es in r for e in es}
        tags = [f"outcome:{tag}", f"wf:{int(wf)}", f"kind:{case['kind']}", f"units:{nun}",
                f"prog:{len(impl['prog'])}"] + [f"label:{l}" for l in sorted(labels)]
        return {
            "agree": agree,
            "in_domain": wf,
            "diff": None if agree else {"model": jsonable(model), "impl": jsonable(out)},
            "checks": checks_of(res),
            "tags": tags,
            "nontrivial": wf and len(impl["prog"]) >= 2 and ncyc >= 3,
            "digest": digest([jsonable(impl["proc"]), jsonable(impl["prog"])]),
            "sample": {"processor": jsonable(impl["proc"]), "program": jsonable(impl["prog"]),
                       "outcome": tag, "cycles": ncyc},
            "case": case,
            "impl": jsonable(impl),
        }


COMPONENTS = {c.name: c for c in [SimComponent()]}
