"""Was the fastcore-1.7 shim needed (and hence active) in this environment?"""
import os
import sys


def shim_active():
    sys.path.insert(0, os.path.join(os.path.dirname(os.path.abspath(__file__)), "compat"))
    try:
        import fastcore_self
        return bool(fastcore_self.ACTIVE)
    except Exception:  # noqa: BLE001
        return None
