#!/venv/bin/python
"""Development aid: which lines of /repo/src do the harness's implementation runs execute?"""
import os, sys
HERE = os.path.dirname(os.path.abspath(__file__))
sys.path.insert(0, HERE)
import coverage
cov = coverage.Coverage(source=["/repo/src"], branch=True, data_file=None)
cov.start()
import engine, components
N = int(sys.argv[1]) if len(sys.argv) > 1 else 300
for name, comp in components.COMPONENTS.items():
    n = N if name not in ("pipeline",) else 10
    for i in range(n):
        c = comp.make(engine.case_rng(0, name, i), {})
        if c is None:
            continue
        try:
            comp.run(c)
        except Exception as e:  # noqa
            pass
cov.stop()
cov.report(show_missing=True, skip_covered=False)
