#!/bin/sh
# MANIFEST.setup_cmd: full .vo build of the Coq development, extraction, OCaml driver.  Offline.
set -e
python3 /verif/harness/gen_coqproject.py >/dev/null
cd /verif/coq
coq_makefile -f _CoqProject -o Makefile >/dev/null
timeout 5400 make -j16 2>&1 | grep -v 'Cannot open' | tail -5
cd /verif/ocaml && ./build.sh
test -x /verif/ocaml/driver.exe && echo setup-ok
