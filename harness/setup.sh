#!/bin/sh
# MANIFEST.setup_cmd: full .vo build of the Coq development, extraction, OCaml driver.  Offline.
set -e
ROOT=$(cd "$(dirname "$0")/.." && pwd)
python3 "$ROOT/harness/gen_coqproject.py" >/dev/null
cd "$ROOT/coq"
coq_makefile -f _CoqProject -o Makefile >/dev/null
if ! timeout 5400 make -j16 > "$ROOT/coq/make.log" 2>&1; then
  grep -v 'Cannot open' "$ROOT/coq/make.log" | tail -30
  echo "setup: coq build failed"
  exit 1
fi
# source refinement of reg_access.py (translator + PyLite proofs); never fatal: see harness/srcref.py
python3 "$ROOT/harness/srcref.py" | grep -E '"status"' || true
cd "$ROOT/ocaml" && ./build.sh
test -x "$ROOT/ocaml/driver.exe" && echo setup-ok
