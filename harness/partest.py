#!/venv/bin/python
"""partest.py [-j N] [--props C01,C02|all|own] <stored seeded name>...
Runs the quick checks against stored seeded changes (breaking or harmless) WITHOUT touching /repo: each
change is applied to its own scratch worktree of /repo's HEAD under /tmp/pt/<name>, and the checks are pointed
at it through the VERIF_REPO environment variable (honoured by implrun.py and fingerprint.py; the registered
commands never set it, so they always check /repo itself).  Several changes run side by side.  Development aid."""
import concurrent.futures
import json
import os
import re
import subprocess
import sys

V = "/verif"
ALL = [f"C{i:02d}" for i in range(1, 21)]


def sh(cmd, **kw):
    return subprocess.run(cmd, shell=True, capture_output=True, text=True, **kw)


def one(name, props):
    d = os.path.join(V, "seeded", name)
    meta = json.load(open(os.path.join(d, "meta.json")))
    wt = f"/tmp/pt/{name}"
    sh(f"git -C /repo worktree remove --force {wt}")
    r = sh(f"git -C /repo worktree add -q --detach {wt} HEAD && git -C {wt} apply {d}/patch.diff")
    if r.returncode != 0:
        return name, {"error": r.stderr[-300:]}
    env = dict(os.environ, VERIF_REPO=wt, VERIF_EVIDENCE_DIR=os.path.join(V, ".work", "evidence-pt-" + name))
    if props == "own":
        plist = [meta["property"]] if "property" in meta else ALL
    else:
        plist = ALL if props == "all" else props.split(",")
    out = {}
    try:
        for p in plist:
            r = sh(f"/venv/bin/python harness/check.py {p} --tier quick", cwd=V, env=env, timeout=7200)
            m = re.search(r"VIOLATION property=\S+ replay=\S+(.*)", r.stdout)
            out[p] = "quiet" if not m else ("corr-only" if "no-failing-input-found" in m.group(1) else "direct")
    finally:
        sh(f"git -C /repo worktree remove --force {wt}")
    return name, out


def main():
    args = sys.argv[1:]
    j, props = 3, "own"
    while args and args[0].startswith("-"):
        if args[0] == "-j":
            j = int(args[1]); args = args[2:]
        elif args[0] == "--props":
            props = args[1]; args = args[2:]
    os.makedirs("/tmp/pt", exist_ok=True)
    with concurrent.futures.ThreadPoolExecutor(j) as ex:
        for name, out in ex.map(lambda n: one(n, props), args):
            alarms = sorted(p for p, v in out.items() if v in ("direct", "corr-only"))
            print(json.dumps({"name": name, "alarms": alarms, "detail": out}), flush=True)
    sh("git -C /repo worktree prune")


if __name__ == "__main__":
    main()
