"""C09/C10 spec-level checker prototype against the implementation with the D2 repair."""
import random, sys, copy
sys.argv=[sys.argv[0]]+sys.argv[1:]
from gen import *
from processor_utils import _optimization, _port_defs
def chk_terminals(processor, orig):
    while True:
        new=frozenset(_port_defs.get_out_ports(processor)).difference(orig.out_ports)
        if not new: break
        for o in new: _optimization._rm_dead_end(processor,o,orig.in_ports)
if 'nofix' not in sys.argv: _optimization.chk_terminals=chk_terminals
low=str.lower
def spec(d):
    """returns expected (units->caps, preds, in/out classification) or None if spec can't decide (errors)"""
    us=d["units"]; names=[u["name"] for u in us]
    std={}
    decl={}
    for u in us:
        cs=[]
        for c in u["capabilities"]:
            std.setdefault(low(c),c)
            if std[low(c)] not in cs: cs.append(std[low(c)])
        decl[u["name"]]=set(cs)
    E=set((a,b) for a,b in d["dataPath"])
    pred={n:[a for a,b in E if b==n] for n in names}; succ={n:[b for a,b in E if a==n] for n in names}
    ins=[n for n in names if not pred[n]]; O=[n for n in names if not succ[n]]
    # F by fixpoint
    F={n:(set(decl[n]) if n in ins else set()) for n in names}
    ch=True
    while ch:
        ch=False
        for n in names:
            if n in ins: continue
            new=set()
            for p in pred[n]: new|=F[p]&decl[n]
            if new!=F[n]: F[n]=new; ch=True
    U1=[n for n in names if F[n]]
    E1=set((a,b) for a,b in E if F[a]&F[b])
    # co-reach O∩U1
    keep=set(o for o in O if o in U1)
    ch=True
    while ch:
        ch=False
        for a,b in E1:
            if b in keep and a not in keep and a in U1: keep.add(a); ch=True
    return F,keep,E1,ins,O
rng=random.Random(int(sys.argv[1])); N=int(sys.argv[2]); ok=0; bad=0
def add_dead(rng,d):
    # graft a dead branch of depth 1-3 ending in a unit with a foreign capability
    if rng.random()<0.5 and d["units"]:
        host=rng.choice(d["units"]); caps=host["capabilities"]
        prev=host["name"]; depth=rng.randint(1,3)
        for k in range(depth):
            nm=f"d{k}"; last=(k==depth-1)
            d["units"].append({"name":nm,"width":1,"capabilities":(["ZZZ"] if last else list(caps)),"readLock":False,"writeLock":False,"memoryAccess":[]})
            d["dataPath"].append([prev,nm]); prev=nm
    return d
for it in range(N):
    d=add_dead(rng, smart_locks(rng, rand_desc(rng,7)))
    try: p=processor_utils.load_proc_desc(d)
    except Exception as e: continue
    F,keep,E1,ins,O=spec(d)
    got={}
    allu=[(m,()) for m in list(p.in_ports)+list(p.in_out_ports)]+[(f.model,tuple(x.name for x in f.predecessors)) for f in list(p.out_ports)+list(p.internal_units)]
    errs=[]
    if {m.name for m,_ in allu}!=keep: errs.append(('units',sorted(m.name for m,_ in allu),sorted(keep)))
    for m,pr in allu:
        if m.name in keep:
            if set(m.capabilities)!=F[m.name]: errs.append(('caps',m.name))
            exp=sorted(a for a,b in E1 if b==m.name and a in keep)
            if sorted(pr)!=exp: errs.append(('preds',m.name,pr,exp))
    for m in list(p.in_ports)+list(p.in_out_ports):
        if m.name not in ins: errs.append(('inport',m.name))
    for f in p.out_ports:
        if f.model.name not in O: errs.append(('outport',f.model.name))
    for m in p.in_out_ports:
        if m.name not in O: errs.append(('inoutport',m.name))
    if errs:
        bad+=1
        if bad<4: print("C10 VIOL",errs,d)
    else: ok+=1
print("ok",ok,"bad",bad)
