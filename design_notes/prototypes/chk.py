"""Prototype diagram checkers for C01..C08 (to become Coq boolean checkers)."""
import pm
def proc_info(P):
    units={}; preds={}; 
    for u in P['in_ports']+P['in_out']: units[u.name]=u; preds[u.name]=[]
    for u,pr in P['out_ports']+P['internal']: units[u.name]=u; preds[u.name]=list(pr)
    succs={k:[] for k in units}
    for k,pr in preds.items():
        for p in pr: succs[p].append(k)
    ins={u.name for u in P['in_ports']+P['in_out']}
    outs={u.name for u in P['in_out']}|{u.name for u,_ in P['out_ports']}
    return units,preds,succs,ins,outs

def routes_wellformed(P):
    """every cap route from an in-port: exactly one rlock unit, exactly one wlock unit, r not after w"""
    units,preds,succs,ins,outs=proc_info(P)
    ok=True
    def walk(u,cap,r,w,bad):
        nonlocal ok
        x=units[u]
        if x.rl:
            r+=1
            if w>0: ok=False  # read after write
        if x.wl: w+=1
        nxt=[s for s in succs[u] if cap in units[s].caps]
        if not nxt:
            if r!=1 or w!=1: ok=False
        for s in nxt: walk(s,cap,r,w,bad)
    for i in ins:
        for cap in units[i].caps: walk(i,cap,0,0,False)
    return ok

def positions(tbl):
    """instr -> list of (cycle, unit, label)"""
    pos={}
    for t,c in enumerate(tbl):
        for u,l in c:
            for (i,lab) in l: pos.setdefault(i,[]).append((t,u,lab))
    return pos

def check_all(P, prog, tag, tbl):
    """tbl canonical: list of sorted [(unit, sorted[(instr,label)])]. returns list of violated property ids"""
    units,preds,succs,ins,outs=proc_info(P)
    bad=[]
    pos=positions(tbl)
    n=len(prog)
    T=len(tbl)
    # C04 width
    for t,c in enumerate(tbl):
        for u,l in c:
            if len(l)>units[u].width: bad.append(('C04',t,u))
    # C03 route
    issued=sorted(pos)
    if issued!=list(range(len(issued))): bad.append(('C03','issued-not-prefix',issued))
    if tag=='OK' and len(issued)!=n: bad.append(('C03','not all',))
    for i,ps in pos.items():
        cyc=[t for t,_,_ in ps]
        if cyc!=list(range(cyc[0],cyc[0]+len(cyc))): bad.append(('C03','gap/dup',i)); continue
        if ps[0][1] not in ins: bad.append(('C03','start-not-in',i))
        cap=prog[i][2]
        # segments per unit
        segs=[]
        for t,u,lab in ps:
            if segs and segs[-1][0]==u: segs[-1][1].append(lab)
            else: segs.append((u,[lab]))
        for k,(u,labs) in enumerate(segs):
            if cap not in units[u].caps: bad.append(('C03','cap',i,u))
            if k>0 and segs[k-1][0] not in preds[u]: bad.append(('C03','edge',i,u))
            s=''.join(labs)
            last = (k==len(segs)-1)
            import re
            if last and tag=='STALL':
                if not re.fullmatch(r'D*(US*)?',s): bad.append(('C03','labels',i,u,s))
            else:
                if not re.fullmatch(r'D*US*',s): bad.append(('C03','labels',i,u,s))
        if tag=='OK':
            if segs[-1][0] not in outs or ps[-1][2]!='U': bad.append(('C03','end',i))
        if len({u for u,_ in segs})!=len(segs): bad.append(('C03','revisit',i))
    # C05 mem port
    for t,c in enumerate(tbl):
        cnt=0
        for u,l in c:
            for (i,lab) in l:
                first = not any(tt==t-1 and uu==u for tt,uu,_ in pos[i])
                if first and prog[i][2] in units[u].mem: cnt+=1
        if cnt>1: bad.append(('C05',t))
    # access times
    def acc_time(i,kind):
        for t,u,lab in pos.get(i,[]):
            if lab=='U' and ((kind=='R' and units[u].rl) or (kind=='W' and units[u].wl)): return t
        return None
    # C01 hazards
    for i in range(n):
        for j in range(i+1,n):
            si,di,_=prog[i]; sj,dj,_=prog[j]
            pairs=[]
            if di in sj: pairs.append(('W','R'))   # RAW
            if dj in si: pairs.append(('R','W'))   # WAR
            if di==dj: pairs.append(('W','W'))
            for ki,kj in pairs:
                ti=acc_time(i,ki); tj=acc_time(j,kj)
                if tj is not None and (ti is None or not ti<tj): bad.append(('C01',i,j,ki,kj,ti,tj))
    # C02 exactness of data stalls
    # done-before(t): access of instr k of kind performed at cycle < t
    def done_before(k,kind,t):
        a=acc_time(k,kind); return a is not None and a<t
    for i,ps in pos.items():
        srcs,dst,cap=prog[i]
        for idx,(t,u,lab) in enumerate(ps):
            x=units[u]
            prev = ps[idx-1] if idx>0 else None
            arriving = prev is None or prev[1]!=u
            waiting = (not arriving) and prev[2]=='D'
            if not (arriving or waiting): 
                if lab!='S': bad.append(('C02','expectS',i,t,u,lab))
                continue
            blocked=False
            if x.rl:
                for r in srcs:
                    for k in range(i):
                        if prog[k][1]==r and not done_before(k,'W',t): blocked=True
            if x.wl:
                for k in range(i):
                    if dst in prog[k][0] and not done_before(k,'R',t): blocked=True
                    if prog[k][1]==dst and not done_before(k,'W',t): blocked=True
                # own read of dst must be done before or granted together (same unit with rl)
                if dst in srcs and not x.rl and not done_before(i,'R',t): blocked=True
            exp='D' if blocked else 'U'
            if lab!=exp: bad.append(('C02',i,t,u,lab,exp))
    # C06 in-order eager issue
    first={i:ps[0] for i,ps in pos.items()}
    for i in range(1,len(issued)):
        if first[i][0]<first[i-1][0]: bad.append(('C06','order',i))
    def occ(t,u):
        for uu,l in tbl[t]:
            if uu==u: return l
        return []
    def entered_at(t):
        """instrs that enter a mem-needing unit at cycle t: list of (instr, unit)"""
        r=[]
        for u,l in tbl[t]:
            for (i,lab) in l:
                firstc = not any(tt==t-1 and uu==u for tt,uu,_ in pos[i])
                if firstc and prog[i][2] in units[u].mem: r.append((i,u))
        return r
    inorder=sorted(ins)
    for i in range(n):
        if i in first:
            t0,u0,_=first[i]
            start = first[i-1][0] if i>0 else 0
        else:
            if i>0 and (i-1) not in first: continue
            t0=T; u0=None; start= first[i-1][0] if i>0 else 0
        cap=prog[i][2]
        cand=[u for u in inorder if cap in units[u].caps]
        if u0 is not None and u0 not in cand: bad.append(('C06','port-cap',i,u0))
        # held back in cycles start..t0-1 : every candidate port full at end of cycle or mem taken
        for t in range(start,t0):
            for u in cand:
                full = len(occ(t,u))>=units[u].width
                memtaken = cap in units[u].mem and len(entered_at(t))>0
                if not(full or memtaken): bad.append(('C06','held',i,t,u))
        if u0 is not None:
            # chosen port first in name order among those that could take it
            for u in cand:
                if u==u0: break
                # u earlier: must be full (counting only those there before i entered: instrs < i) or mem-blocked
                l=occ(t0,u)
                full = len([x for x in l if x[0]<i])>=units[u].width
                memtaken = cap in units[u].mem and any(k!=i for k,_ in entered_at(t0) if k<i or True)
                if not(full or memtaken): bad.append(('C06','first-port',i,t0,u,u0))
    # C07 eager advance
    for i,ps in pos.items():
        cap=prog[i][2]
        for idx,(t,u,lab) in enumerate(ps):
            if lab=='D': continue
            nxt = ps[idx+1] if idx+1<len(ps) else None
            if u in outs:
                if nxt is not None and t+1<T: bad.append(('C07','out-stays',i,t,u))
                continue
            if nxt is not None and nxt[1]==u:
                if nxt[2]!='S': bad.append(('C07','label',i,t)); 
                for s in succs[u]:
                    if cap not in units[s].caps: continue
                    full=len(occ(t+1,s))>=units[s].width
                    memtaken = cap in units[s].mem and any(k!=i for k,_ in entered_at(t+1))
                    if not(full or memtaken): bad.append(('C07','stay',i,t+1,u,s))
                    # oldest first: no younger instr entered s at t+1 (from a pred) while i could use it, unless only i needed busy mem
                    for (j,labj) in occ(t+1,s):
                        if j>i and not any(tt==t and uu==s for tt,uu,_ in pos[j]):
                            # j entered s at t+1, younger than i
                            i_needs = cap in units[s].mem
                            j_needs = prog[j][2] in units[s].mem
                            if not(i_needs and not j_needs): bad.append(('C07','overtake',i,j,t+1,s))
    # C08 bound / stall genuineness
    nunits=len(units)
    if T>n*(3*nunits+1)+1: bad.append(('C08','bound',T))
    return bad
