import sys
sys.path.insert(0,'/repo/src')
import reg_access
from reg_access import AccessType
def can_access(self, req_type, req_owner):
    front=self._queue[-1]
    if req_type == front.access_type and req_owner in front.reqs: return True
    return (req_type==AccessType.WRITE and front.access_type==AccessType.READ and front.reqs=={req_owner}
            and len(self._queue)>1 and self._queue[-2].access_type==AccessType.WRITE and req_owner in self._queue[-2].reqs)
reg_access.RegAccessQueue.can_access=can_access
