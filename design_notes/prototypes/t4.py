import random, sys, copy, io
from gen import *
from t3 import canon_impl
def rc(rng,s): return ''.join(c.upper() if rng.random()<.5 else c.lower() for c in s)
def recase(rng,d):
    d=copy.deepcopy(d); seen=set()
    for u in d["units"]:
        nc=[]
        for c in u["capabilities"]:
            if c.lower() in seen: nc.append(rc(rng,c))
            else: nc.append(c); seen.add(c.lower())
        u["capabilities"]=nc
    for u in d["units"]:
        u["memoryAccess"]=[rc(rng,c) for c in u["memoryAccess"]]
    d["dataPath"]=[[rc(rng,x) for x in e] for e in d["dataPath"]]
    return d
rng=random.Random(int(sys.argv[1])); N=int(sys.argv[2]); bad=0; ok=0
for it in range(N):
    d=smart_locks(rng,rand_desc(rng,6))
    def run(d):
        try: return ('OK',canon_impl(processor_utils.load_proc_desc(d)))
        except Exception as e: return (type(e).__name__,)
    a=run(d); b=run(recase(rng,d))
    if a!=b and not (a[0]==b[0]=='DeadInputError'):
        bad+=1
        if bad<3: print("DIFF",d,a,b)
    elif a[0]=='OK':
        ok+=1
        # program + isa
        p=processor_utils.load_proc_desc(d)
        caps=sorted(str(c) for c in processor_utils.get_abilities(p))
        isa_raw=[(f"op{i}",c) for i,c in enumerate(caps)]
        isa1=processor_utils.load_isa(isa_raw,processor_utils.get_abilities(p))
        isa2=processor_utils.load_isa([(m,rc(rng,c)) for m,c in isa_raw],processor_utils.get_abilities(p))
        if isa1!=isa2: bad+=1; print("ISA DIFF")
        import program_utils
        lines=[]
        for _ in range(rng.randint(0,6)):
            m=rng.choice(isa_raw)[0]; regs=[f"r{rng.randint(0,3)}" for _ in range(rng.randint(1,3))]
            lines.append((m,regs))
        t1=[f"{m} {', '.join(r)}" for m,r in lines]
        first=set(); t2=[]
        for m,r in lines:
            rr=[]
            for x in r:
                if x in first: rr.append(rc(rng,x))
                else: rr.append(x); first.add(x)
            t2.append(f"{rc(rng,m)} {', '.join(rr)}")
        c1=program_utils.compile_program(program_utils.read_program(t1),isa1)
        c2=program_utils.compile_program(program_utils.read_program(t2),isa1)
        if c1!=c2: bad+=1; print("PROG DIFF",t1,t2,c1,c2)
print("ok",ok,"bad",bad)
