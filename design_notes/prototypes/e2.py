import sys, logging
sys.path.insert(0,'/repo/src')
logging.disable(logging.CRITICAL)
import processor_utils, program_utils, sim_services
from program_defs import HwInstruction
def unit(name, width, caps, rl=False, wl=False, mem=None):
    d={"name":name,"width":width,"capabilities":list(caps),"readLock":rl,"writeLock":wl}
    if mem is not None: d["memoryAccess"]=list(mem)
    return d
def load(us, es):
    try:
        return processor_utils.load_proc_desc({"units":us,"dataPath":es})
    except Exception as e:
        return (type(e).__name__, str(e), getattr(e,'__dict__',None))
print(1, load([unit("",1,["ALU"],True,True)],[]))
print(2, load([unit("a",1,["ALU"],True,True,["MEM"])],[]))
print(3, load([unit("a",1,["ALU"],True,True,["alu"])],[]))
print(4, load([unit("a",1,["ALU","alu","Alu"],True,True)],[]))
print(5, load([unit("a",1,["ALU"],True,True), unit("A",1,["ALU"])],[]))
print(6, load([unit("a",1,["ALU"],True,True), unit("b",1,["ALU"])],[["a","b"],["A","B"],["a","b","c"]]))
print(7, load([unit("a",1,["ALU"],True,True), unit("b",1,["ALU"])],[["a","c"]]))
print(8, load([unit("a",1,["ALU"],True,True), unit("b",1,["ALU"])],[["a","b"],["b","a"]]))
print(9, load([unit("a",1,["ALU"],True,True), unit("b",1,["MEM"])],[["a","b"]]))
print(10, load([unit("a",1,["ALU"],False,True), unit("b",1,["ALU"], False)],[["a","b"]]))
print(11, load([unit("a",1,["ALU"],True,True), unit("b",1,["ALU"], True)],[["a","b"]]))
print(12, load([unit("a",1,["ALU"],False,False), unit("b",1,["ALU"], True, True), unit("c",1,["ALU"], False, False)],[["a","b"],["a","c"]]))
print(13, load([], []))
print(14, load([unit("a",1,[],True,True)],[]))
print(15, load([unit("a",1,["ALU"],True,True), unit("b",1,["ALU"]), unit("c",1,["MEM"],True,True)],[["a","b"]]))
print(16, load([unit("a",1,["ALU","MEM"],True,True), unit("b",1,["ALU"]), ],[["a","b"]]))
print(17, load([unit("a",1,["ALU"],True,True), unit("a",0,["ALU"])],[]))
print(18, load([unit("a",1,["ALU"],True,True)],[["a","a"]]))
