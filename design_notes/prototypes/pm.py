"""Prototype pure model of sim_services.simulate (to become the Gallina model)."""
from collections import namedtuple
U=namedtuple("U","name width caps rl wl mem")
# proc: dict(in_ports=[U], out_ports=[(U,[pred names sorted])], in_out=[U], internal=[(U,[preds])])

def build_queues(prog):
    q={}
    def app(reg,typ,owner):
        g=q.setdefault(reg,[])
        if not(typ=='R' and g and g[-1][0]=='R'):
            g.append((typ,set()))
        g[-1][1].add(owner)
    for i,(srcs,dst,cat) in enumerate(prog):
        for r in srcs: app(r,'R',i)
        app(dst,'W',i)
    return q   # front is index 0

def can_access(g,typ,owner):
    return g[0][0]==typ and owner in g[0][1]
def dequeue(g,owner):
    g[0][1].remove(owner)
    if not g[0][1]: del g[0]

def simulate(prog, proc, maxcyc=10000):
    units={}
    for u in proc['in_ports']+proc['in_out']: units[u.name]=u
    for u,_ in proc['out_ports']+proc['internal']: units[u.name]=u
    q=build_queues(prog)
    tbl=[]; entered=0; exited=0
    n=len(prog)
    while entered<n or exited<entered:
        old=tbl[-1] if tbl else {}
        cp={k:[list(x) for x in v] for k,v in old.items()}
        def get(k): return cp.setdefault(k,[])
        # out sink
        for name in [u.name for u in proc['in_out']]+[u.name for u,_ in proc['out_ports']]:
            cp[name]=[x for x in get(name) if x[1]=='D']
        mem=False
        for u,preds in proc['out_ports']+proc['internal']:
            cands=[]
            for p in preds:
                for idx,x in enumerate(get(p)):
                    if x[1]!='D' and prog[x[0]][2] in u.caps: cands.append((p,idx))
            cands.sort(key=lambda c: cp[c[0]][c[1]][0])
            moved=[]
            for (p,idx) in cands:
                if len(get(u.name))==u.width: break
                x=cp[p][idx]
                ma = prog[x[0]][2] in u.mem
                if mem and ma: continue
                if ma: mem=True
                get(u.name).append([x[0],'U'])
                moved.append((p,idx))
            for (p,idx) in sorted(moved,key=lambda c:c[1],reverse=True):
                del cp[p][idx]
        # issue
        ins=sorted(proc['in_out']+proc['in_ports'],key=lambda u:u.name)
        acc=True
        while entered<n and acc:
            acc=False
            cat=prog[entered][2]
            for u in ins:
                if cat not in u.caps: continue
                ma=cat in u.mem
                if (mem and ma) or len(get(u.name))==u.width: continue
                get(u.name).append([entered,'U']); entered+=1
                if ma: mem=True
                acc=True
                break
        # hazards: iterate units in cp dict insertion order w/ nonempty lists
        clears={}
        for name,lst in cp.items():
            if not lst: continue
            u=units[name]
            oldl=old.get(name,[])
            for x in lst:
                if any(o[0]==x[0] and o[1]!='D' for o in oldl):
                    x[1]='S'
                else:
                    srcs,dst,cat=prog[x[0]]
                    regs=[]
                    ok=True
                    if u.rl:
                        if all(can_access(q[r],'R',x[0]) for r in srcs): regs+=list(srcs)
                        else: ok=False
                    if ok and u.wl:
                        if can_access(q[dst],'W',x[0]): regs.append(dst)
                        else: ok=False
                    if ok:
                        x[1]='U'
                        for r in regs: clears.setdefault(r,[]).append(x[0])
                    else: x[1]='D'
        for r,l in clears.items():
            for o in l: dequeue(q[r],o)
        def canon(d): return sorted((k,sorted(map(tuple,v))) for k,v in d.items() if v)
        if canon(cp)==canon(old):
            return 'STALL',tbl
        for name in [u.name for u in proc['in_out']]+[u.name for u,_ in proc['out_ports']]:
            exited+=sum(1 for x in get(name) if x[1]=='U')
        tbl.append(cp)
        if len(tbl)>maxcyc: return 'RUNAWAY',tbl
    return 'OK',tbl
def canon_tbl(tbl): return [sorted((k,sorted(map(tuple,v))) for k,v in d.items() if v) for d in tbl]
