import random, sys, copy
from gen import *
import lm
FIX = len(sys.argv)>3
if FIX:
    from processor_utils import _optimization, _port_defs
    def chk_terminals(processor, orig):
        while True:
            new=frozenset(_port_defs.get_out_ports(processor)).difference(orig.out_ports)
            if not new: break
            for o in new: _optimization._rm_dead_end(processor,o,orig.in_ports)
    _optimization.chk_terminals=chk_terminals
def canon_impl(p):
    cv=lambda m:(m.name,m.width,tuple(m.capabilities),bool(m.lock_info.rd_lock),bool(m.lock_info.wr_lock),tuple(m._mem_acl))
    return dict(in_ports=[cv(m) for m in p.in_ports], in_out=[cv(m) for m in p.in_out_ports],
                out_ports=[(cv(f.model),tuple(x.name for x in f.predecessors)) for f in p.out_ports],
                internal=[(cv(f.model),tuple(x.name for x in f.predecessors)) for f in p.internal_units])
def mutate(rng,d):
    r=rng.random()
    us=d["units"]; es=d["dataPath"]
    if r<0.05 and us: us[rng.randrange(len(us))]["width"]=rng.choice([0,-1])
    elif r<0.10 and len(us)>1: us[rng.randrange(len(us))]["name"]=rng.choice(us)["name"].upper()
    elif r<0.15 and es: es[rng.randrange(len(es))].append("u0")
    elif r<0.20 and es: es[rng.randrange(len(es))][rng.randrange(2)]="zz"
    elif r<0.25 and es: e=rng.choice(es); es.append([e[1],e[0]])
    elif r<0.30 and es: es.append([x.upper() for x in rng.choice(es)])
    elif r<0.35 and us: u=rng.choice(us); u["capabilities"]=[c.lower() if rng.random()<.5 else c for c in u["capabilities"]]+[u["capabilities"][0].lower()]
    elif r<0.38 and us: rng.choice(us)["capabilities"]=[]
    return d
rng=random.Random(int(sys.argv[1])); N=int(sys.argv[2])
st={}; diffs=0
for it in range(N):
    d=rand_desc(rng,7)
    d = smart_locks(rng,d) if rng.random()<0.7 else d
    d=mutate(rng,d)
    d0=copy.deepcopy(d)
    try: ri=('OK',canon_impl(processor_utils.load_proc_desc(d)))
    except Exception as e:
        ri=(type(e).__name__, {k:getattr(e,k) for k in ('old_element','new_element','unit','width','edge','element','port','start','lock_type','capability') if hasattr(e,k)})
    assert d==d0
    try: rm=('OK',lm.load(d,iterate_dead_ends=FIX))
    except lm.Err as e: rm=(e.cls,e.kw)
    st[ri[0]]=st.get(ri[0],0)+1
    same = ri[0]==rm[0] and (ri[0]!='OK' or ri[1]==rm[1])
    if same and ri[0]!='OK':
        a=ri[1]; b=dict(rm[1]); b.pop('kind',None)
        ren={'old':'old_element','new':'new_element','elem':'element'}
        b={ren.get(k,k):v for k,v in b.items()}
        same = a==b
    if not same:
        diffs+=1
        if diffs<4: print("DIFF",d,"\n impl",ri,"\n model",rm)
print(st,"diffs",diffs)
