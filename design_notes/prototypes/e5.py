import sys, logging
sys.path.insert(0,'/repo/src'); logging.disable(logging.CRITICAL)
import processor_utils
u=lambda n,c:{"name":n,"width":1,"capabilities":c,"readLock":True,"writeLock":True}
d={"units":[u("u0",["ALU"]),u("u1",["ALU"]),u("u2",["ALU"]),u("u3",[])],"dataPath":[["u0","u3"],["u1","u3"],["u2","u3"]]}
try: processor_utils.load_proc_desc(d)
except Exception as e: print(type(e).__name__, e.port)
