"""Prototype pure model of processor_utils.load_proc_desc (to become Gallina)."""
class Err(Exception):
    def __init__(self, cls, **kw): self.cls=cls; self.kw=kw
    def __repr__(self): return f"Err({self.cls},{self.kw})"
low=str.lower

def kahn(nodes, succ):
    """networkx topological_sort; returns (order, ok)"""
    indeg={n:0 for n in nodes}
    for n in nodes:
        for c in succ[n]: indeg[c]+=1
    imap={v:d for v,d in indeg.items() if d>0}
    zero=[v for v in nodes if indeg[v]==0]
    order=[]
    while zero:
        gen=zero; zero=[]
        for n in gen:
            for c in succ[n]:
                imap[c]-=1
                if imap[c]==0: zero.append(c); del imap[c]
        order+=gen
    return order, not imap

def dfs_post(nodes, succ):
    seen=set(); out=[]
    def go(n):
        seen.add(n)
        for c in succ[n]:
            if c not in seen: go(c)
        out.append(n)
    for n in nodes:
        if n not in seen: go(n)
    return out

def load(desc, iterate_dead_ends=False, set_order=sorted):
    units=desc["units"]; links=desc["dataPath"]
    nodes=[]; attrs={}; ureg={}; creg={}
    for u in units:
        name=u["name"]
        if low(name) in ureg: raise Err("DupElemError",old=ureg[low(name)],new=name)
        if u["width"]<=0: raise Err("BadWidthError",unit=name,width=u["width"])
        caps=[]; seen=set()
        for c in u["capabilities"]:
            if low(c) in seen: continue
            if low(c) not in creg: creg[low(c)]=c
            caps.append(creg[low(c)]); seen.add(low(c))
        attrs[name]=dict(width=u["width"],caps=caps,rl=u.get("readLock",False),wl=u.get("writeLock",False),mem=list(u.get("memoryAccess",[])))
        nodes.append(name); ureg[low(name)]=name
    succ={n:[] for n in nodes}; pred={n:[] for n in nodes}
    for e in links:
        if len(e)!=2: raise Err("BadEdgeError",edge=list(e))
        std=[]
        for x in e:
            if low(x) not in ureg: raise Err("UndefElemError",elem=x)
            std.append(ureg[low(x)])
        a,b=std
        if b not in succ[a]: succ[a].append(b); pred[b].append(a)
    order,ok=kahn(nodes,succ)
    if not ok: raise Err("NetworkXUnfeasible")
    orig_in=[n for n in nodes if not pred[n]]; orig_out=[n for n in nodes if not succ[n]]
    # clean_struct
    for n in order:
        if pred[n]:
            mine=set(attrs[n]["caps"]); new=set()
            for p in list(pred[n]):
                common=mine & set(attrs[p]["caps"])
                if not common: pred[n].remove(p); succ[p].remove(n)
                new|=common
            attrs[n]["caps"]=new
    def rm(n):
        nodes.remove(n)
        for p in pred[n]: succ[p].remove(n)
        for s in succ[n]: pred[s].remove(n)
        del pred[n]; del succ[n]
    for n in list(nodes):
        if not attrs[n]["caps"]: rm(n)
    while True:
        new_out=set(n for n in nodes if not succ[n])-set(orig_out)
        if not new_out: break
        for n in set_order(new_out):
            if n in orig_in: raise Err("DeadInputError",port=n)
            rm(n)
        if not iterate_dead_ends: break
    surv=[p for p in orig_in if p in nodes]
    if not surv or not surv[0]: raise Err("EmptyProcError")
    # chk_caps
    cap_units={}
    for p in [n for n in nodes if not pred[n]]:
        for c in attrs[p]["caps"]: cap_units.setdefault(c,[]).append(p)
    out_ports=[n for n in nodes if not succ[n]]
    post=dfs_post(nodes,succ)
    for cap,ins in cap_units.items():
        has=lambda n: cap in attrs[n]["caps"]
        csucc={n:[s for s in succ[n] if has(n) and has(s)] for n in nodes}
        # adjacency order in cap graph: DiGraph(edges filtered from processor.edges) -> successors order follows processor.edges order = for n in nodes, for s in succ[n]
        L={}
        for n in post:
            if not has(n): continue
            vals=[]
            for key,typ,idx in (("rl","read",0),("wl","write",1)):
                one=-1
                for s in csucc[n]:
                    nl=L[s][idx]
                    if one<0 or nl==one: one=nl
                    else: raise Err("PathLockError",start=n,lock_type=typ,capability=cap,kind="different")
                pl=(1 if attrs[n][key] else 0)+(one if one>=0 else 0)
                if pl>1: raise Err("PathLockError",start=n,lock_type=typ,capability=cap,kind="multiple")
                vals.append(pl)
            L[n]=tuple(vals)
        for p in ins:
            for typ,idx in (("read",0),("write",1)):
                if not L[p][idx]: raise Err("PathLockError",start=p,lock_type=typ,capability=cap,kind="none")
        if len(nodes)>1:
            for p in ins:
                # reach any out port via cap edges
                seen={p}; st=[p]
                while st:
                    x=st.pop()
                    for s in csucc[x]:
                        if s not in seen: seen.add(s); st.append(s)
                if not (seen & set(out_ports)): raise Err("BlockedCapError",capability=cap,port=p)
    # make processor
    creg_get=lambda c: creg[low(c)]
    def model(n):
        a=attrs[n]
        mem=[]
        for c in a["mem"]:
            if low(c) not in creg: raise Err("AssertionError")
            mem.append(creg[low(c)])
        return (n,a["width"],tuple(sorted(a["caps"])),bool(a["rl"]),bool(a["wl"]),tuple(sorted(mem)))
    models={n:model(n) for n in nodes}
    ins=[];outs=[];inouts=[];internal=[]
    for n in nodes:
        fu=(models[n],tuple(sorted(pred[n])))
        i=bool(pred[n]); o=bool(succ[n])
        if i and o: internal.append(fu)
        elif i: outs.append(fu)
        elif o: ins.append(models[n])
        else: inouts.append(models[n])
    outs.sort(key=lambda f:f[0][0])
    inames=[f[0][0] for f in internal]
    rsucc={f[0][0]:[p for p in f[1] if p in inames] for f in internal}
    order,ok=kahn(inames,rsucc)
    assert ok
    byn={f[0][0]:f for f in internal}
    return dict(in_ports=ins,out_ports=outs,in_out=inouts,internal=[byn[n] for n in order])
