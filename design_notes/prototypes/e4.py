import sys, logging, io
sys.path.insert(0,'/repo/src')
logging.disable(logging.CRITICAL)
import processor_utils, program_utils, sim_services, hw_loading, processor_sim, container_utils, str_utils
from str_utils import ICaseString as IC
from container_utils import BagValDict
def t(f):
    try: return f()
    except Exception as e: return (type(e).__name__, str(e))
# parser
for txt in ["ADD R1, R2, R3\n", "  add\tr1 ,R2,  r1\n\n\nSUB R4,R1\n", "ADD\n", "ADD R1,,R2", "ADD ,R1", "ADD R1,", "ADD R1 R2, R3", "ADD R1", "\n \t\n", "ADD  R1 , R2 ,\tR3  \n", "ADD\x0bR1,R2", "ADD\xa0R1"]:
    print(repr(txt), t(lambda: program_utils.read_program(io.StringIO(txt))))
# ISA
caps=[IC("ALU"),IC("MEM")]
print(t(lambda: processor_utils.load_isa([("add","alu"),("Sub","Mem")],caps)))
print(t(lambda: processor_utils.load_isa([("add","alu"),("ADD","Mem")],caps)))
print(t(lambda: processor_utils.load_isa([("add","fpu"),("ADD","Mem")],caps)))
print(t(lambda: processor_utils.load_isa([("add","alu")],[IC("ALU"),IC("alu")])))
# compile
prog=program_utils.read_program(["add R1, R2","mul R3, R1"])
print(t(lambda: program_utils.compile_program(prog,{"ADD":"ALU"})))
e=None
try: program_utils.compile_program(prog,{"ADD":"ALU"})
except Exception as ex: e=ex
print(e.element, str(e))
# BagValDict
a=BagValDict({"x":[2,1],"y":[]}); b=BagValDict({"x":[1,2]})
print(a==b, len(a), len(b), repr(a), repr(b), a!=b)
print(BagValDict({"x":[1]})==BagValDict({"y":[1]}), BagValDict({"x":[1,1]})==BagValDict({"x":[1]}))
# ICaseString
print(IC("aB")==IC("Ab"), hash(IC("aB"))==hash(IC("Ab")), IC("a")<IC("B"), "B" in IC("abc"), str(IC("aB")), repr(IC("aB")), IC("a")<=IC("A"), IC("a")>=IC("A"))
