import sys, logging, io
sys.path.insert(0,'/repo/src')
logging.disable(logging.CRITICAL)
import processor_utils, program_utils, sim_services, hw_loading, processor_sim
from program_defs import HwInstruction
def unit(name, width, caps, rl=False, wl=False, mem=None):
    d={"name":name,"width":width,"capabilities":list(caps),"readLock":rl,"writeLock":wl}
    if mem is not None: d["memoryAccess"]=list(mem)
    return d
def sim(us, es, prog):
    p = processor_utils.load_proc_desc({"units":us,"dataPath":es})
    try:
        r = sim_services.simulate(prog, sim_services.HwSpec(p))
        tag="OK"
    except sim_services.StallError as e:
        r = e.processor_state; tag="STALL"
    print(tag)
    for t,c in enumerate(r):
        print(t, sorted((u, sorted((i.instr, str(i.stalled)) for i in l)) for u,l in c.items()))
I=HwInstruction
sim([unit("in",2,["ALU","MEM"],True), unit("mid",1,["ALU","MEM"],mem=["MEM"]), unit("out",2,["ALU","MEM"],False,True)],
    [["in","mid"],["mid","out"]],
    [I(["R1"],"R2","ALU"), I(["R2"],"R3","MEM"), I(["R4"],"R5","MEM"), I(["R3"],"R1","ALU")])
# unsupported capability
sim([unit("in",2,["ALU"],True,True)],[], [I([],"R1","FPU")])
sim([unit("in",2,["ALU"],True,True)],[], [I([],"R1","ALU"), I([],"R1","FPU")])
sim([unit("in",2,["ALU"],True,True)],[], [])
