import random, sys
from gen import *
rng=random.Random(int(sys.argv[1]) if len(sys.argv)>1 else 0)
N=int(sys.argv[2]) if len(sys.argv)>2 else 2000
acc=0; rej={}; diff=0; tags={}
for it in range(N):
    d=fix_locks(rng, rand_desc(rng))
    try:
        p=processor_utils.load_proc_desc(d)
    except Exception as e:
        rej[type(e).__name__]=rej.get(type(e).__name__,0)+1; continue
    acc+=1
    caps=sorted({c for m in list(p.in_ports)+list(p.in_out_ports) for c in m.capabilities})
    for _ in range(3):
        prog=rand_prog(rng,caps,bad=0.02)
        try:
            ti,ri=run_impl(p,prog)
        except Exception as e:
            ti,ri='EXC:'+type(e).__name__,[]
        tm,rm=pm.simulate(prog,to_pm(p))
        tags[ti]=tags.get(ti,0)+1
        if (ti,ri)!=(tm,pm.canon_tbl(rm)):
            diff+=1
            if diff<4:
                print("DIFF",d,prog,ti,tm); print(ri); print(pm.canon_tbl(rm))
print("accepted",acc,"rejected",rej,"diffs",diff,tags)
