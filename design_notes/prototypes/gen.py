import random, sys, logging
sys.path.insert(0,'/repo/src')
logging.disable(logging.CRITICAL)
import processor_utils, sim_services
from processor_utils import units as pu
from program_defs import HwInstruction
import pm

CAPS=["ALU","MEM","FPU"]
def rand_desc(rng, nmax=6):
    n=rng.randint(1,nmax)
    names=[f"u{i}" for i in range(n)]
    rng.shuffle(names)
    ncap=rng.randint(1,3)
    caps=CAPS[:ncap]
    us=[]
    for nm in names:
        c=[x for x in caps if rng.random()<0.75] or [rng.choice(caps)]
        mem=[x for x in c if rng.random()<0.3]
        us.append({"name":nm,"width":rng.randint(1,3),"capabilities":c,
                   "readLock":rng.random()<0.4,"writeLock":rng.random()<0.4,"memoryAccess":mem})
    order=list(names); rng.shuffle(order)
    es=[]
    for i in range(n):
        for j in range(i+1,n):
            if rng.random()<0.35: es.append([order[i],order[j]])
    rng.shuffle(es)
    return {"units":us,"dataPath":es}

def fix_locks(rng, desc):
    """choose lock placement style to get accepted more often"""
    style=rng.random()
    if style<0.3:
        # both locks at sources
        tgt={e[1] for e in desc["dataPath"]}
        for u in desc["units"]:
            s = u["name"] not in tgt
            u["readLock"]=s; u["writeLock"]=s
    elif style<0.5:
        tgt={e[1] for e in desc["dataPath"]}; src={e[0] for e in desc["dataPath"]}
        for u in desc["units"]:
            u["readLock"]= u["name"] not in tgt
            u["writeLock"]= u["name"] not in src
    return desc

def to_pm(p):
    cv=lambda m: pm.U(m.name,m.width,tuple(m.capabilities),bool(m.lock_info.rd_lock),bool(m.lock_info.wr_lock),tuple(m._mem_acl))
    return dict(in_ports=[cv(m) for m in p.in_ports], in_out=[cv(m) for m in p.in_out_ports],
                out_ports=[(cv(f.model),[x.name for x in f.predecessors]) for f in p.out_ports],
                internal=[(cv(f.model),[x.name for x in f.predecessors]) for f in p.internal_units])

def rand_prog(rng, caps, nmax=8, nreg=4, bad=0.0):
    n=rng.randint(0,nmax)
    regs=[f"R{i}" for i in range(nreg)]
    prog=[]
    for _ in range(n):
        k=rng.randint(0,3)
        srcs=sorted(set(rng.choice(regs) for _ in range(k)))
        dst=rng.choice(regs)
        cat=rng.choice(caps) if rng.random()>=bad else "XXX"
        prog.append((tuple(srcs),dst,cat))
    return prog

def run_impl(p, prog):
    hp=[HwInstruction(list(s),d,c) for s,d,c in prog]
    try:
        r=sim_services.simulate(hp, sim_services.HwSpec(p)); tag='OK'
    except sim_services.StallError as e:
        r=e.processor_state; tag='STALL'
    return tag,[sorted((u,sorted((i.instr,str(i.stalled)) for i in l)) for u,l in c.items()) for c in r]

def smart_locks(rng, desc):
    names=[u["name"] for u in desc["units"]]
    succ={n:[] for n in names}
    for a,b in desc["dataPath"]: succ[a].append(b)
    byname={u["name"]:u for u in desc["units"]}
    # reverse topo
    order=[]; seen=set()
    def dfs(n):
        if n in seen: return
        seen.add(n)
        for s in succ[n]: dfs(s)
        order.append(n)
    for n in names: dfs(n)
    def place(key, bias):
        L={}
        for n in order:
            ls={L[s] for s in succ[n]}
            if len(ls)>1: return False
            base=ls.pop() if ls else 0
            if base==0:
                has_pred = any(n in succ[m] for m in names)
                lock = (rng.random()<bias) or not has_pred
            else: lock=False
            byname[n][key]=lock
            L[n]=base+(1 if lock else 0)
        return True
    for _ in range(20):
        if place("readLock", rng.choice([0.1,0.3,0.6])) and place("writeLock", rng.choice([0.3,0.6,0.9])): return desc
    return fix_locks(rng,desc)
