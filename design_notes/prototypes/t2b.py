import fixpatch
import random, sys
from gen import *
import chk
rng=random.Random(int(sys.argv[1]) if len(sys.argv)>1 else 0)
N=int(sys.argv[2]) if len(sys.argv)>2 else 2000
stats={}; shown={}
for it in range(N):
    d=smart_locks(rng, rand_desc(rng, 8))
    try: p=processor_utils.load_proc_desc(d)
    except Exception as e: continue
    P=to_pm(p)
    if not chk.routes_wellformed(P): stats['illformed']=stats.get('illformed',0)+1; continue
    caps=sorted({c for m in list(p.in_ports)+list(p.in_out_ports) for c in m.capabilities})
    for _ in range(4):
        prog=rand_prog(rng,caps,nmax=12, nreg=rng.choice([2,3,5]))
        ti,ri=run_impl(p,prog)
        stats[ti]=stats.get(ti,0)+1
        bad=chk.check_all(P,prog,ti,ri)
        for b in bad:
            key=b[0]+':'+str(b[1]) if isinstance(b[1],str) else b[0]
            stats[key]=stats.get(key,0)+1
            if shown.get(key,0)<1:
                shown[key]=shown.get(key,0)+1
                print("VIOL",b); print(d); print(prog); print(ti); 
                for t,c in enumerate(ri): print(' ',t,c)
print(stats)
