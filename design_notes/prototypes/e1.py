import sys, logging
sys.path.insert(0,'/repo/src')
logging.disable(logging.CRITICAL)
import processor_utils, program_utils, sim_services
from processor_utils import units
from program_defs import HwInstruction
from str_utils import ICaseString

def unit(name, width, caps, rl=False, wl=False, mem=()):
    return {"name":name,"width":width,"capabilities":list(caps),"readLock":rl,"writeLock":wl,"memoryAccess":list(mem)}

# C02 self-dependency
p = processor_utils.load_proc_desc({"units":[unit("core",1,["ALU"],True,True)],"dataPath":[]})
print(p)
prog=[HwInstruction(["R1","R2"],"R1","ALU")]
try:
    print(sim_services.simulate(prog, sim_services.HwSpec(p)))
except sim_services.StallError as e:
    print("StallError", e.processor_state)

# C10: two-unit dead branch
d = {"units":[unit("in",1,["ALU"],True,True), unit("out",1,["ALU"]), unit("d1",1,["ALU"]), unit("d2",1,["ALU"]), unit("d3",1,["MEM"])],
     "dataPath":[["in","out"],["in","d1"],["d1","d2"],["d2","d3"]]}
p = processor_utils.load_proc_desc(d)
print(p)
