import sys, importlib
sys.path.insert(0,'/repo/src')
import fixpatch
import sim_services, sim_services._instr_sinks as sinks, sim_services._utils as utils, processor_utils, processor_utils.units as units
from sim_services import _instr_sinks
M=sys.argv[1]
if M=='young_first':
    def _pick(self,c,util): return sorted(c,key=lambda i: util[i.host][i.index_in_host].instr, reverse=True)
    sinks.UnitSink._pick_guests=_pick
elif M=='no_mem_thread':
    orig=sim_services._mov_flights
    def mf(dst,util):
        for d in dst: sim_services._fill_unit(d,util,False)
        return False
    sim_services._mov_flights=mf
elif M=='dequeue_inside':
    def ch(old_util,new_util,name_unit_map,program,acc_queues):
        for unit,new_unit_util in new_util:
            rc={}
            sim_services._stall_unit(name_unit_map[unit].lock_info, sim_services._TransitionUtil(old_util[unit],new_unit_util),program,acc_queues,rc)
            for reg,l in rc.items():
                for r in l: acc_queues[reg].dequeue(r)
    sim_services._chk_hazards=ch
elif M=='no_sort_inputs':
    units.sorted_models=lambda m: tuple(m)
    sim_services.processor_utils.units.sorted_models=lambda m: tuple(m)
elif M=='d_moves':
    sinks.IInstrSink._valid_candid=lambda self,instr: self._accepts_cap(instr.instr)
elif M=='stop_on_mem':
    orig=sinks._mov_candidate
    def mc(unit_sink,candid_iter,util_info,mem_busy,mov_res):
        if sinks._utils.unit_full(unit_sink.unit.model.width, util_info[unit_sink.unit.model.name]): return False
        try: candid=next(candid_iter)
        except StopIteration: return False
        mem_access=unit_sink.unit.model.needs_mem(unit_sink.program[util_info[candid.host][candid.index_in_host].instr].categ)
        if sinks._utils.mem_unavail(mem_busy,mem_access): return False   # MUTANT: stop instead of skip
        if mem_access: mov_res.mem_used=True
        util_info[candid.host][candid.index_in_host].stalled=sinks.StallState.NO_STALL
        util_info[unit_sink.unit.model.name].append(util_info[candid.host][candid.index_in_host])
        mov_res.moved.append(candid); return True
    sinks._mov_candidate=mc
elif M=='count_all_outputs':
    sim_services._calc_unstalled=lambda instrs: len(list(instrs))
elif M=='issue_first_fit_last':
    orig=sim_services._build_cap_map
    def bc(inputs):
        m=orig(inputs)
        return {k:list(reversed(v)) for k,v in m.items()}
    sim_services._build_cap_map=bc
sys.argv=[sys.argv[0]]+sys.argv[2:]
exec(open('t2b.py').read().replace('import fixpatch',''))
