import time, random, sys
import fixpatch
from gen import *
rng=random.Random(1); cases=[]
while len(cases)<300:
    d=smart_locks(rng, rand_desc(rng,8))
    try: p=processor_utils.load_proc_desc(d)
    except Exception: continue
    caps=sorted({c for m in list(p.in_ports)+list(p.in_out_ports) for c in m.capabilities})
    cases.append((p,rand_prog(rng,caps,nmax=12)))
t=time.time()
for p,prog in cases: run_impl(p,prog)
dt=time.time()-t; print(f"{len(cases)/dt:.0f} simulations/s; ")
t=time.time(); n=0
for _ in range(300):
    d=smart_locks(rng, rand_desc(rng,8))
    try: processor_utils.load_proc_desc(d)
    except Exception: pass
    n+=1
print(f"{n/(time.time()-t):.0f} loads/s")
