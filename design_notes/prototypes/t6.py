import random, sys
from gen import *
import chk
def routes_count_ok(P):
    units,preds,succs,ins,outs=chk.proc_info(P); ok=True; reach_ok=True
    def walk(u,cap,r,w):
        nonlocal ok
        x=units[u]; r+=x.rl; w+=x.wl
        nxt=[s for s in succs[u] if cap in units[s].caps]
        if not nxt and (r!=1 or w!=1): ok=False
        for s in nxt: walk(s,cap,r,w)
    def reach(u,cap,seen):
        if u in outs: return True
        return any(reach(s,cap,seen) for s in succs[u] if cap in units[s].caps)
    for i in ins:
        for cap in units[i].caps:
            walk(i,cap,0,0)
            if not reach(i,cap,set()): reach_ok=False
    return ok,reach_ok
rng=random.Random(7); n=0; badc=0; badr=0; order=0
for it in range(6000):
    d=smart_locks(rng, rand_desc(rng,7)) if rng.random()<.7 else rand_desc(rng,7)
    try: p=processor_utils.load_proc_desc(d)
    except Exception: continue
    P=to_pm(p); n+=1
    a,b=routes_count_ok(P)
    badc+= (not a); badr+=(not b)
    order += (a and not chk.routes_wellformed(P))
print("accepted",n,"lock-count violations",badc,"reach violations",badr,"read-after-write only",order)
