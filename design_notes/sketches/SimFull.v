(* Sketch: full executable transliteration of sim_services.simulate (with the D1 repair in can_access). *)
From Coq Require Import String List Arith Bool Lia.
Import ListNotations.
Open Scope list_scope.

(* ---------- basic data ---------- *)
Inductive label := LD | LS | LU.
Definition label_eqb (a b: label) := match a,b with LD,LD | LS,LS | LU,LU => true | _,_ => false end.
Definition label_rank (a: label) := match a with LD => 0 | LS => 1 | LU => 2 end.

Record unit := { u_name : string; u_width : nat; u_caps : list string; u_rl : bool; u_wl : bool; u_mem : list string }.
Record funit := { f_model : unit; f_preds : list string }.
Record proc := { p_in : list unit; p_out : list funit; p_inout : list unit; p_int : list funit }.
Record instr := { i_srcs : list string; i_dst : string; i_cat : string }.

Definition entry := (nat * label)%type.
Definition record := list (string * list entry).

Definition mem_str (x: string) (l: list string) := existsb (String.eqb x) l.
Fixpoint get {A} (r: list (string * list A)) (k: string) : list A :=
  match r with [] => [] | (k',v)::t => if String.eqb k k' then v else get t k end.
Fixpoint set {A} (r: list (string * A)) (k: string) (v: A) : list (string * A) :=
  match r with [] => [(k,v)] | (k',v')::t => if String.eqb k k' then (k,v)::t else (k',v')::set t k v end.

Definition cat_of (prog: list instr) (i: nat) : string := match nth_error prog i with Some x => i_cat x | None => EmptyString end.

(* ---------- generic insertion sort ---------- *)
Fixpoint insert {A} (leb: A -> A -> bool) (x: A) (l: list A) : list A :=
  match l with [] => [x] | y::t => if leb x y then x::l else y :: insert leb x t end.
Definition isort {A} (leb: A -> A -> bool) (l: list A) : list A := fold_right (insert leb) [] l.

(* ---------- register access queues (front first) ---------- *)
Inductive aty := RD | WR.
Definition aty_eqb a b := match a,b with RD,RD | WR,WR => true | _,_ => false end.
Record group := mkG { g_ty : aty; g_reqs : list nat }.
Definition queue := list group.
Definition memn (o: nat) (l: list nat) := existsb (Nat.eqb o) l.
Definition set_add (o: nat) (l: list nat) := if memn o l then l else l ++ [o].
Fixpoint qb_append (q: queue) (ty: aty) (o: nat) : queue :=
  match q with
  | [] => [mkG ty [o]]
  | [g] => if aty_eqb ty RD && aty_eqb (g_ty g) RD then [mkG RD (set_add o (g_reqs g))] else [g; mkG ty [o]]
  | g :: t => g :: qb_append t ty o
  end.
Definition is_singleton (o: nat) (l: list nat) := match l with [x] => Nat.eqb o x | _ => false end.
Inductive pyerr := IndexError | KeyError | UnknownUnit.
Definition can_access (q: queue) (ty: aty) (o: nat) : option bool :=   (* None = IndexError *)
  match q with
  | [] => None
  | g :: rest =>
    Some ((aty_eqb ty (g_ty g) && memn o (g_reqs g))
        || (aty_eqb ty WR && aty_eqb (g_ty g) RD && is_singleton o (g_reqs g)
            && match rest with g2 :: _ => aty_eqb (g_ty g2) WR && memn o (g_reqs g2) | [] => false end))
  end.
Definition dequeue (q: queue) (o: nat) : option queue :=
  match q with
  | [] => None
  | g :: rest =>
    if memn o (g_reqs g) then
      let r := filter (fun x => negb (Nat.eqb o x)) (g_reqs g) in
      Some (match r with [] => rest | _ => mkG (g_ty g) r :: rest end)
    else None
  end.

Definition queues := list (string * queue).
Definition q_append (qs: queues) (reg: string) (ty: aty) (o: nat) : queues := set qs reg (qb_append (get qs reg) ty o).
Definition build_acc_plan (prog: list instr) : queues :=
  snd (fold_left (fun '(i, qs) ins =>
        let qs1 := fold_left (fun qs r => q_append qs r RD i) (i_srcs ins) qs in
        (S i, q_append qs1 (i_dst ins) WR i)) prog (0, [])).

(* ---------- moving instructions ---------- *)
Fixpoint locate {A} (p: A -> bool) (l: list A) (i: nat) : list nat :=
  match l with [] => [] | x::t => (if p x then [i] else []) ++ locate p t (S i) end.
Definition valid (prog: list instr) (f: funit) (e: entry) : bool :=
  negb (label_eqb (snd e) LD) && mem_str (cat_of prog (fst e)) (u_caps (f_model f)).
Definition cands (prog: list instr) (f: funit) (r: record) : list (string * nat) :=
  flat_map (fun h => map (fun i => (h,i)) (locate (valid prog f) (get r h) 0)) (f_preds f).
Definition ix_of (r: record) (c: string * nat) : nat := match nth_error (get r (fst c)) (snd c) with Some e => fst e | None => 0 end.

Fixpoint walk (prog: list instr) (f: funit) (mem_busy: bool) (cs: list (string*nat)) (r: record) (used: bool) (moved: list (string*nat))
  : record * bool * list (string*nat) :=
  match cs with
  | [] => (r, used, moved)
  | c::t =>
    let me := u_name (f_model f) in
    if length (get r me) =? u_width (f_model f) then (r, used, moved)
    else
      let need := mem_str (cat_of prog (ix_of r c)) (u_mem (f_model f)) in
      if (mem_busy || used) && need then walk prog f mem_busy t r used moved
      else walk prog f mem_busy t (set r me (get r me ++ [(ix_of r c, LU)])) (used || need) (moved ++ [c])
  end.
Fixpoint del_nth {A} (n: nat) (l: list A) : list A :=
  match l, n with [], _ => [] | _::t, 0 => t | x::t, S n' => x :: del_nth n' t end.
Definition clr (r: record) (moved: list (string*nat)) : record :=
  fold_left (fun r c => set r (fst c) (del_nth (snd c) (get r (fst c))))
            (isort (fun a b => snd b <=? snd a) moved) r.          (* descending index_in_host *)
Definition fill_unit (prog: list instr) (st: record * bool) (f: funit) : record * bool :=
  let '(r, busy) := st in
  let cs := isort (fun a b => ix_of r a <=? ix_of r b) (cands prog f r) in
  let '(r', used, moved) := walk prog f busy cs r false [] in
  (clr r' moved, busy || used).

Definition out_names (P: proc) : list string := map u_name (p_inout P) ++ map (fun f => u_name (f_model f)) (p_out P).
Definition flush (P: proc) (r: record) : record :=
  fold_left (fun r n => set r n (filter (fun e => label_eqb (snd e) LD) (get r n))) (out_names P) r.
Definition mov_flights (P: proc) (prog: list instr) (r: record) : record * bool :=
  fold_left (fill_unit prog) (p_out P ++ p_int P) (flush P r, false).

(* ---------- issue ---------- *)
Fixpoint try_ports (cat: string) (ports: list unit) (r: record) (mem_used: bool) (ix: nat) : option (record * bool) :=
  match ports with
  | [] => None
  | u::t =>
    if mem_str cat (u_caps u) then
      let need := mem_str cat (u_mem u) in
      if (mem_used && need) || (length (get r (u_name u)) =? u_width u) then try_ports cat t r mem_used ix
      else Some (set r (u_name u) (get r (u_name u) ++ [(ix, LU)]), mem_used || need)
    else try_ports cat t r mem_used ix
  end.
Fixpoint fill_inputs (fuel: nat) (prog: list instr) (ports: list unit) (r: record) (mem_used: bool) (entered: nat) : record * nat :=
  match fuel with 0 => (r, entered) | S f =>
    match nth_error prog entered with
    | None => (r, entered)
    | Some ins => match try_ports (i_cat ins) ports r mem_used entered with
                  | None => (r, entered)
                  | Some (r', m') => fill_inputs f prog ports r' m' (S entered)
                  end
    end end.
Definition in_ports_sorted (P: proc) : list unit := isort (fun a b => String.leb (u_name a) (u_name b)) (p_inout P ++ p_in P).

(* ---------- hazards ---------- *)
Definition all_units (P: proc) : list unit := p_in P ++ p_inout P ++ map f_model (p_out P) ++ map f_model (p_int P).
Definition find_unit (P: proc) (n: string) : option unit := find (fun u => String.eqb n (u_name u)) (all_units P).
Definition regs_loaded (old: list entry) (i: nat) : bool := existsb (fun e => Nat.eqb (fst e) i && negb (label_eqb (snd e) LD)) old.

Definition opt_all (l: list (option bool)) : option bool :=
  fold_left (fun acc x => match acc, x with Some true, y => y | a, _ => a end) l (Some true).   (* short-circuit like all() *)
Definition regs_avail (u: unit) (i: nat) (ins: instr) (qs: queues) : option (option (list string)) :=
  (* Some (Some regs) = available; Some None = not; None = IndexError *)
  let rd := if u_rl u then opt_all (map (fun r => can_access (get qs r) RD i) (i_srcs ins)) else Some true in
  match rd with
  | None => None
  | Some false => Some None
  | Some true =>
    let wr := if u_wl u then can_access (get qs (i_dst ins)) WR i else Some true in
    match wr with
    | None => None
    | Some false => Some None
    | Some true => Some (Some ((if u_rl u then i_srcs ins else []) ++ (if u_wl u then [i_dst ins] else [])))
    end
  end.

(* per unit: relabel entries; accumulate clears *)
Fixpoint stall_unit (u: unit) (old: list entry) (prog: list instr) (qs: queues) (es: list entry) (clears: list (string * nat))
  : option (list entry * list (string * nat)) :=
  match es with
  | [] => Some ([], clears)
  | (i, _) :: t =>
    if regs_loaded old i then
      match stall_unit u old prog qs t clears with Some (t', c') => Some ((i, LS) :: t', c') | None => None end
    else
      match nth_error prog i with
      | None => None
      | Some ins =>
        match regs_avail u i ins qs with
        | None => None
        | Some None => match stall_unit u old prog qs t clears with Some (t', c') => Some ((i, LD) :: t', c') | None => None end
        | Some (Some regs) =>
          match stall_unit u old prog qs t (clears ++ map (fun r => (r, i)) regs) with Some (t', c') => Some ((i, LU) :: t', c') | None => None end
        end
      end
  end.
Fixpoint chk_hazards_units (P: proc) (old: record) (prog: list instr) (qs: queues) (r: record) (clears: list (string*nat))
  : option (record * list (string*nat)) :=
  match r with
  | [] => Some ([], clears)
  | (n, es) :: t =>
    match find_unit P n with
    | None => None
    | Some u =>
      match stall_unit u (get old n) prog qs es clears with
      | None => None
      | Some (es', c') =>
        match chk_hazards_units P old prog qs t c' with Some (t', c'') => Some ((n, es') :: t', c'') | None => None end
      end
    end
  end.
Definition apply_clears (qs: queues) (clears: list (string*nat)) : option queues :=
  fold_left (fun acc c => match acc with None => None | Some qs =>
      match dequeue (get qs (fst c)) (snd c) with None => None | Some q' => Some (set qs (fst c) q') end end) clears (Some qs).

(* ---------- record equality (canonical) ---------- *)
Definition entry_leb (a b: entry) : bool := (fst a <? fst b) || ((fst a =? fst b) && (label_rank (snd a) <=? label_rank (snd b))).
Fixpoint entries_eqb (a b: list entry) : bool :=
  match a, b with [], [] => true | x::s, y::t => (fst x =? fst y) && label_eqb (snd x) (snd y) && entries_eqb s t | _, _ => false end.
Definition nonempty_items (r: record) := filter (fun kv => match snd kv with [] => false | _ => true end) r.
Definition bag_eqb (a b: record) : bool :=
  (length (nonempty_items a) =? length (nonempty_items b))
  && forallb (fun kv => entries_eqb (isort entry_leb (snd kv)) (isort entry_leb (get a (fst kv)))) (nonempty_items b).

Definition count_outputs (P: proc) (r: record) : nat :=
  fold_left (fun n name => n + length (filter (fun e => label_eqb (snd e) LU) (get r name))) (out_names P) 0.

(* ---------- the cycle and the loop ---------- *)
Record state := { tbl : list record; qs_ : queues; entered : nat; exited : nat }.
Inductive outcome := Done (d: list record) | Stalled (d: list record) | Crash | OutOfFuel.

Definition run_cycle (P: proc) (prog: list instr) (s: state) : state + outcome :=
  let old := last (tbl s) [] in
  let '(r1, busy) := mov_flights P prog old in
  let '(r2, ent) := fill_inputs (S (length prog)) prog (in_ports_sorted P) r1 busy (entered s) in
  match chk_hazards_units P old prog (qs_ s) r2 [] with
  | None => inr Crash
  | Some (r3, clears) =>
    match apply_clears (qs_ s) clears with
    | None => inr Crash
    | Some qs' =>
      if bag_eqb old r3 then inr (Stalled (tbl s))
      else inl {| tbl := tbl s ++ [r3]; qs_ := qs'; entered := ent; exited := exited s + count_outputs P r3 |}
    end
  end.

Fixpoint loop (fuel: nat) (P: proc) (prog: list instr) (s: state) : outcome :=
  match fuel with 0 => OutOfFuel | S f =>
    if (entered s <? length prog) || (exited s <? entered s) then
      match run_cycle P prog s with inl s' => loop f P prog s' | inr o => o end
    else Done (tbl s)
  end.
Definition simulate (fuel: nat) (P: proc) (prog: list instr) : outcome :=
  loop fuel P prog {| tbl := []; qs_ := build_acc_plan prog; entered := 0; exited := 0 |}.

(* ---------- example from the design-phase probe e3.py ---------- *)
Open Scope string_scope.
Definition U_in  := {| u_name := "in";  u_width := 2; u_caps := ["ALU";"MEM"]; u_rl := true;  u_wl := false; u_mem := [] |}.
Definition U_mid := {| u_name := "mid"; u_width := 1; u_caps := ["ALU";"MEM"]; u_rl := false; u_wl := false; u_mem := ["MEM"] |}.
Definition U_out := {| u_name := "out"; u_width := 2; u_caps := ["ALU";"MEM"]; u_rl := false; u_wl := true;  u_mem := [] |}.
Definition P1 := {| p_in := [U_in]; p_out := [{| f_model := U_out; f_preds := ["mid"] |}]; p_inout := [];
                    p_int := [{| f_model := U_mid; f_preds := ["in"] |}] |}.
Definition prog1 := [ {| i_srcs := ["R1"]; i_dst := "R2"; i_cat := "ALU" |};
                      {| i_srcs := ["R2"]; i_dst := "R3"; i_cat := "MEM" |};
                      {| i_srcs := ["R4"]; i_dst := "R5"; i_cat := "MEM" |};
                      {| i_srcs := ["R3"]; i_dst := "R1"; i_cat := "ALU" |} ].
Definition show (o: outcome) := match o with Done d => (0, map nonempty_items d) | Stalled d => (1, map nonempty_items d) | Crash => (2, []) | OutOfFuel => (3, []) end.
Eval vm_compute in show (simulate 100 P1 prog1).
(* self-dependent instruction on a one-unit processor: completes with the repair *)
Definition U_core := {| u_name := "core"; u_width := 1; u_caps := ["ALU"]; u_rl := true; u_wl := true; u_mem := [] |}.
Definition P2 := {| p_in := []; p_out := []; p_inout := [U_core]; p_int := [] |}.
Eval vm_compute in show (simulate 100 P2 [ {| i_srcs := ["R1";"R2"]; i_dst := "R1"; i_cat := "ALU" |} ]).
Eval vm_compute in show (simulate 100 P2 [ {| i_srcs := []; i_dst := "R1"; i_cat := "FPU" |} ]).
