From Coq Require Import String List Arith Bool Lia.
Import ListNotations.

Inductive label := LD | LS | LU.
Definition label_eqb (a b: label) := match a,b with LD,LD | LS,LS | LU,LU => true | _,_ => false end.

Record unit := { u_name : string; u_width : nat; u_caps : list string; u_rl : bool; u_wl : bool; u_mem : list string }.
Record funit := { f_model : unit; f_preds : list string }.
Record proc := { p_in : list unit; p_out : list funit; p_inout : list unit; p_int : list funit }.
Record instr := { i_srcs : list string; i_dst : string; i_cat : string }.

Definition entry := (nat * label)%type.
Definition record := list (string * list entry).

Fixpoint get (r: record) (k: string) : list entry :=
  match r with [] => [] | (k',v)::t => if String.eqb k k' then v else get t k end.
Fixpoint set (r: record) (k: string) (v: list entry) : record :=
  match r with [] => [(k,v)] | (k',v')::t => if String.eqb k k' then (k,v)::t else (k',v')::set t k v end.

Definition mem_str (x: string) (l: list string) := existsb (String.eqb x) l.

(* candidates of destination f: (host, index) for valid entries *)
Fixpoint locate {A} (p: A -> bool) (l: list A) (i: nat) : list nat :=
  match l with [] => [] | x::t => (if p x then [i] else []) ++ locate p t (S i) end.

Definition cat_of (prog: list instr) (i: nat) : string := match nth_error prog i with Some x => i_cat x | None => EmptyString end.

Definition valid (prog: list instr) (f: funit) (e: entry) : bool :=
  negb (label_eqb (snd e) LD) && mem_str (cat_of prog (fst e)) (u_caps (f_model f)).

Definition cands (prog: list instr) (f: funit) (r: record) : list (string * nat) :=
  flat_map (fun h => map (fun i => (h,i)) (locate (valid prog f) (get r h) 0)) (f_preds f).

Definition ix_of (r: record) (c: string * nat) : nat := match nth_error (get r (fst c)) (snd c) with Some e => fst e | None => 0 end.

Fixpoint insert_by {A} (key: A -> nat) (x: A) (l: list A) : list A :=
  match l with [] => [x] | y::t => if key x <? key y then x::l else y :: insert_by key x t end.
Definition sort_by {A} (key: A -> nat) (l: list A) : list A := fold_right (insert_by key) [] l.
(* NB: Python sorted is stable; keys are unique under the invariant *)

(* walk candidates: state = (record, mem_used, moved) *)
Fixpoint walk (prog: list instr) (f: funit) (mem_busy: bool) (cs: list (string*nat)) (r: record) (used: bool) (moved: list (string*nat))
  : record * bool * list (string*nat) :=
  match cs with
  | [] => (r, used, moved)
  | c::t =>
    let me := u_name (f_model f) in
    if length (get r me) =? u_width (f_model f) then (r, used, moved)
    else
      let need := mem_str (cat_of prog (ix_of r c)) (u_mem (f_model f)) in
      if (mem_busy || used) && need then walk prog f mem_busy t r used moved
      else
        let r' := set r me (get r me ++ [(ix_of r c, LU)]) in
        walk prog f mem_busy t r' (used || need) (moved ++ [c])
  end.

Fixpoint del_nth {A} (n: nat) (l: list A) : list A :=
  match l, n with [], _ => [] | _::t, 0 => t | x::t, S n' => x :: del_nth n' t end.

Definition clr (r: record) (moved: list (string*nat)) : record :=
  fold_left (fun r c => set r (fst c) (del_nth (snd c) (get r (fst c)))) (rev (sort_by snd moved)) r.

Definition fill_unit (prog: list instr) (f: funit) (st: record * bool) : record * bool :=
  let '(r, busy) := st in
  let cs := sort_by (ix_of r) (cands prog f r) in
  let '(r', used, moved) := walk prog f busy cs r false [] in
  (clr r' moved, busy || used).

(* width invariant *)
Definition width_of (P: proc) (k: string) : option nat :=
  let all := p_in P ++ p_inout P ++ map f_model (p_out P) ++ map f_model (p_int P) in
  match find (fun u => String.eqb k (u_name u)) all with Some u => Some (u_width u) | None => None end.

Lemma get_set_same r k v : get (set r k v) k = v.
Proof. induction r as [|[k' v'] t IH]; simpl; [rewrite String.eqb_refl; auto|].
  destruct (String.eqb k k') eqn:E; simpl; rewrite ?String.eqb_refl, ?E; auto. Qed.
Lemma get_set_other r k k' v : k <> k' -> get (set r k v) k' = get r k'.
Proof. intros H. induction r as [|[k2 v2] t IH]; simpl.
  - destruct (String.eqb k' k) eqn:E; auto. apply String.eqb_eq in E. congruence.
  - destruct (String.eqb k k2) eqn:E; simpl.
    + apply String.eqb_eq in E; subst. destruct (String.eqb k' k2) eqn:E2; auto. apply String.eqb_eq in E2; congruence.
    + destruct (String.eqb k' k2); auto. Qed.

Definition bounded (w: string -> nat) (r: record) := forall k, length (get r k) <= w k.

Lemma walk_bounded prog f busy w : forall cs r used moved,
  bounded w r -> w (u_name (f_model f)) = u_width (f_model f) ->
  bounded w (fst (fst (walk prog f busy cs r used moved))).
Proof.
  induction cs as [|c t IH]; intros r used moved Hb Hw; simpl; auto.
  destruct (Nat.eqb_spec (length (get r (u_name (f_model f)))) (u_width (f_model f))); auto.
  destruct ((busy || used) && _); auto.
  apply IH; auto. intros k. destruct (string_dec (u_name (f_model f)) k) as [He|Hne].
  - subst k. rewrite get_set_same, app_length; simpl. specialize (Hb (u_name (f_model f))). lia.
  - rewrite get_set_other; auto.
Qed.
