(* Sketch: model of reg_access.py (with the D1 repair) and the C19 protocol invariant *)
From Coq Require Import List Arith Bool Lia.
Import ListNotations.

Inductive aty := RD | WR.
Definition aty_eqb a b := match a,b with RD,RD | WR,WR => true | _,_ => false end.
Lemma aty_eqb_spec a b : reflect (a=b) (aty_eqb a b).
Proof. destruct a,b; constructor; congruence. Qed.

Record group := mkG { g_ty : aty; g_reqs : list nat }.   (* reqs: duplicate-free list = Python set *)
Definition queue := list group.                             (* front first *)

Definition mem (o: nat) (l: list nat) := existsb (Nat.eqb o) l.
Definition set_add (o: nat) (l: list nat) := if mem o l then l else l ++ [o].
Definition set_remove (o: nat) (l: list nat) := filter (fun x => negb (Nat.eqb o x)) l.

(* RegAccQBuilder.append: builder queue is in registration order, appends at the end *)
Fixpoint qb_append (q: queue) (ty: aty) (o: nat) : queue :=
  match q with
  | [] => [mkG ty [o]]
  | [g] => if aty_eqb ty RD && aty_eqb (g_ty g) RD then [mkG RD (set_add o (g_reqs g))] else [g; mkG ty [o]]
  | g :: t => g :: qb_append t ty o
  end.
Definition build (rs: list (aty*nat)) : queue := fold_left (fun q r => qb_append q (fst r) (snd r)) rs [].

Inductive res (A: Type) := Ok (a: A) | IndexError | KeyError.
Arguments Ok {A}. Arguments IndexError {A}. Arguments KeyError {A}.

(* RegAccessQueue.can_access with the repair *)
Definition is_singleton (o: nat) (l: list nat) := match l with [x] => Nat.eqb o x | _ => false end.
Definition can_access (q: queue) (ty: aty) (o: nat) : res bool :=
  match q with
  | [] => IndexError
  | g :: rest =>
    Ok ((aty_eqb ty (g_ty g) && mem o (g_reqs g))
        || (aty_eqb ty WR && aty_eqb (g_ty g) RD && is_singleton o (g_reqs g)
            && match rest with g2 :: _ => aty_eqb (g_ty g2) WR && mem o (g_reqs g2) | [] => false end))
  end.

Definition dequeue (q: queue) (o: nat) : res queue :=
  match q with
  | [] => IndexError
  | g :: rest =>
    if mem o (g_reqs g) then
      let r := set_remove o (g_reqs g) in
      Ok (match r with [] => rest | _ => mkG (g_ty g) r :: rest end)
    else KeyError
  end.

(* ---------- specification side ---------- *)
(* A queue state is "a suffix of plan with a partially consumed, non-empty front". *)
Definition sub (l l': list nat) := NoDup l /\ incl l l'.
Inductive reachable (plan: queue) : queue -> Prop :=
| R_full : reachable plan plan
| R_step : forall g rest r, reachable plan (g :: rest) -> r <> [] -> sub r (g_reqs g) ->
           reachable plan (mkG (g_ty g) r :: rest)
| R_drop : forall g rest, reachable plan (g :: rest) -> reachable plan rest.

Definition wf_group (g: group) := NoDup (g_reqs g) /\ g_reqs g <> [].
Definition wf_queue (q: queue) := Forall wf_group q.

Lemma mem_In o l : mem o l = true <-> In o l.
Proof. unfold mem. rewrite existsb_exists. split.
  - intros [x [H1 H2]]. apply Nat.eqb_eq in H2. subst; auto.
  - intros H. exists o. split; auto. apply Nat.eqb_refl. Qed.

Lemma set_remove_incl o l : incl (set_remove o l) l.
Proof. unfold set_remove. intros x H. apply filter_In in H. tauto. Qed.
Lemma set_remove_NoDup o l : NoDup l -> NoDup (set_remove o l).
Proof. apply NoDup_filter. Qed.
Lemma set_remove_not_in o l : ~ In o (set_remove o l).
Proof. unfold set_remove. intros H. apply filter_In in H. destruct H as [_ H]. rewrite Nat.eqb_refl in H. discriminate. Qed.

(* dequeue keeps us inside the reachable set *)
Lemma dequeue_reachable plan q o q' : wf_queue q -> reachable plan q -> dequeue q o = Ok q' -> reachable plan q'.
Proof.
  intros Hwf Hr Hd. destruct q as [|g rest]; simpl in Hd; [discriminate|].
  destruct (mem o (g_reqs g)) eqn:Hm; [|discriminate].
  inversion Hd; subst; clear Hd.
  destruct (set_remove o (g_reqs g)) as [|x r] eqn:Hs.
  - eapply R_drop; eauto.
  - eapply R_step; eauto.
    + congruence.
    + split.
      * rewrite <- Hs. apply set_remove_NoDup. inversion Hwf; subst. apply H1.
      * rewrite <- Hs. apply set_remove_incl.
Qed.

Lemma dequeue_wf q o q' : wf_queue q -> dequeue q o = Ok q' -> wf_queue q'.
Proof.
  intros Hwf Hd. destruct q as [|g rest]; simpl in Hd; [discriminate|].
  destruct (mem o (g_reqs g)) eqn:Hm; [|discriminate].
  inversion Hd; subst; clear Hd. inversion Hwf; subst.
  destruct (set_remove o (g_reqs g)) as [|x r] eqn:Hs; auto.
  constructor; auto. split; simpl.
  - rewrite <- Hs. apply set_remove_NoDup. apply H1.
  - congruence.
Qed.

(* servable => dequeue succeeds *)
Lemma servable_dequeue_ok q ty o : can_access q ty o = Ok true -> exists q', dequeue q o = Ok q'.
Proof.
  destruct q as [|g rest]; simpl; [discriminate|]. intros H. inversion H as [H1]; clear H.
  apply orb_true_iff in H1. destruct H1 as [H1|H1].
  - apply andb_true_iff in H1. destruct H1 as [_ H1]. rewrite H1. eauto.
  - repeat (apply andb_true_iff in H1; destruct H1 as [H1 ?]).
    unfold is_singleton in *. destruct (g_reqs g) as [|x [|y l]] eqn:E; try discriminate.
    simpl. match goal with H: Nat.eqb o x = true |- _ => rewrite H end. simpl. eauto.
Qed.

(* measure: total number of queued requests strictly decreases *)
Definition size (q: queue) := fold_right (fun g n => length (g_reqs g) + n) 0 q.
Lemma filter_len_le {A} (f: A -> bool) l : length (filter f l) <= length l.
Proof. induction l; simpl; [lia|]. destruct (f a); simpl; lia. Qed.
Lemma filter_length_lt (o: nat) l : In o l -> length (set_remove o l) < length l.
Proof. induction l as [|x l IH]; simpl; [tauto|]. intros [->|H].
  - rewrite Nat.eqb_refl; simpl. pose proof (filter_len_le (fun x => negb (Nat.eqb o x)) l). unfold set_remove. lia.
  - destruct (negb (o =? x)); simpl; specialize (IH H); unfold set_remove in *; lia. Qed.
Lemma dequeue_size q o q' : dequeue q o = Ok q' -> size q' < size q.
Proof.
  destruct q as [|g rest]; simpl; [discriminate|].
  destruct (mem o (g_reqs g)) eqn:Hm; [|discriminate]. intros H; inversion H; subst; clear H.
  apply mem_In in Hm. pose proof (filter_length_lt o _ Hm).
  destruct (set_remove o (g_reqs g)) eqn:E; simpl in *; lia.
Qed.
