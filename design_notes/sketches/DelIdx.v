(* Sketch: deleting a set of indices in descending order == filtering by index *)
From Coq Require Import List Arith Bool Lia Sorted.
Import ListNotations.

Fixpoint del_nth {A} (n: nat) (l: list A) : list A :=
  match l, n with [], _ => [] | _::t, 0 => t | x::t, S n' => x :: del_nth n' t end.

(* keep elements whose index (counting from base) is not in I *)
Fixpoint keep_not {A} (I: list nat) (base: nat) (l: list A) : list A :=
  match l with [] => [] | x::t => (if existsb (Nat.eqb base) I then [] else [x]) ++ keep_not I (S base) t end.

Definition del_desc {A} (I: list nat) (l: list A) : list A := fold_left (fun l i => del_nth i l) I l.

Lemma keep_not_above {A} (I: list nat) : forall (t: list A) b, (forall j, In j I -> j < b) -> keep_not I b t = t.
Proof. induction t as [|y t IHt]; intros b Hb; simpl; auto.
  destruct (existsb (Nat.eqb b) I) eqn:E.
  - apply existsb_exists in E. destruct E as [j [Hj E]]. apply Nat.eqb_eq in E. subst. specialize (Hb _ Hj). lia.
  - simpl. f_equal. apply IHt. intros j Hj. specialize (Hb _ Hj). lia. Qed.

Lemma keep_not_del {A} : forall (l: list A) base i I,
  (forall j, In j I -> j < base + i) ->
  keep_not I base (del_nth i l) = keep_not (base + i :: I) base l.
Proof.
  induction l as [|x t IH]; intros base i I HI; simpl; [destruct i; reflexivity|].
  destruct i; simpl.
  - rewrite Nat.add_0_r in *. rewrite Nat.eqb_refl. simpl.
    rewrite !keep_not_above; auto.
    intros j [<-|Hj]; [lia|]. specialize (HI _ Hj). lia.
  - destruct (Nat.eqb_spec base (base + S i)); [lia|]. simpl.
    f_equal. replace (base + S i) with (S base + i) by lia. apply IH.
    intros j Hj. specialize (HI j Hj). lia.
Qed.

Theorem del_desc_keep {A} : forall (I: list nat) (l: list A),
  StronglySorted (fun a b => b < a) I ->      (* strictly descending, as sorted(reverse=True) of distinct indices *)
  del_desc I l = keep_not I 0 l.
Proof.
  unfold del_desc. induction I as [|i I' IH]; intros l HS; simpl.
  - symmetry. apply keep_not_above. simpl; tauto.
  - inversion HS; subst. rewrite IH; auto.
    rewrite (keep_not_del l 0 i I'); auto.
    intros j Hj. rewrite Forall_forall in H2. simpl. apply H2; auto.
Qed.
