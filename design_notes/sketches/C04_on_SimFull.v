(* Sketch: C04 (unit width never exceeded) proved end to end on the SimFull model *)
From Coq Require Import String List Arith Bool Lia.
Require Import Sim.
Import ListNotations.
Open Scope nat_scope. Open Scope list_scope.

Section Width.
Variable P : proc.
Definition w (k: string) : nat := match find_unit P k with Some u => u_width u | None => 0 end.
Definition bounded (r: record) := forall k, length (get r k) <= w k.

(* names determine units: follows from NoDup names; kept as the hypothesis actually used *)
Hypothesis w_dst : forall f, In f (p_out P ++ p_int P) -> w (u_name (f_model f)) = u_width (f_model f).
Hypothesis w_in  : forall u, In u (p_inout P ++ p_in P) -> w (u_name u) = u_width u.

Lemma get_set_same {A} (r: list (string * A)) k v : forall d, 
  (fix g (r: list (string*A)) := match r with [] => d | (k',v')::t => if String.eqb k k' then v' else g t end) (set r k v) = v.
Proof. intros d. induction r as [|[k' v'] t IH]; simpl; [rewrite String.eqb_refl; auto|].
  destruct (String.eqb k k') eqn:E; simpl; rewrite ?String.eqb_refl, ?E; auto. Qed.

Lemma gss {A} (r: list (string * list A)) k v : get (set r k v) k = v.
Proof. induction r as [|[k' v'] t IH]; simpl; [rewrite String.eqb_refl; auto|].
  destruct (String.eqb k k') eqn:E; simpl; rewrite ?String.eqb_refl, ?E; auto. Qed.
Lemma gso {A} (r: list (string * list A)) k k' v : k <> k' -> get (set r k v) k' = get r k'.
Proof. intros H. induction r as [|[k2 v2] t IH]; simpl.
  - destruct (String.eqb k' k) eqn:E; auto. apply String.eqb_eq in E. congruence.
  - destruct (String.eqb k k2) eqn:E; simpl.
    + apply String.eqb_eq in E; subst. destruct (String.eqb k' k2) eqn:E2; auto. apply String.eqb_eq in E2; congruence.
    + destruct (String.eqb k' k2); auto. Qed.

Lemma bounded_set_le r k v : bounded r -> length v <= length (get r k) -> bounded (set r k v).
Proof. intros Hb Hl k'. destruct (string_dec k k') as [->|Hne].
  - rewrite gss. specialize (Hb k'). lia.
  - rewrite gso; auto. Qed.

Lemma filter_len {A} (f: A -> bool) l : length (filter f l) <= length l.
Proof. induction l; simpl; [lia|]. destruct (f a); simpl; lia. Qed.
Lemma del_nth_len {A} n (l: list A) : length (del_nth n l) <= length l.
Proof. revert n; induction l; intros [|n]; simpl; auto. specialize (IHl n). lia. Qed.

Lemma flush_bounded r : bounded r -> bounded (flush P r).
Proof. unfold flush. generalize (out_names P). intros ns. revert r.
  induction ns as [|n ns IH]; intros r Hb; simpl; auto.
  apply IH. apply bounded_set_le; auto. apply filter_len. Qed.

Lemma walk_bounded prog f busy : forall cs r used moved,
  bounded r -> w (u_name (f_model f)) = u_width (f_model f) ->
  bounded (fst (fst (walk prog f busy cs r used moved))).
Proof.
  induction cs as [|c t IH]; intros r used moved Hb Hw; simpl; auto.
  destruct (Nat.eqb_spec (length (get r (u_name (f_model f)))) (u_width (f_model f))); auto.
  destruct ((busy || used) && _); auto.
  apply IH; auto. intros k. destruct (string_dec (u_name (f_model f)) k) as [He|Hne].
  - subst k. rewrite gss, app_length; simpl. specialize (Hb (u_name (f_model f))). lia.
  - rewrite gso; auto.
Qed.

Lemma clr_bounded moved : forall r, bounded r -> bounded (clr r moved).
Proof. unfold clr. generalize (isort (fun a b => snd b <=? snd a) moved). intros l.
  induction l as [|c l IH]; intros r Hb; simpl; auto.
  apply IH. apply bounded_set_le; auto. apply del_nth_len. Qed.

Lemma fill_unit_bounded prog st f : In f (p_out P ++ p_int P) -> bounded (fst st) -> bounded (fst (fill_unit prog st f)).
Proof. intros Hin Hb. destruct st as [r busy]. unfold fill_unit.
  pose proof (walk_bounded prog f busy (isort (fun a b => ix_of r a <=? ix_of r b) (cands prog f r)) r false [] Hb (w_dst f Hin)) as Hw.
  destruct (walk prog f busy _ r false []) as [[r' used] moved]. simpl in *. apply clr_bounded; auto. Qed.

Lemma mov_flights_bounded prog r : bounded r -> bounded (fst (mov_flights P prog r)).
Proof. intros Hb. unfold mov_flights.
  assert (G: forall l st, incl l (p_out P ++ p_int P) -> bounded (fst st) -> bounded (fst (fold_left (fill_unit prog) l st))).
  { induction l as [|f l IH]; intros st Hi Hs; simpl; auto.
    apply IH; [intros x Hx; apply Hi; right; auto|]. apply fill_unit_bounded; auto. apply Hi; left; auto. }
  apply G; [apply incl_refl|]. simpl. apply flush_bounded; auto. Qed.

Lemma try_ports_bounded cat : forall ports r mu ix r' m', incl ports (p_inout P ++ p_in P) -> bounded r ->
  try_ports cat ports r mu ix = Some (r', m') -> bounded r'.
Proof. induction ports as [|u t IH]; intros r mu ix r' m' Hi Hb H; simpl in H; [discriminate|].
  assert (Ht: incl t (p_inout P ++ p_in P)) by (intros x Hx; apply Hi; right; auto).
  destruct (mem_str cat (u_caps u)); [|eapply IH; eauto].
  destruct (Nat.eqb_spec (length (get r (u_name u))) (u_width u)).
  - rewrite orb_true_r in H. eapply IH; eauto.
  - destruct (mu && mem_str cat (u_mem u)); simpl in H; [eapply IH; eauto|].
    inversion H; subst; clear H. intros k. destruct (string_dec (u_name u) k) as [He|Hne].
    + subst k. rewrite gss, app_length; simpl. specialize (Hb (u_name u)). rewrite (w_in u) in *; [lia| |]; apply Hi; left; auto.
    + rewrite gso; auto.
Qed.

Lemma isort_incl {A} leb (l: list A) : incl (isort leb l) l.
Proof. induction l as [|x l IH]; simpl; [apply incl_refl|].
  assert (G: forall y s, incl (insert leb y s) (y :: s)).
  { intros y s. induction s as [|z s IHs]; simpl; [apply incl_refl|].
    destruct (leb y z); [apply incl_refl|]. intros a [->|Ha]; [right; left; auto|].
    apply IHs in Ha. destruct Ha as [->|Ha]; [left; auto|right; right; auto]. }
  intros a Ha. apply G in Ha. destruct Ha as [->|Ha]; [left; auto|right; apply IH; auto]. Qed.

Lemma fill_inputs_bounded prog : forall fuel r mu ent, bounded r ->
  bounded (fst (fill_inputs fuel prog (in_ports_sorted P) r mu ent)).
Proof. induction fuel as [|f IH]; intros r mu ent Hb; simpl; auto.
  destruct (nth_error prog ent); auto.
  destruct (try_ports (i_cat i) (in_ports_sorted P) r mu ent) as [[r' m']|] eqn:E; auto.
  apply IH. eapply try_ports_bounded; eauto. apply isort_incl. Qed.

(* hazards only relabel *)
Lemma stall_unit_len u old prog qs : forall es cl es' cl', stall_unit u old prog qs es cl = Some (es', cl') -> length es' = length es.
Proof. induction es as [|[i l] t IH]; intros cl es' cl' H; simpl in H.
  - inversion H; auto.
  - destruct (regs_loaded old i).
    + destruct (stall_unit u old prog qs t cl) as [[t' c']|] eqn:E; [|discriminate]. inversion H; subst; simpl. f_equal; eauto.
    + destruct (nth_error prog i); [|discriminate]. destruct (regs_avail u i i0 qs) as [[regs|]|]; [| |discriminate].
      * destruct (stall_unit u old prog qs t _) as [[t' c']|] eqn:E; [|discriminate]. inversion H; subst; simpl. f_equal; eauto.
      * destruct (stall_unit u old prog qs t cl) as [[t' c']|] eqn:E; [|discriminate]. inversion H; subst; simpl. f_equal; eauto.
Qed.
Lemma hazards_len old prog qs : forall r cl r' cl', chk_hazards_units P old prog qs r cl = Some (r', cl') ->
  forall k, length (get r' k) = length (get r k).
Proof. induction r as [|[n es] t IH]; intros cl r' cl' H k; simpl in H.
  - inversion H; auto.
  - destruct (find_unit P n); [|discriminate].
    destruct (stall_unit u (get old n) prog qs es cl) as [[es' c']|] eqn:E; [|discriminate].
    destruct (chk_hazards_units P old prog qs t c') as [[t' c'']|] eqn:E2; [|discriminate].
    inversion H; subst; simpl. destruct (String.eqb k n); eauto using stall_unit_len. Qed.

Definition all_bounded (d: list record) := Forall bounded d.

Lemma run_cycle_bounded prog s s' : all_bounded (tbl s) -> run_cycle P prog s = inl s' -> all_bounded (tbl s').
Proof. intros Hb H. unfold run_cycle in H.
  assert (Hold: bounded (last (tbl s) [])).
  { destruct (tbl s) as [|a t] eqn:E; [intros k; simpl; lia|].
    unfold all_bounded in Hb. rewrite Forall_forall in Hb. apply Hb.
    destruct (@exists_last _ (a :: t)) as [l' [x Hx]]; [congruence|].
    rewrite Hx, last_last. apply in_or_app; right; left; auto. }
  pose proof (mov_flights_bounded prog _ Hold) as H1.
  destruct (mov_flights P prog (last (tbl s) [])) as [r1 busy]. simpl in H1.
  pose proof (fill_inputs_bounded prog (S (length prog)) r1 busy (entered s) H1) as H2.
  destruct (fill_inputs _ prog _ r1 busy (entered s)) as [r2 ent]. simpl in H2.
  destruct (chk_hazards_units P _ prog (qs_ s) r2 []) as [[r3 cl]|] eqn:E; [|discriminate].
  destruct (apply_clears (qs_ s) cl); [|discriminate].
  destruct (bag_eqb _ r3); [discriminate|]. inversion H; subst; simpl.
  apply Forall_app; split; auto. constructor; auto.
  intros k. rewrite (hazards_len _ _ _ _ _ _ _ E k). apply H2. Qed.

Lemma loop_bounded prog : forall fuel s d, all_bounded (tbl s) ->
  (loop fuel P prog s = Done d \/ loop fuel P prog s = Stalled d) -> all_bounded d.
Proof. induction fuel as [|f IH]; intros s d Hb H; simpl in H; [destruct H; discriminate|].
  destruct ((entered s <? length prog) || (exited s <? entered s)).
  - destruct (run_cycle P prog s) as [s'|o] eqn:E.
    + eapply IH; [eapply run_cycle_bounded; eauto|auto].
    + unfold run_cycle in E.
      destruct (mov_flights P prog (last (tbl s) [])) as [r1 busy].
      destruct (fill_inputs _ prog _ r1 busy (entered s)) as [r2 ent].
      destruct (chk_hazards_units P _ prog (qs_ s) r2 []) as [[r3 cl]|]; [|inversion E; subst; destruct H; discriminate].
      destruct (apply_clears (qs_ s) cl); [|inversion E; subst; destruct H; discriminate].
      destruct (bag_eqb _ r3); [|discriminate]. inversion E; subst. destruct H as [H|H]; inversion H; subst; auto.
  - destruct H as [H|H]; inversion H; subst; auto. Qed.

Theorem C04_width prog fuel d :
  (simulate fuel P prog = Done d \/ simulate fuel P prog = Stalled d) ->
  forall r, In r d -> forall k, length (get r k) <= w k.
Proof. intros H r Hr k. unfold simulate in H. apply loop_bounded in H; [|constructor].
  unfold all_bounded in H. rewrite Forall_forall in H. apply H; auto. Qed.
End Width.
Print Assumptions C04_width.
