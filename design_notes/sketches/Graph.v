(* Sketch: insertion-ordered digraph, networkx topological_sort (Kahn by generations) and dfs_postorder_nodes *)
From Coq Require Import String List Arith Bool Lia.
Import ListNotations.
Open Scope list_scope.

Definition node := string.
Record graph := { nodes : list node; succs : list (node * list node) }.   (* adjacency in edge insertion order *)
Definition mem_s (x: node) (l: list node) := existsb (String.eqb x) l.
Fixpoint assoc {A} (d: A) (l: list (node * A)) (k: node) : A :=
  match l with [] => d | (k',v)::t => if String.eqb k k' then v else assoc d t k end.
Fixpoint upd {A} (l: list (node * A)) (k: node) (v: A) : list (node * A) :=
  match l with [] => [(k,v)] | (k',v')::t => if String.eqb k k' then (k,v)::t else (k',v')::upd t k v end.
Definition succ_of (g: graph) (n: node) := assoc [] (succs g) n.
Definition add_node (g: graph) (n: node) : graph :=
  if mem_s n (nodes g) then g else {| nodes := nodes g ++ [n]; succs := succs g ++ [(n,[])] |}.
Definition add_edge (g: graph) (a b: node) : graph :=
  let g := add_node (add_node g a) b in
  if mem_s b (succ_of g a) then g else {| nodes := nodes g; succs := upd (succs g) a (succ_of g a ++ [b]) |}.
Definition indeg (g: graph) (n: node) : nat := length (filter (fun p => mem_s n (snd p)) (succs g)).

(* one generation: iterate nodes of this generation, decrement children; returns (imap, next generation) *)
Fixpoint dec_children (imap: list (node*nat)) (zero: list node) (cs: list node) : list (node*nat) * list node :=
  match cs with
  | [] => (imap, zero)
  | c::t => let d := assoc 0 imap c - 1 in
            if (d =? 0)%nat then dec_children (upd imap c 0) (zero ++ [c]) t      (* del imap[c] modelled as 0 + membership in done *)
            else dec_children (upd imap c d) zero t
  end.
Fixpoint gen_step (g: graph) (imap: list (node*nat)) (zero: list node) (this: list node) :=
  match this with
  | [] => (imap, zero)
  | n::t => let '(imap', zero') := dec_children imap zero (succ_of g n) in gen_step g imap' zero' t
  end.
Fixpoint kahn (fuel: nat) (g: graph) (imap: list (node*nat)) (zero: list node) (acc: list node) : list node :=
  match fuel with 0 => acc | S f =>
    match zero with [] => acc | _ =>
      let '(imap', next) := gen_step g imap [] zero in kahn f g imap' next (acc ++ zero) end end.
Definition topo_sort (g: graph) : option (list node) :=
  let imap := map (fun n => (n, indeg g n)) (nodes g) in
  let zero := filter (fun n => (indeg g n =? 0)%nat) (nodes g) in
  let order := kahn (S (length (nodes g))) g imap zero [] in
  if (length order =? length (nodes g))%nat then Some order else None.    (* None = NetworkXUnfeasible *)

(* DFS postorder, children in adjacency order, starts in node order *)
Fixpoint dfs (fuel: nat) (g: graph) (n: node) (seen out: list node) : list node * list node :=
  match fuel with 0 => (seen, out) | S f =>
    let '(seen', out') := fold_left (fun '(s,o) c => if mem_s c s then (s,o) else dfs f g c (c::s) o) (succ_of g n) (seen, out) in
    (seen', out' ++ [n]) end.
Definition dfs_postorder (g: graph) : list node :=
  snd (fold_left (fun '(s,o) n => if mem_s n s then (s,o) else dfs (S (length (nodes g))) g n (n::s) o) (nodes g) ([], [])).

Definition mk (ns: list node) (es: list (node*node)) : graph :=
  fold_left (fun g e => add_edge g (fst e) (snd e)) es (fold_left add_node ns {| nodes := []; succs := [] |}).

Definition g1 := mk ["u3"%string;"u0"%string;"u2"%string;"u1"%string;"u4"%string]%string [("u0"%string,"u2"%string);("u3"%string,"u2"%string);("u2"%string,"u1"%string);("u0"%string,"u1"%string);("u1"%string,"u4"%string);("u3"%string,"u4"%string)].
Eval vm_compute in topo_sort g1.
Eval vm_compute in dfs_postorder g1.
Eval vm_compute in topo_sort (mk ["a"%string;"b"%string] [("a"%string,"b"%string);("b"%string,"a"%string)]).
